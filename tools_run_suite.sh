#!/bin/sh
# Rebuild the repository's own test suite (guard OFF) and run it: the baseline_off_cmd of MANIFEST.hooks.
set -e
cmake --build /repo/_build -j16 >/tmp/verif_suite_build.log 2>&1 || { tail -40 /tmp/verif_suite_build.log; exit 1; }
ctest --test-dir /repo/_build -j8 --timeout 900 2>&1 | grep -E "tests passed|tests failed|\*\*\*Failed|Not Run" 
