#!/bin/sh
# usage: tools_try_seed.sh <dir with patch.diff demo.cpp meta.json> <property id> [check args...]
# 1. scratch worktree of /repo HEAD: demo passes on the clean tree; patch applies; library + full test suite build and pass; demo fails
# 2. the patch is applied to /repo, the property's quick check is run, the patch is reverted straight afterwards
set -u
d=$(cd "$1" && pwd); prop="$2"; shift 2
wt=$(mktemp -d /tmp/seedwt-XXXXXX)
log="$d/verify.log"; : > "$log"
cleanup() { git -C /repo worktree remove --force "$wt" >/dev/null 2>&1; rm -rf "$wt"; }
trap cleanup EXIT
rmdir "$wt"; git -C /repo worktree add -q --detach "$wt" HEAD || exit 2
g++ -std=c++17 -O1 -g -pthread -I "$wt/include" "$d/demo.cpp" -o "$wt/demo_clean" -lz -lbz2 -lexpat -llz4 >>"$log" 2>&1 || { echo "DEMO-DOES-NOT-COMPILE"; exit 3; }
"$wt/demo_clean" >"$wt/demo_clean.out" 2>&1; rc_clean=$?
echo "demo on clean tree: rc=$rc_clean $(tail -1 "$wt/demo_clean.out")" | tee -a "$log"
git -C "$wt" apply "$d/patch.diff" >>"$log" 2>&1 || { echo "PATCH-DOES-NOT-APPLY"; exit 3; }
g++ -std=c++17 -O1 -g -pthread -I "$wt/include" "$d/demo.cpp" -o "$wt/demo_changed" -lz -lbz2 -lexpat -llz4 >>"$log" 2>&1 || { echo "DEMO-DOES-NOT-COMPILE-WITH-CHANGE"; exit 3; }
rc_changed=0
for i in 1 2 3; do "$wt/demo_changed" >"$wt/demo_changed.out" 2>&1; r=$?; [ $r -ne 0 ] && rc_changed=$r; done
echo "demo with change: rc=$rc_changed $(tail -1 "$wt/demo_changed.out")" | tee -a "$log"
( cd "$wt" && cmake -G Ninja -B _build -DCMAKE_BUILD_TYPE=RelWithDebInfo -DCMAKE_CXX_FLAGS=-Wno-error -DBUILD_EXAMPLES=ON -DBUILD_DATA_TESTS=ON -DBUILD_BENCHMARKS=OFF >/dev/null 2>&1 && cmake --build _build -j12 >"$wt/build.log" 2>&1 ) || { echo "SUITE-BUILD-FAILED"; tail -20 "$wt/build.log" | tee -a "$log"; exit 3; }
suite=$(ctest --test-dir "$wt/_build" -j8 --timeout 900 2>&1 | grep -E "tests passed|tests failed" | tail -1)
echo "existing suite with change: $suite" | tee -a "$log"
# --- the check: run against the patched scratch worktree (VERIF_REPO), or with APPLY_TO_REPO=1 against /repo itself with the patch
# applied and reverted straight afterwards
if [ "${APPLY_TO_REPO:-0}" = "1" ]; then
  git -C /repo apply "$d/patch.diff" || { echo "PATCH-DOES-NOT-APPLY-TO-REPO"; exit 3; }
  ( cd /verif && timeout 2400 ./check "$prop" --tier quick --no-evidence "$@" >"$wt/check.out" 2>&1 ); rc_check=$?
  git -C /repo checkout -- .
else
  ( cd /verif && VERIF_REPO="$wt" VERIF_BUILD="$wt/vbuild" VERIF_WORK="$wt/vwork" timeout 2400 ./check "$prop" --tier quick --no-evidence "$@" >"$wt/check.out" 2>&1 ); rc_check=$?
fi
grep -E "^VIOLATION|^  detail|^OK|^FAIL|BROKEN" "$wt/check.out" | cut -c1-500 | head -6 | tee -a "$log"
echo "check rc=$rc_check" | tee -a "$log"
