#!/bin/sh
# usage: tools_mkmutant.sh <name> <file-relative-to-repo> <python-expr: old> <new>   (creates mutants/<name>.patch from a one-line replacement)
set -e
name="$1"; file="$2"; old="$3"; new="$4"
d=$(mktemp -d /tmp/verif-mk-XXXXXX)
trap 'rm -rf "$d"' EXIT
mkdir -p "$d/a/$(dirname "$file")" "$d/b/$(dirname "$file")"
cp "/repo/$file" "$d/a/$file"
python3 - "$d/a/$file" "$d/b/$file" "$old" "$new" <<'PY'
import sys
s=open(sys.argv[1]).read()
old,new=sys.argv[3],sys.argv[4]
n=s.count(old)
if n!=1:
    sys.exit("pattern occurs %d times (need exactly 1): %r"%(n,old))
open(sys.argv[2],'w').write(s.replace(old,new))
PY
(cd "$d" && diff -u "a/$file" "b/$file" > "/verif/mutants/$name.patch" || true)
echo "wrote mutants/$name.patch"
