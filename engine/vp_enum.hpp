// vp_enum.hpp -- exhaustive / strided enumeration runner on top of vp.hpp.
//
// A "Sub" is a property over an indexed finite domain [0, domain).  The thorough
// tier visits every index (exhaustive: true), the quick tier visits the indices
// congruent to a seed-dependent phase modulo `quick_stride` plus the explicit
// `always` boundary list.  Work is spread over T threads inside a forked child;
// every thread publishes the index it is working on in the shared region so a
// sanitizer abort still identifies the failing input.  Replay unit = (sub, index).
#pragma once

#include "vp.hpp"

#include <mutex>
#include <thread>

namespace vp {

struct Local {
    uint64_t evaluations = 0;
    uint64_t nontrivial = 0;
    std::map<std::string, uint64_t> classes;
    void count(const std::string& k, uint64_t by = 1) { classes[k] += by; }
};

struct Sub {
    std::string name;
    uint64_t domain = 0;
    uint64_t quick_stride = 1;
    std::vector<uint64_t> always;
    std::function<void(uint64_t, Local&)> fn;     // throws vp::Fail
    std::function<std::string(uint64_t)> show;    // literal description of element idx
    uint64_t block = 4096;                        // indices handed to a thread at a time
};

constexpr size_t ENUM_MAX_THREADS = 64;
constexpr size_t ENUM_MAX_FAIL = 24;

struct EnumShared {
    volatile uint64_t current[ENUM_MAX_THREADS];
    volatile uint64_t active[ENUM_MAX_THREADS];
    volatile uint64_t evaluations;
    volatile uint64_t nontrivial;
    volatile uint64_t done;
    volatile uint64_t n_fail;
    uint64_t fail_idx[ENUM_MAX_FAIL];
    char fail_sig[ENUM_MAX_FAIL][96];
    char fail_msg[ENUM_MAX_FAIL][1024];
};

inline EnumShared*& eshared() {
    static EnumShared* p = nullptr;
    return p;
}

inline std::string write_enum_replay(const std::string& sub, uint64_t idx, const std::string& sig, const std::string& msg,
                                     const std::string& desc) {
    std::string dir = opts().viol_dir + "/" + opts().prop;
    mkdirs(dir);
    std::string safe;
    for (char c : sig) safe += (std::isalnum(static_cast<unsigned char>(c)) ? c : '_');
    std::string path = dir + "/" + opts().unit + "-" + sub + "-" + safe.substr(0, 40) + "-" + std::to_string(idx) + ".case";
    std::ofstream f(path, std::ios::trunc);
    f << "vpenum 1 " << opts().prop << " " << opts().unit << "\n";
    f << "sig " << sig << "\n";
    f << "sub " << sub << "\n";
    f << "index " << idx << "\n";
    f << "# msg: " << msg << "\n";
    f << "# desc: " << desc << "\n";
    return path;
}

inline int enum_replay(const std::vector<Sub>& subs) {
    std::ifstream f(opts().replay);
    if (!f) {
        std::fprintf(stderr, "cannot read %s\n", opts().replay.c_str());
        return 2;
    }
    std::string line, sub;
    uint64_t idx = 0;
    while (std::getline(f, line)) {
        if (line.rfind("sub ", 0) == 0) sub = line.substr(4);
        if (line.rfind("index ", 0) == 0) idx = std::strtoull(line.c_str() + 6, nullptr, 10);
    }
    for (const auto& s : subs) {
        if (s.name != sub) continue;
        init_shared();
        ChildOutcome o = run_child(
            [&]() -> int {
                Local L;
                try {
                    s.fn(idx, L);
                } catch (const Fail& fl) {
                    copy_trunc(shared()->fail_sig, sizeof(shared()->fail_sig), fl.sig);
                    copy_trunc(shared()->fail_msg, sizeof(shared()->fail_msg), fl.msg);
                    shared()->status = 1;
                    return 1;
                }
                return 0;
            },
            opts().case_timeout * 3, "");
        if (o.kind == ChildOutcome::ok) {
            std::printf("REPLAY pass file=%s\n", opts().replay.c_str());
            return 0;
        }
        std::printf("REPLAY fail file=%s sig=%s msg=%s\nDESC %s\n", opts().replay.c_str(), o.sig.c_str(), o.msg.c_str(),
                    s.show ? s.show(idx).c_str() : "");
        return 1;
    }
    std::fprintf(stderr, "unknown sub '%s'\n", sub.c_str());
    return 2;
}

inline int run_enum(const std::vector<Sub>& subs, const std::string& rule) {
    if (!opts().replay.empty()) return enum_replay(subs);
    init_shared();
    if (!eshared()) {
        void* m = mmap(nullptr, sizeof(EnumShared), PROT_READ | PROT_WRITE, MAP_SHARED | MAP_ANONYMOUS, -1, 0);
        eshared() = static_cast<EnumShared*>(m);
    }
    Shared* sh = shared();
    std::memset(sh, 0, offsetof(Shared, hashes));
    const bool thorough = opts().tier == "thorough";
    unsigned T = static_cast<unsigned>(std::strtoul(extra("threads", "16").c_str(), nullptr, 10));
    if (T < 1) T = 1;
    if (T > ENUM_MAX_THREADS) T = ENUM_MAX_THREADS;
    std::string only = extra("sub", "");
    Result res;
    res.rule = rule;
    res.has_own_distinct = true;
    res.exhaustive = thorough;
    double t0 = now_s();
    std::string errpath = opts().out.empty() ? "/dev/null" : opts().out + ".stderr";
    for (const auto& s : subs) {
        if (!only.empty() && only != s.name) continue;
        EnumShared* es = eshared();
        std::memset(es, 0, sizeof(EnumShared));
        const uint64_t stride = thorough ? 1 : std::max<uint64_t>(1, s.quick_stride);
        const uint64_t phase = stride == 1 ? 0 : mix64(opts().seed * 7919 + hash_str(s.name)) % stride;
        const uint64_t n_strided = s.domain == 0 ? 0 : (s.domain - 1 - std::min(phase, s.domain - 1)) / stride + (phase < s.domain ? 1 : 0);
        ChildOutcome o = run_child(
            [&]() -> int {
                std::atomic<uint64_t> next_block{0};
                std::mutex mu;
                std::map<std::string, uint64_t> classes;
                std::map<std::string, int> per_sig;
                auto worker = [&](unsigned t) {
                    Local L;
                    auto one = [&](uint64_t idx) {
                        es->current[t] = idx;
                        es->active[t] = 1;
                        try {
                            ++L.evaluations;
                            s.fn(idx, L);
                        } catch (const Fail& fl) {
                            std::lock_guard<std::mutex> g(mu);
                            if (per_sig[fl.sig]++ < 3 && es->n_fail < ENUM_MAX_FAIL) {
                                uint64_t k = es->n_fail;
                                es->fail_idx[k] = idx;
                                copy_trunc(es->fail_sig[k], sizeof(es->fail_sig[k]), fl.sig);
                                copy_trunc(es->fail_msg[k], sizeof(es->fail_msg[k]), fl.msg);
                                es->n_fail = k + 1;
                            }
                        }
                        es->active[t] = 0;
                    };
                    if (t == 0) {
                        for (uint64_t idx : s.always) {
                            if (idx < s.domain) one(idx);
                        }
                    }
                    for (;;) {
                        uint64_t b = next_block.fetch_add(1);
                        uint64_t lo = b * s.block;
                        if (lo >= n_strided) break;
                        uint64_t hi = std::min(n_strided, lo + s.block);
                        for (uint64_t k = lo; k < hi; ++k) one(phase + k * stride);
                        sh->heartbeat++;
                    }
                    std::lock_guard<std::mutex> g(mu);
                    es->evaluations += L.evaluations;
                    es->nontrivial += L.nontrivial;
                    for (auto& kv : L.classes) classes[kv.first] += kv.second;
                };
                std::vector<std::thread> th;
                for (unsigned t = 0; t < T; ++t) th.emplace_back(worker, t);
                for (auto& x : th) x.join();
                for (auto& kv : classes) count(s.name + "." + kv.first, kv.second);
                es->done = 1;
                return 0;
            },
            opts().case_timeout, errpath);
        count(s.name + ".evaluations", es->evaluations);
        res.evaluations += es->evaluations;
        res.distinct_nontrivial += es->nontrivial;
        for (uint64_t k = 0; k < es->n_fail; ++k) {
            std::string desc = s.show ? s.show(es->fail_idx[k]) : "";
            std::string path = write_enum_replay(s.name, es->fail_idx[k], es->fail_sig[k], es->fail_msg[k], desc);
            res.failures.push_back(FailureRec{es->fail_sig[k], std::string{es->fail_msg[k]} + " | " + desc, path});
        }
        if (o.kind != ChildOutcome::ok) {
            res.exhaustive = false;
            // find the culprit among the indices the threads were working on
            bool found = false;
            for (unsigned t = 0; t < T; ++t) {
                if (!es->active[t]) continue;
                uint64_t idx = es->current[t];
                ChildOutcome single = run_child(
                    [&]() -> int {
                        Local L;
                        try {
                            s.fn(idx, L);
                        } catch (const Fail&) {
                            return 0;  // oracle failures are reported by the normal path
                        }
                        return 0;
                    },
                    opts().case_timeout, errpath);
                if (single.kind == ChildOutcome::crashed || single.kind == ChildOutcome::hung) {
                    std::string tail = read_tail(errpath, 3000);
                    std::string msg = single.msg;
                    auto p = tail.find("SUMMARY: ");
                    if (p != std::string::npos) msg += " | " + tail.substr(p, tail.find('\n', p) - p);
                    std::string desc = s.show ? s.show(idx) : "";
                    std::string path = write_enum_replay(s.name, idx, single.sig, msg, desc);
                    res.failures.push_back(FailureRec{single.sig, msg + " | " + desc, path});
                    found = true;
                }
            }
            if (!found) {
                res.notes.push_back("sub " + s.name + ": child ended abnormally (" + o.msg + ") but no single index reproduced it");
                res.failures.push_back(FailureRec{"enum-child-" + o.sig, o.msg + " " + read_tail(errpath, 1500), ""});
            }
        }
        // a few literal samples
        if (s.show && s.domain > 0) {
            for (uint64_t k : {uint64_t{0}, n_strided / 3, n_strided / 2, n_strided - 1}) {
                if (n_strided == 0) break;
                if (res.samples.size() < 24) res.samples.push_back(s.name + ": " + s.show(phase + k * stride));
            }
        }
        if (!thorough) res.notes.push_back("sub " + s.name + ": stride " + std::to_string(stride) + " phase " + std::to_string(phase) + " of domain " + std::to_string(s.domain));
    }
    for (uint64_t i = 0; i < sh->n_counters; ++i) res.classes[sh->counter_names[i]] = sh->counter_values[i];
    res.wall_s = now_s() - t0;
    write_result_json(res, opts().out);
    return res.failures.empty() ? 0 : 1;
}

}  // namespace vp
