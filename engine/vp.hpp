// vp.hpp -- minimal property-based-testing engine used by all /verif harnesses.
//
// Design (see DESIGN.md section 2):
//  * A property is a function  void prop(vp::Src&)  that draws every random
//    choice from the Src ("choice sequence", like Hypothesis/FuzzedDataProvider)
//    and calls vp::fail(sig, msg) (or VP_CHECK) when the oracle disagrees.
//  * Cases run in a forked child.  Every drawn choice is written to a
//    MAP_SHARED region *before* it is used, so when the child dies (ASan abort,
//    assert, SIGSEGV, watchdog kill) the parent still has the exact failing
//    choice sequence (write-ahead journal).
//  * The parent shrinks the choice sequence generically (truncate, delete
//    spans, zero/halve/decrement values), each attempt in a fresh child, and
//    writes the minimal sequence as the replay file.
//  * The same Src can be fed from raw bytes, so every property can also be a
//    libFuzzer target (VP_LIBFUZZER).
//  * Counters, per-class histogram, 64-bit hashes of non-trivial cases and
//    literal samples live in the shared region too and are emitted as JSON.
#pragma once

#include <algorithm>
#include <atomic>
#include <cerrno>
#include <chrono>
#include <cinttypes>
#include <csignal>
#include <cstdint>
#include <cstdio>
#include <cstdlib>
#include <cstring>
#include <exception>
#include <fstream>
#include <functional>
#include <map>
#include <set>
#include <sstream>
#include <string>
#include <vector>

#include <dirent.h>
#include <fcntl.h>
#include <sys/mman.h>
#include <sys/resource.h>
#include <sys/stat.h>
#include <sys/types.h>
#include <sys/wait.h>
#include <unistd.h>

namespace vp {

// ---------------------------------------------------------------- failures

struct Fail : public std::exception {
    std::string sig;
    std::string msg;
    Fail(std::string s, std::string m) : sig(std::move(s)), msg(std::move(m)) {}
    const char* what() const noexcept override { return msg.c_str(); }
};

[[noreturn]] inline void fail(const std::string& sig, const std::string& msg) {
    throw Fail{sig, msg};
}

#define VP_CHECK(cond, sig, msg)                                              \
    do {                                                                      \
        if (!(cond)) {                                                        \
            std::ostringstream vp_oss_;                                       \
            vp_oss_ << msg << "  [" #cond "] at " << __FILE__ << ":" << __LINE__; \
            ::vp::fail((sig), vp_oss_.str());                                 \
        }                                                                     \
    } while (0)

// ---------------------------------------------------------------- hashing / prng

inline uint64_t mix64(uint64_t x) {
    x += 0x9e3779b97f4a7c15ULL;
    x = (x ^ (x >> 30)) * 0xbf58476d1ce4e5b9ULL;
    x = (x ^ (x >> 27)) * 0x94d049bb133111ebULL;
    return x ^ (x >> 31);
}

inline uint64_t hash_bytes(const void* p, size_t n, uint64_t h = 0xcbf29ce484222325ULL) {
    const auto* b = static_cast<const unsigned char*>(p);
    for (size_t i = 0; i < n; ++i) {
        h ^= b[i];
        h *= 0x100000001b3ULL;
    }
    return mix64(h);
}
inline uint64_t hash_str(const std::string& s, uint64_t h = 0xcbf29ce484222325ULL) {
    return hash_bytes(s.data(), s.size(), h);
}

struct Rng {
    uint64_t s;
    explicit Rng(uint64_t seed) : s(seed) {}
    uint64_t next() {
        s += 0x9e3779b97f4a7c15ULL;
        uint64_t z = s;
        z = (z ^ (z >> 30)) * 0xbf58476d1ce4e5b9ULL;
        z = (z ^ (z >> 27)) * 0x94d049bb133111ebULL;
        return z ^ (z >> 31);
    }
    uint64_t below(uint64_t n) { return n <= 1 ? 0 : next() % n; }
};

// ---------------------------------------------------------------- shared region

constexpr size_t MAX_CHOICES = 1u << 21;
constexpr size_t MAX_HASHES = 1u << 21;
constexpr size_t MAX_COUNTERS = 256;
constexpr size_t COUNTER_NAME = 56;
constexpr size_t MAX_SAMPLES = 10;
constexpr size_t SAMPLE_LEN = 3000;
constexpr size_t DESC_LEN = 1 << 16;

struct Shared {
    volatile uint64_t case_index;
    volatile uint64_t n_choices;
    volatile uint64_t cases_done;
    volatile uint64_t status;  // 0 running, 1 failure recorded, 2 finished
    volatile uint64_t heartbeat;
    char fail_sig[160];
    char fail_msg[8192];
    char desc[DESC_LEN];
    uint64_t n_counters;
    char counter_names[MAX_COUNTERS][COUNTER_NAME];
    uint64_t counter_values[MAX_COUNTERS];
    uint64_t n_samples;
    char samples[MAX_SAMPLES][SAMPLE_LEN];
    uint64_t n_hashes;
    uint64_t hashes[MAX_HASHES];
    uint64_t choices[MAX_CHOICES];
};

inline Shared*& shared() {
    static Shared* p = nullptr;
    return p;
}

inline void init_shared() {
    if (shared()) return;
    void* m = mmap(nullptr, sizeof(Shared), PROT_READ | PROT_WRITE, MAP_SHARED | MAP_ANONYMOUS, -1, 0);
    if (m == MAP_FAILED) {
        perror("mmap");
        std::exit(3);
    }
    shared() = static_cast<Shared*>(m);
}

inline void copy_trunc(char* dst, size_t cap, const std::string& s) {
    size_t n = std::min(cap - 1, s.size());
    std::memcpy(dst, s.data(), n);
    dst[n] = 0;
}

// ---------------------------------------------------------------- options / state

struct Options {
    std::string prop = "C00";
    std::string tier = "quick";
    uint64_t seed = 1;
    uint64_t shard = 0;
    uint64_t nshards = 1;
    uint64_t cases = 100;
    double case_timeout = 30.0;  // seconds without progress before a case counts as a hang candidate
    double budget_s = 0;         // optional wall budget (0 = none); hitting it is "inconclusive", not a failure
    std::string out;             // json result file
    std::string replay;          // replay file
    std::string viol_dir = "work/violations";
    std::string unit = "unit";
    std::set<std::string> open_findings;
    bool hang_is_violation = true;
    uint64_t max_rss_mb = 6000;  // a single case whose process grows beyond this is stopped (runaway allocation), see run_child()
    int max_failures = 3;
    std::map<std::string, std::string> extra;  // harness-specific --key value
};

inline Options& opts() {
    static Options o;
    return o;
}

inline bool known_open(const std::string& key) { return opts().open_findings.count(key) != 0; }

struct CaseState {
    bool want_desc = false;
    bool in_child = false;
    bool stats = true;  // false while shrinking/replaying: those executions are not part of the evidence counts
    std::set<uint64_t>* seen = nullptr;
};
inline CaseState& cs() {
    static CaseState c;
    return c;
}

inline bool want_desc() { return cs().want_desc; }
inline void describe(const std::string& s) {
    if (shared()) copy_trunc(shared()->desc, DESC_LEN, s);
}

inline void count(const std::string& name, uint64_t by = 1) {
    Shared* sh = shared();
    if (!sh || !cs().stats) return;
    static std::map<std::string, size_t> idx;  // per-process cache
    auto it = idx.find(name);
    if (it == idx.end()) {
        // look in shared names (a restarted child must find names of its predecessor)
        size_t i = 0;
        for (; i < sh->n_counters; ++i) {
            if (name == sh->counter_names[i]) break;
        }
        if (i == sh->n_counters) {
            if (sh->n_counters >= MAX_COUNTERS) return;
            copy_trunc(sh->counter_names[i], COUNTER_NAME, name);
            sh->counter_values[i] = 0;
            sh->n_counters = i + 1;
        }
        it = idx.emplace(name, i).first;
    }
    sh->counter_values[it->second] += by;
}

// Mark the current case as non-trivial (by the property's stated rule); h identifies the case.
inline void nontrivial(uint64_t h) {
    Shared* sh = shared();
    if (!sh || !cs().stats) return;
    count("nontrivial");
    if (cs().seen && !cs().seen->insert(h).second) return;
    if (sh->n_hashes < MAX_HASHES) sh->hashes[sh->n_hashes++] = h;
}

// ---------------------------------------------------------------- choice source

class Src {
  public:
    enum class Mode { random, replay, bytes };

    explicit Src(uint64_t seed) : m_mode(Mode::random), m_rng(seed) {}
    explicit Src(std::vector<uint64_t> rec) : m_mode(Mode::replay), m_rng(0), m_rec(std::move(rec)) {}
    Src(const uint8_t* data, size_t size) : m_mode(Mode::bytes), m_rng(0), m_data(data), m_size(size) {}

    // uniform in [0, n)
    uint64_t draw(uint64_t n) {
        if (n <= 1) n = 1;
        uint64_t v = 0;
        switch (m_mode) {
            case Mode::random:
                v = m_rng.below(n);
                break;
            case Mode::replay:
                v = m_pos < m_rec.size() ? m_rec[m_pos] : 0;
                if (v >= n) v = n - 1;
                break;
            case Mode::bytes: {
                uint64_t raw = 0;
                uint64_t span = n - 1;
                int k = 0;
                while (span > 0 && k < 8) {
                    uint64_t b = m_off < m_size ? m_data[m_off++] : 0;
                    raw |= b << (8 * k);
                    span >>= 8;
                    ++k;
                }
                v = raw % n;
                break;
            }
        }
        ++m_pos;
        Shared* sh = shared();
        if (sh && cs().in_child) {
            uint64_t i = sh->n_choices;
            if (i < MAX_CHOICES) {
                sh->choices[i] = v;
                sh->n_choices = i + 1;
            }
        }
        m_used.push_back(v);
        return v;
    }

    int64_t range(int64_t lo, int64_t hi) {  // inclusive
        if (hi <= lo) return lo;
        uint64_t span = static_cast<uint64_t>(hi) - static_cast<uint64_t>(lo);
        if (span == UINT64_MAX) return static_cast<int64_t>(draw64());
        return static_cast<int64_t>(static_cast<uint64_t>(lo) + draw(span + 1));
    }
    uint64_t draw64() {  // full 64 bit
        uint64_t hi = draw(1ULL << 32);
        uint64_t lo = draw(1ULL << 32);
        return (hi << 32) | lo;
    }
    bool boolean() { return draw(2) == 1; }
    // true with probability num/den; shrinks towards false
    bool chance(uint64_t num, uint64_t den) { return draw(den) >= den - num; }
    size_t index(size_t n) { return static_cast<size_t>(draw(n)); }
    template <typename T>
    const T& pick(const std::vector<T>& v) { return v[index(v.size())]; }
    template <typename T, size_t N>
    const T& pick(const T (&v)[N]) { return v[index(N)]; }
    // weighted choice, returns index; shrinks towards index 0
    size_t weighted(std::initializer_list<unsigned> w) {
        uint64_t total = 0;
        for (auto x : w) total += x;
        uint64_t r = draw(total);
        size_t i = 0;
        for (auto x : w) {
            if (r < x) return i;
            r -= x;
            ++i;
        }
        return 0;
    }
    // "size" parameter: mostly small, sometimes up to max
    size_t size(size_t max) {
        if (max == 0) return 0;
        switch (weighted({6, 3, 1})) {
            case 0: return static_cast<size_t>(draw(std::min<uint64_t>(max, 4) + 1));
            case 1: return static_cast<size_t>(draw(std::min<uint64_t>(max, 20) + 1));
            default: return static_cast<size_t>(draw(static_cast<uint64_t>(max) + 1));
        }
    }

    bool exhausted() const {
        return (m_mode == Mode::replay && m_pos >= m_rec.size()) || (m_mode == Mode::bytes && m_off >= m_size);
    }
    const std::vector<uint64_t>& used() const { return m_used; }

  private:
    Mode m_mode;
    Rng m_rng;
    std::vector<uint64_t> m_rec;
    const uint8_t* m_data = nullptr;
    size_t m_size = 0;
    size_t m_off = 0;
    size_t m_pos = 0;
    std::vector<uint64_t> m_used;
};

using Property = std::function<void(Src&)>;

// hand-written regression scenarios (witnesses of fixed findings etc.), addressed by name from replay files
//   vpbuiltin 1 <PROP> <unit>
//   name <scenario>
inline std::map<std::string, std::function<void()>>& builtins() {
    static std::map<std::string, std::function<void()>> m;
    return m;
}
struct BuiltinReg {
    BuiltinReg(const char* name, std::function<void()> fn) { builtins()[name] = std::move(fn); }
};
#define VP_BUILTIN(ident) \
    static void vp_builtin_##ident(); \
    static ::vp::BuiltinReg vp_builtin_reg_##ident{#ident, vp_builtin_##ident}; \
    static void vp_builtin_##ident()

// ---------------------------------------------------------------- json helpers

inline std::string json_escape(const std::string& s) {
    std::string o;
    o.reserve(s.size() + 8);
    for (unsigned char c : s) {
        switch (c) {
            case '"': o += "\\\""; break;
            case '\\': o += "\\\\"; break;
            case '\n': o += "\\n"; break;
            case '\r': o += "\\r"; break;
            case '\t': o += "\\t"; break;
            default:
                if (c < 0x20 || c >= 0x7f) {
                    char b[8];
                    std::snprintf(b, sizeof(b), "\\u%04x", c);
                    o += b;
                } else {
                    o += static_cast<char>(c);
                }
        }
    }
    return o;
}

struct FailureRec {
    std::string sig;
    std::string msg;
    std::string replay;
};

struct Result {
    uint64_t evaluations = 0;
    uint64_t distinct_nontrivial = 0;  // only used by enumerators that count themselves
    bool has_own_distinct = false;
    bool exhaustive = false;
    bool inconclusive = false;
    std::string rule;
    std::string hashes_file;
    std::map<std::string, uint64_t> classes;
    std::vector<std::string> samples;
    std::vector<FailureRec> failures;
    std::vector<std::string> notes;
    double wall_s = 0;
};

inline void write_result_json(const Result& r, const std::string& path) {
    std::ostringstream o;
    o << "{\"unit\":\"" << json_escape(opts().unit) << "\",\"prop\":\"" << opts().prop << "\",\"tier\":\"" << opts().tier
      << "\",\"seed\":" << opts().seed << ",\"shard\":" << opts().shard << ",\"evaluations\":" << r.evaluations;
    if (r.has_own_distinct) o << ",\"distinct_nontrivial\":" << r.distinct_nontrivial;
    o << ",\"exhaustive\":" << (r.exhaustive ? "true" : "false");
    o << ",\"inconclusive\":" << (r.inconclusive ? "true" : "false");
    o << ",\"rule\":\"" << json_escape(r.rule) << "\"";
    o << ",\"hashes_file\":\"" << json_escape(r.hashes_file) << "\"";
    o << ",\"wall_s\":" << r.wall_s;
    o << ",\"classes\":{";
    bool first = true;
    for (const auto& kv : r.classes) {
        if (!first) o << ",";
        first = false;
        o << "\"" << json_escape(kv.first) << "\":" << kv.second;
    }
    o << "},\"samples\":[";
    first = true;
    for (const auto& s : r.samples) {
        if (!first) o << ",";
        first = false;
        o << "\"" << json_escape(s) << "\"";
    }
    o << "],\"notes\":[";
    first = true;
    for (const auto& s : r.notes) {
        if (!first) o << ",";
        first = false;
        o << "\"" << json_escape(s) << "\"";
    }
    o << "],\"failures\":[";
    first = true;
    for (const auto& f : r.failures) {
        if (!first) o << ",";
        first = false;
        o << "{\"sig\":\"" << json_escape(f.sig) << "\",\"msg\":\"" << json_escape(f.msg) << "\",\"replay\":\""
          << json_escape(f.replay) << "\"}";
    }
    o << "]}\n";
    if (path.empty()) {
        std::fputs(o.str().c_str(), stdout);
    } else {
        std::ofstream f(path, std::ios::trunc);
        f << o.str();
    }
}

// ---------------------------------------------------------------- argument parsing

inline void parse_args(int argc, char** argv) {
    Options& o = opts();
    if (const char* e = std::getenv("VERIF_SEED")) o.seed = std::strtoull(e, nullptr, 10);
    for (int i = 1; i < argc; ++i) {
        std::string a = argv[i];
        auto val = [&]() -> std::string {
            if (i + 1 >= argc) {
                std::fprintf(stderr, "missing value for %s\n", a.c_str());
                std::exit(2);
            }
            return argv[++i];
        };
        if (a == "--tier") o.tier = val();
        else if (a == "--seed") o.seed = std::strtoull(val().c_str(), nullptr, 10);
        else if (a == "--shard") {
            std::string v = val();
            auto p = v.find('/');
            o.shard = std::strtoull(v.c_str(), nullptr, 10);
            if (p != std::string::npos) o.nshards = std::strtoull(v.c_str() + p + 1, nullptr, 10);
        } else if (a == "--cases") o.cases = std::strtoull(val().c_str(), nullptr, 10);
        else if (a == "--case-timeout") o.case_timeout = std::atof(val().c_str());
        else if (a == "--budget") o.budget_s = std::atof(val().c_str());
        else if (a == "--max-rss-mb") o.max_rss_mb = std::strtoull(val().c_str(), nullptr, 10);
        else if (a == "--out") o.out = val();
        else if (a == "--replay") o.replay = val();
        else if (a == "--viol-dir") o.viol_dir = val();
        else if (a == "--unit") o.unit = val();
        else if (a == "--prop") o.prop = val();
        else if (a == "--open") {
            std::stringstream ss(val());
            std::string k;
            while (std::getline(ss, k, ',')) {
                if (!k.empty()) o.open_findings.insert(k);
            }
        } else if (a.rfind("--", 0) == 0) {
            o.extra[a.substr(2)] = val();
        }
    }
}

inline std::string extra(const std::string& k, const std::string& def = "") {
    auto it = opts().extra.find(k);
    return it == opts().extra.end() ? def : it->second;
}

// ---------------------------------------------------------------- child execution

inline double now_s() {
    using namespace std::chrono;
    return duration<double>(steady_clock::now().time_since_epoch()).count();
}

inline uint64_t case_seed(uint64_t idx) {
    return mix64(mix64(opts().seed * 0x100000001b3ULL + opts().shard) ^ (idx * 0x9e3779b97f4a7c15ULL + 12345));
}

// Runs one case in the current process. Returns 0 pass / 1 failure recorded in shared.
inline int run_one_in_process(const Property& prop, Src& src) {
    Shared* sh = shared();
    try {
        prop(src);
    } catch (const Fail& f) {
        copy_trunc(sh->fail_sig, sizeof(sh->fail_sig), f.sig);
        copy_trunc(sh->fail_msg, sizeof(sh->fail_msg), f.msg);
        sh->status = 1;
        return 1;
    } catch (const std::exception& e) {
        copy_trunc(sh->fail_sig, sizeof(sh->fail_sig), "unexpected-exception");
        copy_trunc(sh->fail_msg, sizeof(sh->fail_msg), std::string{"escaped the property: "} + e.what());
        sh->status = 1;
        return 1;
    } catch (...) {
        copy_trunc(sh->fail_sig, sizeof(sh->fail_sig), "unexpected-exception");
        copy_trunc(sh->fail_msg, sizeof(sh->fail_msg), "non-std exception escaped the property");
        sh->status = 1;
        return 1;
    }
    return 0;
}

struct ChildOutcome {
    enum Kind { ok, failed, crashed, hung, blown, killed } kind = ok;  // blown: resident memory beyond --max-rss-mb; killed: SIGKILL from outside (kernel OOM killer, operator) -- resource noise, never a verdict
    std::string sig;
    std::string msg;
    int signal_no = 0;
    bool deadlock = false;  // hung, and all threads asleep without consuming CPU: not slowness
    std::string where;      // hung with all threads asleep: their backtraces (if gdb could attach)
};

// CPU ticks consumed by all threads of a process and the number of threads that are runnable or in uninterruptible sleep
struct ProcSample {
    unsigned long long ticks = 0;
    int busy = 0;
    int threads = 0;
    int in_futex = 0;
};
inline ProcSample sample_proc(pid_t pid) {
    ProcSample ps;
    std::string dir = "/proc/" + std::to_string(static_cast<int>(pid)) + "/task";
    DIR* d = opendir(dir.c_str());
    if (!d) return ps;
    while (dirent* e = readdir(d)) {
        if (e->d_name[0] == '.') continue;
        std::ifstream f(dir + "/" + e->d_name + "/stat");
        std::string line;
        std::getline(f, line);
        auto rp = line.rfind(')');
        if (rp == std::string::npos) continue;
        std::istringstream is(line.substr(rp + 1));
        std::string state;
        is >> state;
        unsigned long long v = 0, utime = 0, stime = 0;
        for (int field = 4; field <= 15 && (is >> v); ++field) {  // fields 4..13 skipped, 14 utime, 15 stime
            if (field == 14) utime = v;
            if (field == 15) stime = v;
        }
        ps.ticks += utime + stime;
        ++ps.threads;
        if (state == "R" || state == "D") ++ps.busy;
        // which system call the thread sleeps in (x86-64: 202 = futex, i.e. a mutex, condition variable, future or join)
        std::ifstream sc(dir + "/" + e->d_name + "/syscall");
        std::string nr;
        sc >> nr;
        if (nr == "202") ++ps.in_futex;
    }
    closedir(d);
    return ps;
}

inline void child_redirect_stderr(const std::string& path) {
    if (path.empty()) return;
    int fd = ::open(path.c_str(), O_WRONLY | O_CREAT | O_TRUNC, 0644);
    if (fd >= 0) {
        ::dup2(fd, 2);
        ::close(fd);
    }
}

// fork a child that executes fn(); watch it. progress is detected via sh->heartbeat/case_index.
inline ChildOutcome run_child(const std::function<int()>& fn, double timeout_s, const std::string& stderr_path) {
    Shared* sh = shared();
    sh->status = 0;
    sh->fail_sig[0] = 0;
    sh->fail_msg[0] = 0;
    std::fflush(stdout);
    std::fflush(stderr);
    pid_t pid = fork();
    if (pid < 0) {
        perror("fork");
        std::exit(3);
    }
    if (pid == 0) {
        cs().in_child = true;
        child_redirect_stderr(stderr_path);
        int rc = fn();
        std::fflush(stdout);
        std::fflush(stderr);
        _exit(rc);
    }
    ChildOutcome out;
    uint64_t last_hb = sh->heartbeat;
    double last_change = now_s();
    int status = 0;
    unsigned polls = 0;
    for (;;) {
        pid_t w = waitpid(pid, &status, WNOHANG);
        if (w == pid) break;
        if (w < 0 && errno != EINTR) {
            perror("waitpid");
            std::exit(3);
        }
        if (++polls % 64 == 0 && opts().max_rss_mb > 0) {
            // runaway allocation guard: resident set size of the child (the shared region is not counted as it is file-less shared memory
            // touched only where used)
            char path[64];
            std::snprintf(path, sizeof(path), "/proc/%d/statm", static_cast<int>(pid));
            if (FILE* f = std::fopen(path, "r")) {
                unsigned long long size = 0, resident = 0;
                if (std::fscanf(f, "%llu %llu", &size, &resident) == 2 && resident * 4096ULL / (1024 * 1024) > opts().max_rss_mb) {
                    std::fclose(f);
                    kill(pid, SIGKILL);
                    waitpid(pid, &status, 0);
                    out.kind = ChildOutcome::blown;
                    out.sig = "memory-blowup";
                    out.msg = "one case made the process grow beyond " + std::to_string(opts().max_rss_mb) + " MB resident memory";
                    return out;
                }
                std::fclose(f);
            }
        }
        uint64_t hb = sh->heartbeat;
        if (hb != last_hb) {
            last_hb = hb;
            last_change = now_s();
        } else if (now_s() - last_change > timeout_s) {
            // Slow or stuck? Look at the child for three more seconds: if no thread is runnable or in I/O and the process consumed
            // no CPU at all, every thread is waiting for something that cannot happen any more -- a deadlock, not load.
            ProcSample a = sample_proc(pid);
            int busy = a.busy;
            ProcSample b = a;
            for (int k = 0; k < 6; ++k) {
                usleep(500000);
                b = sample_proc(pid);
                busy += b.busy;
            }
            // ... and every thread waits for another thread (futex: mutex, condition variable, future, join). A process that sleeps in
            // anything else (a read, a timer, the memory manager, a sanitizer's own business) waits for the outside world: that is
            // treated as slowness, which needs reproduction (below).
            out.deadlock = a.threads > 0 && b.threads > 0 && busy == 0 && b.ticks <= a.ticks + 1 && b.in_futex == b.threads && a.in_futex == a.threads;
            std::string where;
            if (busy == 0) {
                // what every thread is waiting in (for the report; gdb is optional)
                std::string cmd = "timeout 30 gdb -p " + std::to_string(static_cast<int>(pid)) + " -batch -ex 'thread apply all bt 14' 2>/dev/null | grep -E '^(Thread|#)' | cut -c1-160 | head -80";
                if (FILE* g = popen(cmd.c_str(), "r")) {
                    char buf[512];
                    while (std::fgets(buf, sizeof(buf), g)) where += buf;
                    pclose(g);
                }
                // gdb stops the process while it looks: make sure that what it saw was still the sleeping process
                ProcSample c = sample_proc(pid);
                if (c.ticks > b.ticks + 1) out.deadlock = false;
            }
            kill(pid, SIGKILL);
            waitpid(pid, &status, 0);
            out.kind = ChildOutcome::hung;
            out.sig = out.deadlock ? "deadlock" : "hang";
            out.msg = "no progress for " + std::to_string(timeout_s) + " s" + (out.deadlock ? "; all " + std::to_string(b.threads) + " threads asleep and no CPU time consumed during 3 more seconds (deadlock)" : "");
            out.where = where;
            return out;
        }
        usleep(2000);
    }
    if (WIFEXITED(status) && WEXITSTATUS(status) == 0) {
        out.kind = ChildOutcome::ok;
    } else if (WIFEXITED(status) && WEXITSTATUS(status) == 1 && sh->status == 1) {
        out.kind = ChildOutcome::failed;
        out.sig = sh->fail_sig;
        out.msg = sh->fail_msg;
    } else if (WIFSIGNALED(status) && WTERMSIG(status) == SIGKILL) {
        // nothing in the code under test raises SIGKILL (the engine's own kills return above): the kernel's out-of-memory killer, a
        // memory cgroup limit or an operator ended the child. That says nothing about the property.
        out.kind = ChildOutcome::killed;
        out.signal_no = SIGKILL;
        out.sig = "killed-from-outside";
        out.msg = "killed by signal 9 from outside the test (out-of-memory killer?)";
    } else {
        out.kind = ChildOutcome::crashed;
        out.signal_no = WIFSIGNALED(status) ? WTERMSIG(status) : 0;
        out.sig = "crash";
        out.msg = WIFSIGNALED(status) ? ("killed by signal " + std::to_string(WTERMSIG(status)))
                                      : ("exit code " + std::to_string(WEXITSTATUS(status)));
    }
    return out;
}

inline std::string read_tail(const std::string& path, size_t max_bytes) {
    std::ifstream f(path, std::ios::binary);
    if (!f) return "";
    std::string s((std::istreambuf_iterator<char>(f)), std::istreambuf_iterator<char>());
    if (s.size() > max_bytes) s = s.substr(0, max_bytes / 2) + "\n...\n" + s.substr(s.size() - max_bytes / 2);
    return s;
}

// run a single explicit choice sequence in a child
inline ChildOutcome run_sequence(const Property& prop, const std::vector<uint64_t>& seq, bool wantdesc, double timeout_s,
                                 const std::string& stderr_path) {
    Shared* sh = shared();
    return run_child(
        [&]() -> int {
            sh->n_choices = 0;
            sh->heartbeat++;
            cs().want_desc = wantdesc;
            cs().stats = false;
            Src src{seq};
            return run_one_in_process(prop, src);
        },
        timeout_s, stderr_path);
}

inline bool same_failure(const ChildOutcome& a, const ChildOutcome& b) {
    if (b.kind == ChildOutcome::ok) return false;
    if (a.kind == ChildOutcome::killed || b.kind == ChildOutcome::killed) return false;
    if (a.kind == ChildOutcome::crashed || a.kind == ChildOutcome::hung || a.kind == ChildOutcome::blown) return a.kind == b.kind;
    return a.kind == b.kind && a.sig == b.sig;
}

inline std::vector<uint64_t> shrink(const Property& prop, std::vector<uint64_t> seq, const ChildOutcome& orig,
                                    double timeout_s, const std::string& stderr_path, int max_attempts = 600,
                                    double max_seconds = 40.0) {
    int attempts = 0;
    double t0 = now_s();
    if (orig.kind == ChildOutcome::hung || orig.kind == ChildOutcome::blown) {
        max_attempts = 12;  // each attempt costs a full timeout / a few GB
    }
    auto still_fails = [&](const std::vector<uint64_t>& cand) -> bool {
        if (attempts >= max_attempts || now_s() - t0 > max_seconds) return false;
        ++attempts;
        ChildOutcome o = run_sequence(prop, cand, false, timeout_s, stderr_path);
        return same_failure(orig, o);
    };
    // strip trailing zeros (equivalent)
    while (!seq.empty() && seq.back() == 0) seq.pop_back();
    bool progress = true;
    while (progress && attempts < max_attempts && now_s() - t0 <= max_seconds) {
        progress = false;
        // 1. truncate (binary search for shortest failing prefix)
        {
            size_t lo = 0, hi = seq.size();
            while (lo < hi) {
                size_t mid = (lo + hi) / 2;
                std::vector<uint64_t> cand(seq.begin(), seq.begin() + mid);
                if (still_fails(cand)) {
                    hi = mid;
                } else {
                    lo = mid + 1;
                }
            }
            if (hi < seq.size()) {
                std::vector<uint64_t> cand(seq.begin(), seq.begin() + hi);
                // binary search assumes monotonicity; verify
                if (still_fails(cand)) {
                    seq = cand;
                    progress = true;
                }
            }
        }
        auto exhausted = [&]() { return attempts >= max_attempts || now_s() - t0 > max_seconds; };
        // 2. delete spans
        for (size_t span : {4096u, 512u, 64u, 16u, 8u, 4u, 2u, 1u}) {
            if (span > seq.size()) continue;
            for (size_t i = 0; i + span <= seq.size() && !exhausted();) {
                std::vector<uint64_t> cand(seq.begin(), seq.begin() + i);
                cand.insert(cand.end(), seq.begin() + i + span, seq.end());
                if (still_fails(cand)) {
                    seq = cand;
                    progress = true;
                } else {
                    i += span;
                }
                if (attempts >= max_attempts) break;
            }
        }
        // 3. minimise values
        for (size_t i = 0; i < seq.size() && !exhausted(); ++i) {
            if (seq[i] == 0) continue;
            std::vector<uint64_t> cand = seq;
            cand[i] = 0;
            if (still_fails(cand)) {
                seq = cand;
                progress = true;
                continue;
            }
            uint64_t lo = 0, hi = seq[i];  // lo passes (or unknown), hi fails
            int steps = 0;
            while (hi - lo > 1 && steps < 8) {
                uint64_t mid = lo + (hi - lo) / 2;
                cand[i] = mid;
                if (still_fails(cand)) {
                    hi = mid;
                } else {
                    lo = mid;
                }
                ++steps;
            }
            if (hi < seq[i]) {
                seq[i] = hi;
                progress = true;
            }
        }
        while (!seq.empty() && seq.back() == 0) seq.pop_back();
    }
    return seq;
}

inline void mkdirs(const std::string& path) {
    std::string cur;
    for (size_t i = 0; i < path.size(); ++i) {
        cur += path[i];
        if (path[i] == '/' || i + 1 == path.size()) ::mkdir(cur.c_str(), 0755);
    }
}

inline std::string write_replay(const std::string& dir, const std::string& sig, const std::string& msg,
                                const std::vector<uint64_t>& seq, const std::string& desc, const std::string& stderr_tail) {
    mkdirs(dir);
    uint64_t h = hash_bytes(seq.data(), seq.size() * sizeof(uint64_t), hash_str(sig));
    char name[64];
    std::snprintf(name, sizeof(name), "%016" PRIx64 ".case", h);
    std::string safe_sig;
    for (char c : sig) safe_sig += (std::isalnum(static_cast<unsigned char>(c)) ? c : '_');
    std::string path = dir + "/" + opts().unit + "-" + safe_sig.substr(0, 40) + "-" + name;
    std::ofstream f(path, std::ios::trunc);
    f << "vpbt 1 " << opts().prop << " " << opts().unit << "\n";
    f << "sig " << sig << "\n";
    f << "choices " << seq.size() << "\n";
    for (size_t i = 0; i < seq.size(); ++i) f << seq[i] << ((i + 1) % 16 == 0 ? "\n" : " ");
    f << "\n";
    auto comment = [&](const std::string& label, const std::string& text) {
        std::stringstream ss(text);
        std::string line;
        while (std::getline(ss, line)) f << "# " << label << ": " << line << "\n";
    };
    comment("msg", msg);
    comment("desc", desc);
    comment("stderr", stderr_tail);
    return path;
}

inline bool read_replay(const std::string& path, std::string& sig, std::vector<uint64_t>& seq) {
    std::ifstream f(path);
    if (!f) return false;
    std::string line;
    bool in_choices = false;
    size_t n = 0;
    while (std::getline(f, line)) {
        if (line.empty() || line[0] == '#') continue;
        if (line.rfind("vpbt", 0) == 0) continue;
        if (line.rfind("sig ", 0) == 0) {
            sig = line.substr(4);
            continue;
        }
        if (line.rfind("choices ", 0) == 0) {
            n = std::strtoull(line.c_str() + 8, nullptr, 10);
            in_choices = true;
            continue;
        }
        if (in_choices) {
            std::stringstream ss(line);
            uint64_t v;
            while (ss >> v) seq.push_back(v);
        }
    }
    (void)n;
    return true;
}

// ---------------------------------------------------------------- main driver for a property

inline int replay_main(const Property& prop) {
    init_shared();
    {
        std::ifstream f(opts().replay);
        std::string first, line, name;
        std::getline(f, first);
        if (first.rfind("vpbuiltin", 0) == 0) {
            while (std::getline(f, line)) {
                if (line.rfind("name ", 0) == 0) name = line.substr(5);
            }
            auto it = builtins().find(name);
            if (it == builtins().end()) {
                std::fprintf(stderr, "unknown builtin scenario '%s'\n", name.c_str());
                return 2;
            }
            std::string errpath = opts().out.empty() ? "" : opts().out + ".stderr";
            ChildOutcome o = run_child(
                [&]() -> int {
                    cs().stats = false;
                    cs().want_desc = true;
                    Src dummy{std::vector<uint64_t>{}};
                    return run_one_in_process([&](Src&) { it->second(); }, dummy);
                },
                opts().case_timeout * 1.5, errpath);
            if (o.kind == ChildOutcome::ok) {
                std::printf("REPLAY pass file=%s\n", opts().replay.c_str());
                return 0;
            }
            if (o.kind == ChildOutcome::killed) {
                std::printf("REPLAY inconclusive file=%s %s\n", opts().replay.c_str(), o.msg.c_str());
                return 3;
            }
            std::printf("REPLAY fail file=%s kind=%d sig=%s msg=%s\n", opts().replay.c_str(), static_cast<int>(o.kind), o.sig.c_str(), o.msg.c_str());
            return 1;
        }
    }
    std::string sig;
    std::vector<uint64_t> seq;
    if (!read_replay(opts().replay, sig, seq)) {
        std::fprintf(stderr, "cannot read replay file %s\n", opts().replay.c_str());
        return 2;
    }
    std::string errpath = opts().out.empty() ? "" : opts().out + ".stderr";
    ChildOutcome o = run_sequence(prop, seq, true, opts().case_timeout * 1.5, errpath);
    if (o.kind == ChildOutcome::ok) {
        std::printf("REPLAY pass file=%s\n", opts().replay.c_str());
        return 0;
    }
    if (o.kind == ChildOutcome::killed) {
        std::printf("REPLAY inconclusive file=%s %s\n", opts().replay.c_str(), o.msg.c_str());
        return 3;
    }
    std::printf("REPLAY fail file=%s kind=%d sig=%s msg=%s\n", opts().replay.c_str(), static_cast<int>(o.kind),
                o.sig.c_str(), o.msg.c_str());
    std::printf("DESC %s\n", shared()->desc);
    return 1;
}

inline int run_property(const Property& prop, const std::string& rule) {
    if (!opts().replay.empty()) return replay_main(prop);
    init_shared();
    Shared* sh = shared();
    std::memset(sh, 0, offsetof(Shared, hashes));
    Result res;
    res.rule = rule;
    double t0 = now_s();
    const uint64_t total = opts().cases;
    uint64_t next = 0;
    std::string errpath = opts().out.empty() ? "/dev/null" : opts().out + ".stderr";
    std::set<std::string> seen_sigs;
    uint64_t sample_every = std::max<uint64_t>(1, total / (MAX_SAMPLES - 2));
    while (next < total && static_cast<int>(res.failures.size()) < opts().max_failures) {
        uint64_t start = next;
        ChildOutcome o = run_child(
            [&]() -> int {
                std::set<uint64_t> seen;
                cs().seen = &seen;
                for (uint64_t idx = start; idx < total; ++idx) {
                    sh->case_index = idx;
                    sh->n_choices = 0;
                    sh->heartbeat++;
                    bool wd = (idx < 2) || (idx % sample_every == 0);
                    cs().want_desc = wd;
                    sh->desc[0] = 0;  // (never report an earlier case's description with this case)
                    Src src{case_seed(idx)};
                    if (run_one_in_process(prop, src) != 0) return 1;
                    sh->cases_done++;
                    if (wd && sh->desc[0] && sh->n_samples < MAX_SAMPLES) {
                        copy_trunc(sh->samples[sh->n_samples], SAMPLE_LEN, std::string{const_cast<const char*>(sh->desc)});
                        sh->n_samples++;
                    }
                    if (opts().budget_s > 0 && now_s() - t0 > opts().budget_s) {
                        sh->status = 3;  // budget hit
                        return 0;
                    }
                }
                sh->status = 2;
                return 0;
            },
            opts().case_timeout, errpath);
        if (o.kind == ChildOutcome::ok) {
            if (sh->status == 3) {
                res.inconclusive = true;
                res.notes.push_back("wall budget reached after " + std::to_string(sh->cases_done) + " cases");
            }
            break;
        }
        uint64_t idx = sh->case_index;
        if (o.kind == ChildOutcome::killed) {
            // SIGKILL is never raised by the code under test: it is the kernel's OOM killer (or an operator). Resource noise, not a verdict.
            res.notes.push_back("case " + std::to_string(idx) + ": child was killed by SIGKILL (out-of-memory killer?); case skipped");
            count("child_sigkilled");
            res.inconclusive = true;
            next = idx + 1;
            continue;
        }
        const uint64_t nch = sh->n_choices;
        std::vector<uint64_t> seq(sh->choices, sh->choices + std::min<uint64_t>(nch, MAX_CHOICES));
        std::string err_tail = read_tail(errpath, 6000);
        next = idx + 1;
        if (o.kind == ChildOutcome::hung && o.deadlock) {
            // a deadlock that happened is a fact about the code, whether or not the schedule can be reproduced: report it
            std::string path = write_replay(opts().viol_dir + "/" + opts().prop, "deadlock", o.msg, seq, const_cast<const char*>(sh->desc), read_tail(errpath, 3000) + "\n" + o.where);
            if (!o.where.empty()) std::fprintf(stderr, "deadlock at case %llu, threads were waiting in:\n%s\n", static_cast<unsigned long long>(idx), o.where.c_str());
            res.failures.push_back(FailureRec{"deadlock", o.msg + " | " + std::string{const_cast<const char*>(sh->desc)}.substr(0, 600), path});
            res.notes.push_back("shard stopped after a deadlock at case " + std::to_string(idx));
            res.inconclusive = true;
            break;
        }
        if (o.kind == ChildOutcome::hung) {
            // rule 5: a time budget alone never produces a violation. Pre-filter here with a 4x budget; what still hangs is only a
            // *candidate*: the driver re-runs it alone (no sibling shards loading the machine) with a long budget, three times.
            ChildOutcome again = run_sequence(prop, seq, true, opts().case_timeout * 2, errpath);
            if (again.kind != ChildOutcome::hung) {
                count("slow_case_not_reproduced");
                if (again.kind == ChildOutcome::ok) continue;
                if (again.kind == ChildOutcome::killed) {
                    res.notes.push_back("case " + std::to_string(idx) + ": re-run of a slow case was killed by SIGKILL from outside; case skipped");
                    count("child_sigkilled");
                    res.inconclusive = true;
                    continue;
                }
                o = again;  // a real failure showed instead
            } else {
                if (opts().hang_is_violation) {
                    std::string path = write_replay(opts().viol_dir + "/" + opts().prop, "hang-candidate", o.msg, seq, const_cast<const char*>(sh->desc), read_tail(errpath, 3000) + "\n" + o.where);
                    res.failures.push_back(FailureRec{"hang-candidate", o.msg, path});
                    // a tree on which cases hang makes every further case cost a full timeout: stop this shard here, the driver
                    // examines the candidate in isolation
                    res.notes.push_back("shard stopped after a hang candidate at case " + std::to_string(idx));
                    res.inconclusive = true;
                    break;
                } else {
                    res.notes.push_back("case " + std::to_string(idx) + " hung twice; hangs are not part of this property");
                }
                continue;
            }
        }
        // re-establish the failure from the journal (the journal is the truth; seeds are not needed any more)
        ChildOutcome confirm = run_sequence(prop, seq, false, opts().case_timeout * (o.kind == ChildOutcome::hung ? 4 : 1), errpath);
        if (!same_failure(o, confirm)) {
            // not reproducible from the journal: report as flaky, keep the original sequence
            res.notes.push_back("case " + std::to_string(idx) + " failed (" + o.sig + ") but did not reproduce from journal");
            count("unreproduced_failure");
            // schedule-dependent properties handle their own replays; be conservative and try twice more
            bool rep = false;
            for (int k = 0; k < 2 && !rep; ++k) {
                confirm = run_sequence(prop, seq, false, opts().case_timeout, errpath);
                rep = same_failure(o, confirm);
            }
            if (!rep) {
                // still record it: a failure that happened once is a failure of the real code, but mark it
                o.msg += " [not reproduced in 3 replays]";
            }
        }
        std::vector<uint64_t> small = shrink(prop, seq, o, opts().case_timeout * (o.kind == ChildOutcome::hung ? 4 : 1), errpath);
        ChildOutcome fin = run_sequence(prop, small, true, opts().case_timeout * (o.kind == ChildOutcome::hung ? 4 : 1), errpath);
        std::string desc = const_cast<const char*>(sh->desc);
        std::string tail = read_tail(errpath, 6000);
        if (!same_failure(o, fin)) {
            small = seq;
            fin = o;
            tail = err_tail;
        }
        std::string sig = fin.sig.empty() ? o.sig : fin.sig;
        std::string msg = fin.msg.empty() ? o.msg : fin.msg;
        if (fin.kind == ChildOutcome::crashed) {
            // refine the signature with the sanitizer summary if there is one
            auto p = tail.find("SUMMARY: ");
            if (p != std::string::npos) {
                auto e = tail.find('\n', p);
                msg += " | " + tail.substr(p, e == std::string::npos ? std::string::npos : e - p);
            } else {
                auto q = tail.find("Assertion");
                if (q != std::string::npos) {
                    auto b = tail.rfind('\n', q);
                    auto e = tail.find('\n', q);
                    msg += " | " + tail.substr(b == std::string::npos ? 0 : b + 1, e == std::string::npos ? std::string::npos : e - b - 1);
                }
            }
        }
        std::string path = write_replay(opts().viol_dir + "/" + opts().prop, sig, msg, small, desc, tail);
        if (seen_sigs.insert(sig).second || true) {
            res.failures.push_back(FailureRec{sig, msg, path});
        }
    }
    res.evaluations = sh->cases_done;
    for (uint64_t i = 0; i < sh->n_counters; ++i) res.classes[sh->counter_names[i]] = sh->counter_values[i];
    for (uint64_t i = 0; i < sh->n_samples; ++i) res.samples.emplace_back(sh->samples[i]);
    if (!opts().out.empty()) {
        res.hashes_file = opts().out + ".hashes";
        std::ofstream hf(res.hashes_file, std::ios::binary | std::ios::trunc);
        hf.write(reinterpret_cast<const char*>(sh->hashes), static_cast<std::streamsize>(sh->n_hashes * sizeof(uint64_t)));
    }
    res.wall_s = now_s() - t0;
    write_result_json(res, opts().out);
    return res.failures.empty() ? 0 : 1;
}

}  // namespace vp

#define VP_MAIN(PROPFN, RULE)                         \
    int main(int argc, char** argv) {                 \
        ::vp::parse_args(argc, argv);                 \
        return ::vp::run_property((PROPFN), (RULE));  \
    }
