#!/bin/sh
# usage: tools_at_commit.sh <repo-commit> <command...>
# Runs a /verif command against /repo's include tree as of <repo-commit> (scratch copy under /tmp, removed afterwards).
set -e
c="$1"; shift
d=$(mktemp -d /tmp/verif-at-XXXXXX)
trap 'rm -rf "$d"' EXIT
git -C /repo archive "$c" include | tar -x -C "$d"
VERIF_REPO="$d" VERIF_BUILD="$d/build" VERIF_WORK="$d/work" "$@"
