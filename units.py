"""Table of harness units: which source, how to build, how each tier runs it, which properties it serves."""

LIBS_IO = "-lz -lbz2 -lexpat -llz4"
ASAN = "-O1 -fsanitize=address -fno-omit-frame-pointer -DOSMIUM_WITH_LZ4"

HOOK_COMMITS = []

# properties not (yet) claimed; every property gets a check as the build proceeds (DESIGN.md section 6)
NOT_APPLICABLE = {("C%02d" % i): "check not built yet in this round; see DESIGN.md section 6 for the plan" for i in range(1, 21)}

PROPS = {
    "C15": {"level": "exploration",
            "level_text": "Generated operation histories on IdSetDense (three chunk sizes, 32 and 64 bit), IdSetSmall, nwr_array, RelationsMapStash with all three index builders, and ItemStash (including long histories in which the automatic garbage collection must trigger) are compared call by call with std::set / std::map models; stash content is decoded by the independent layout walker.",
            "level_note": "Trusted: the std:: models and walker.hpp. Preconditions kept: IdSetSmall size/iteration compared after sort_unique only, merge_sorted on sorted sets, ids for 64-bit dense sets below 2^36 (memory), tiny chunk sizes use ids below 64 chunks.",
            "technique": "stateful property-based testing: generated operation histories vs std::set/std::map reference models"},
    "C04": {"level": "exploration",
            "level_text": "Generated operation histories on real Buffers (capacity 64..4096, all three growth modes) through every builder overload; after every step an independent layout walker (own bounds-checked decoder of the item layout) must decode exactly the model's committed and uncommitted item sequences; purge callbacks are compared with the model's (old,new) offsets. ASan and assertions are on, so a write through a stale pointer is fatal even if the content survives.",
            "level_note": "Trusted: walker.hpp (layout facts read from the headers), the model. Preconditions kept: one builder chain open at a time, set_user before sub-builders, purge only on entity items and without uncommitted data, non-growing buffers are only overflowed where the exception cannot be raised inside a sub-builder destructor.",
            "technique": "stateful property-based testing: generated operation histories vs reference model, invariant (independent layout decode) after every step, ASan"},
    "C01": {"level": "exploration",
            "level_text": "Generated object sequences and writer option vectors are written with the real Writer and read back with the real Reader; the result is compared item by item with the harness's projection of the model (what each format and option set carries). Sampling of an unbounded input space, weighted towards the format's internal boundaries.",
            "level_note": "Trusted: the harness's projection rules (DESIGN.md C01) and its model<->buffer conversion. Preconditions kept: deleted nodes carry no location, invisible objects only with history/change output, OPL node locations valid or undefined, ids != INT64_MIN, changesets only for XML/OPL, discussions only for XML.",
            "technique": "property-based testing: generated inputs x generated configurations, round-trip oracle against a model projection"},
    "C20": {"level": "exploration",
            "level_text": "Exhaustive over all item sequences of length <= 4 over the 13 item kinds and over all version histories of <= 4 objects with runs of 1..4, seeded longer sequences; every sequence is dispatched through nine apply()/apply_item() forms with up to six handlers and compared with an ordered call-log model.",
            "level_note": "Trusted: the harness's call-log model of the documented dispatch rules. Handler combinations are a fixed battery (C++ template instantiations), not generated. A lambda taking const memory::Item& is never invoked by the wrapper (hidden by its catch-all overload); this is recorded as an observation in DESIGN.md and not asserted.",
            "technique": "exhaustive enumeration of short sequences + model-based oracle (expected ordered call log)"},
    "C16": {"level": "exploration",
            "level_text": "Exhaustive over the boundary grid the property names: all 864^3 triples per comparator and timestamp regime (via full comparison matrices and bitset closure), all id pairs over 21 boundary ids, all streams of length <= 4 over 30 objects for the order checker; seeded subsets for sort/unique. Each compared with a lexicographic reference key using an __int128 id rank.",
            "level_note": "Trusted: the harness's reference key (type rank, id rank 0 < negatives by |id| < positives, version, timestamp). Objects with mixed set/unset timestamps are outside the property and not generated. INT64_MIN is excluded for objects (std::abs) but included for id_order.",
            "technique": "exhaustive enumeration over a boundary grid + reference-model oracle + strict-weak-order axioms",
            "assumptions": ["timestamps all set or all unset within one comparison universe"]},
    "C18": {"level": "exploration",
            "level_text": "Enumeration of every fixed-point latitude and longitude (exhaustive in thorough; seeded stride plus dense windows around all regime boundaries in quick) at every zoom 0..30, compared with a long double evaluation of the canonical tangent formula and with the exact neighbouring coordinate.",
            "level_note": "Trusted: glibc logl/tanl in 80-bit long double as reference, IEEE double semantics of the build (-O2, no fast-math). Tile properties are checked per axis (tile x depends only on longitude, tile y only on latitude) plus the public Tile API on a boundary grid.",
            "technique": "exhaustive/strided enumeration + reference formula oracle + neighbour (metamorphic) monotonicity oracle",
            "assumptions": ["tile x depends only on longitude and tile y only on latitude (true by construction of Tile)"]},
    "C13": {"level": "exploration",
            "level_text": "Enumeration of the finite numeric domains (all int32 coordinates, all uint32 timestamps: exhaustive in thorough, seeded stride in quick), exhaustive short strings over the grammar alphabet, every exponent, all date/time field combinations on a boundary grid, integer strings around every type boundary; each compared with an arbitrary-precision reference written in the harness.",
            "level_note": "Trusted: the harness's decimal-string/__int128 reference and its proleptic-Gregorian calendar code. Long coordinate strings are sampled from a grammar. Leniencies not asserted: explicit '+' for integers, characters after the final Z of a timestamp, INT64_MIN/INT64_MAX as ids (strtoll sentinels).",
            "technique": "exhaustive/strided enumeration + reference-model oracle (arbitrary-precision decimal arithmetic), round-trip oracle",
            "assumptions": ["UINT32_MAX is rejected for version/changeset/uid by design (pinned by test_types_from_string.cpp)",
                            "timestamp strings follow timegm-style carry for Feb 29 in common years and second 60"]},
    "C14": {"level": "exploration",
            "level_text": "Exhaustive enumeration of every Unicode scalar and all structural strings up to length 4 against inverse parsers (opl_parse_string, expat); strided (quick) or exhaustive (thorough) enumeration of all 2^32 byte strings of length 1-4 against a guard page. Exhaustive over the finite domains named, sampling for long strings.",
            "level_note": "Trusted: expat as XML reference parser, the harness's own UTF-8 encoder, mprotect guard page semantics. Long strings are sampled (seeded).",
            "technique": "exhaustive enumeration + round-trip oracle (escape then independent parse), guard-page memory oracle",
            "assumptions": ["expat is the reference XML parser", "XML half quantified over XML 1.0 Char scalars only",
                            "guard page (PROT_NONE) directly behind the terminating NUL detects any over-read of >= 1 byte"]},
}

UNITS = [
    {"name": "c15_sets", "props": ["C15"], "kind": "vp", "src": "harness/c15_sets.cpp", "flags": ASAN, "libs": "",
     "quick": {"cases": 800, "shards": 16, "case_timeout": 120, "min_evaluations": 8000},
     "thorough": {"cases": 12000, "shards": 16, "case_timeout": 300, "min_evaluations": 100000}},
    {"name": "c04_buffer", "props": ["C04"], "kind": "vp", "src": "harness/c04_buffer.cpp", "flags": ASAN, "libs": "",
     "quick": {"cases": 1200, "shards": 16, "case_timeout": 60, "min_evaluations": 10000},
     "thorough": {"cases": 50000, "shards": 16, "case_timeout": 120, "min_evaluations": 500000}},
    {"name": "c01_roundtrip", "props": ["C01"], "kind": "vp", "src": "harness/c01_roundtrip.cpp", "flags": ASAN, "libs": LIBS_IO,
     "quick": {"cases": 400, "shards": 16, "case_timeout": 60, "min_evaluations": 3000},
     "thorough": {"cases": 15000, "shards": 16, "case_timeout": 120, "min_evaluations": 100000}},
    {"name": "c20_enum", "props": ["C20"], "kind": "enum", "src": "harness/c20_enum.cpp", "flags": "-O1", "libs": LIBS_IO,
     "quick": {"min_evaluations": 40000}, "thorough": {"min_evaluations": 300000, "case_timeout": 900}},
    {"name": "c16_enum", "props": ["C16"], "kind": "enum", "src": "harness/c16_enum.cpp", "flags": "-O2",
     "quick": {"min_evaluations": 800000}, "thorough": {"min_evaluations": 1200000, "case_timeout": 900}},
    {"name": "c18_enum", "props": ["C18"], "kind": "enum", "src": "harness/c18_enum.cpp", "flags": "-O2",
     "quick": {"min_evaluations": 2000000}, "thorough": {"min_evaluations": 5000000000, "case_timeout": 900}},
    {"name": "c13_enum", "props": ["C13"], "kind": "enum", "src": "harness/c13_enum.cpp", "flags": "-O2",
     "quick": {"min_evaluations": 10000000}, "thorough": {"min_evaluations": 8000000000, "case_timeout": 900}},
    {"name": "c14_enum", "props": ["C14"], "kind": "enum", "src": "harness/c14_enum.cpp", "flags": "-O2", "libs": "-lexpat",
     "quick": {"min_evaluations": 1000000}, "thorough": {"min_evaluations": 4000000000, "case_timeout": 600}},
]
