#!/usr/bin/env python3
"""Writes seeded/<id>/meta.json from the agent's notes and verify.log, and seeded/README.md (summary table)."""
import glob, json, os, re
here = os.path.dirname(os.path.abspath(__file__))
rows = []
for d in sorted(glob.glob(os.path.join(here, "seeded", "*-*"))):
    sid = os.path.basename(d)
    prop = sid[:3]
    notes = {}
    try:
        notes = json.load(open(os.path.join(d, "agent_notes.json")))
    except Exception:
        pass
    log = open(os.path.join(d, "verify.log")).read() if os.path.exists(os.path.join(d, "verify.log")) else ""
    extra = {}
    if os.path.exists(os.path.join(d, "extra.json")):
        extra = json.load(open(os.path.join(d, "extra.json")))
    def grab(pat):
        m = re.search(pat, log)
        return m.group(1).strip() if m else None
    demo_clean = grab(r"demo on clean tree: (.*)")
    demo_changed = grab(r"demo with change: (.*)")
    suite = grab(r"existing suite with change: (.*)")
    rc = grab(r"check rc=(\d+)")
    viol = re.findall(r"^VIOLATION property=(\S+) replay=(\S+)", log, re.M)
    detail = grab(r"detail: (sig=\S+ .{0,300})")
    caught = rc == "1" and bool(viol)
    meta = {
        "id": sid,
        "property": prop,
        "breaks": notes.get("summary", extra.get("summary", "")),
        "why_property_breaks": notes.get("why_property_breaks", ""),
        "needs_to_manifest": notes.get("needs_to_manifest", ""),
        "origin": extra.get("origin", "written by a sub-agent that saw only the text of property %s and a scratch worktree of the library" % prop),
        "confirmed_here": {
            "demo_on_clean_tree": demo_clean,
            "demo_with_change": demo_changed,
            "existing_suite_with_change": suite,
            "how": "tools_try_seed.sh: fresh scratch worktree of /repo HEAD, demo compiled and run before and after `git apply patch.diff`, full suite (cmake, 159 tests) built and run with the change",
        },
        "check_run": {
            "command": "./check %s --tier quick  (against the patched scratch worktree via VERIF_REPO; APPLY_TO_REPO=1 applies the patch to /repo itself and reverts it afterwards)" % extra.get("checked_with", prop),
            "exit_code": int(rc) if rc is not None else None,
            "caught": caught,
            "first_violation": detail,
        },
    }
    others = {}
    for ol in sorted(glob.glob(os.path.join(d, "verify_C*.log"))):
        oprop = os.path.basename(ol)[7:10]
        otext = open(ol).read()
        m = re.search(r"check rc=(\d+)", otext)
        ov = re.findall(r"^VIOLATION property=(\S+) replay=(\S+)", otext, re.M)
        od = re.search(r"detail: (sig=\S+ .{0,300})", otext)
        others[oprop] = {"command": "./check %s --tier quick (same procedure)" % oprop, "exit_code": int(m.group(1)) if m else None, "caught": bool(m and m.group(1) == "1" and ov), "first_violation": od.group(1).strip() if od else None}
    if others:
        meta["other_checks_run"] = others
    caught_by_other = [k for k, v in others.items() if v["caught"]]
    meta.update({k: v for k, v in extra.items() if k not in ("summary", "origin")})
    json.dump(meta, open(os.path.join(d, "meta.json"), "w"), indent=1)
    rows.append((sid, prop, meta["breaks"][:150], "caught" if caught else ("caught by " + ",".join(caught_by_other) if caught_by_other else ("MISSED" if rc is not None else "not run")), (detail or "")[:110], extra.get("note", "")))
with open(os.path.join(here, "seeded", "README.md"), "w") as f:
    f.write("# Seeded changes\n\nEach directory: `patch.diff` (apply with `git -C /repo apply`), `demo.cpp` (fails with the change, passes without), `agent_notes.json` (what the sub-agent reported), `verify.log`, `meta.json`.\n\n")
    f.write("| id | property | change | quick check | first violation | note |\n|---|---|---|---|---|---|\n")
    for r in rows:
        f.write("| %s | %s | %s | %s | %s | %s |\n" % tuple(str(x).replace("|", "/").replace("\n", " ") for x in r))
print("wrote %d meta.json files" % len(rows))
