#!/usr/bin/env python3
"""Writes MANIFEST.json from units.py (PROPS/UNITS) so the two never drift apart."""
import json, os, subprocess
from units import PROPS, UNITS, NOT_APPLICABLE, HOOK_COMMITS
here = os.path.dirname(os.path.abspath(__file__))
checks = []
for pid in sorted(PROPS):
    p = PROPS[pid]
    units = [u for u in UNITS if pid in u["props"]]
    c = {
        "property_id": pid,
        "quick_cmd": "./check %s --tier quick" % pid,
        "evidence_file": "evidence/%s.json" % pid,
        "replay_cmd_template": "./check %s --replay {path}" % pid,
        "engine": ", ".join(sorted({u.get("engine", u.get("kind", "vp")) for u in units})),
        "level_claimed": {"category": p["level"], "text": p["level_text"], "design_ref": p.get("design_ref", "DESIGN.md section 3 (%s)" % pid)},
        "level_note": p["level_note"],
        "technique": p["technique"],
    }
    if any("thorough" in u for u in units):
        c["thorough_cmd"] = "./check %s --tier thorough" % pid
    checks.append(c)
m = {
    "version": 1,
    "setup_cmd": "./check --setup",
    "hooks": {
        "guard": "OSMIUM_VERIF",
        "enable": "harnesses that need hooks are compiled with -DOSMIUM_VERIF (see units.py); libosmium is header-only so each harness build is the build of /repo with hooks on",
        "baseline_off_cmd": "sh /verif/tools_run_suite.sh",
        "source_commits": HOOK_COMMITS,
        "add_only": True,
    },
    "engines": [
        {"name": "vp", "path": "engine/vp.hpp", "serves_properties": sorted({p for u in UNITS if u.get("kind", "vp") == "vp" for p in u["props"]}),
         "kind_free_text": "own choice-sequence property-based testing engine: forked children, write-ahead choice journal, generic shrinking, replay files"},
        {"name": "enum", "path": "engine/vp_enum.hpp", "serves_properties": sorted({p for u in UNITS if u.get("kind") == "enum" for p in u["props"]}),
         "kind_free_text": "exhaustive/strided enumeration of indexed finite domains on 16 threads with per-index replay"},
        {"name": "fuzz", "path": "harness/", "serves_properties": sorted({p for u in UNITS if u.get("kind") == "fuzz" for p in u["props"]}),
         "kind_free_text": "libFuzzer (clang -fsanitize=fuzzer,address + UBSan subset) targets with semantic oracles inside the target"},
    ],
    "checks": checks,
    "not_applicable": [{"property_id": k, "reason": v} for k, v in sorted(NOT_APPLICABLE.items()) if k not in PROPS],
    "notes": "All checks are driven by ./check (python3 stdlib). Known findings live in known_findings.txt; replays/ holds the committed regression cases.",
}
json.dump(m, open(os.path.join(here, "MANIFEST.json"), "w"), indent=1)
print("wrote MANIFEST.json with %d checks, %d not_applicable" % (len(checks), len(m["not_applicable"])))
