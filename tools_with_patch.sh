#!/bin/sh
# usage: tools_with_patch.sh <patch file> <command...>
# Runs a /verif command against a scratch copy of /repo's include tree (HEAD) with the patch applied (under /tmp, removed afterwards).
set -e
p=$(readlink -f "$1"); shift
d=$(mktemp -d /tmp/verif-patched-XXXXXX)
trap 'rm -rf "$d"' EXIT
git -C /repo archive HEAD include | tar -x -C "$d"
( cd "$d" && patch -p1 -s < "$p" )
VERIF_REPO="$d" VERIF_BUILD="$d/build" VERIF_WORK="$d/work" "$@"
