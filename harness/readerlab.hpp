// readerlab.hpp -- shared pieces of the Reader pipeline harnesses (C05, C07): per-case pipeline configuration, a wrapping
// decompressor with fault injection and read accounting (registered for file_compression::gzip; the gzip header is not part of
// these binaries), reference decoding.
#pragma once

#include "filegen.hpp"
#include "perturb.hpp"

#include <osmium/io/compression.hpp>
#include <osmium/io/o5m_input.hpp>
#include <osmium/io/opl_input.hpp>
#include <osmium/io/pbf_input.hpp>
#include <osmium/io/reader.hpp>
#include <osmium/io/xml_input.hpp>
#include <osmium/thread/pool.hpp>

namespace lab {

using model::Obj;
using vp::Src;

struct Pipeline {
    int pool_threads = 1;
    int work_queue = 8;
    int input_queue = 20;
    int osmdata_queue = 20;
    bool pbf_pool = true;
    unsigned perturb_intensity = 0;
    uint64_t perturb_seed = 0;
    int cpus = 0;
    std::string str() const {
        return "pool=" + std::to_string(pool_threads) + " workq=" + std::to_string(work_queue) + " inq=" + std::to_string(input_queue) + " outq=" + std::to_string(osmdata_queue) + (pbf_pool ? "" : " pbf-in-parser-thread") +
               " perturb=" + std::to_string(perturb_intensity) + " cpus=" + std::to_string(cpus);
    }
    void apply() const {
        ::setenv("OSMIUM_MAX_INPUT_QUEUE_SIZE", std::to_string(input_queue).c_str(), 1);
        ::setenv("OSMIUM_MAX_OSMDATA_QUEUE_SIZE", std::to_string(osmdata_queue).c_str(), 1);
        ::setenv("OSMIUM_USE_POOL_THREADS_FOR_PBF_PARSING", pbf_pool ? "yes" : "no", 1);
        perturb::configure(perturb_seed, perturb_intensity);
        perturb::set_cpus(cpus);
    }
};

inline Pipeline gen_pipeline(Src& s) {
    Pipeline p;
    p.pool_threads = s.weighted({3, 2, 2, 1}) == 0 ? 1 : 1 + static_cast<int>(s.draw(s.chance(1, 4) ? 32 : 8));
    p.work_queue = 2 + static_cast<int>(s.draw(19));
    p.input_queue = 2 + static_cast<int>(s.draw(19));
    p.osmdata_queue = 2 + static_cast<int>(s.draw(19));
    p.pbf_pool = !s.chance(1, 4);
    switch (s.weighted({2, 3, 2})) {
        case 0: p.perturb_intensity = 0; break;
        case 1: p.perturb_intensity = 16 + static_cast<unsigned>(s.draw(64)); break;
        default: p.perturb_intensity = 128 + static_cast<unsigned>(s.draw(128)); break;
    }
    p.perturb_seed = s.draw(1ULL << 32);
    static const int cpu_choices[] = {0, 0, 1, 2};
    p.cpus = cpu_choices[s.draw(4)];
    return p;
}

// ---------------------------------------------------------------- wrapping decompressor
struct Fault {
    long throw_at_read = -1;    // the j-th read() call (0-based) throws
    bool throw_at_close = false;
    size_t piece = 0;           // piece size handed out per read (0 = everything at once)
};
struct Accounting {
    std::atomic<long> reads{0};
    std::atomic<long> closes{0};
    std::atomic<long> bytes{0};
    std::atomic<bool> fault_fired{false};
    std::atomic<long> alive{0};
};
inline Fault& fault() {
    static Fault f;
    return f;
}
inline Accounting& acct() {
    static Accounting a;
    return a;
}
struct injected_fault : public std::runtime_error {
    explicit injected_fault(const std::string& w) : std::runtime_error(w) {}
};

class LabDecompressor final : public osmium::io::Decompressor {
    const char* m_data;
    size_t m_size;
    size_t m_pos = 0;

  public:
    LabDecompressor(const char* d, size_t n) : m_data(d), m_size(n) { ++acct().alive; }
    ~LabDecompressor() noexcept override { --acct().alive; }
    std::string read() override {
        long j = acct().reads.fetch_add(1);
        if (j == fault().throw_at_read) {
            acct().fault_fired = true;
            throw injected_fault{"injected: decompressor read failed"};
        }
        if (m_pos >= m_size) return {};
        size_t n = fault().piece == 0 ? m_size - m_pos : std::min(fault().piece, m_size - m_pos);
        std::string piece(m_data + m_pos, n);
        m_pos += n;
        acct().bytes += static_cast<long>(n);
        return piece;
    }
    void close() override {
        ++acct().closes;
        if (fault().throw_at_close) {
            acct().fault_fired = true;
            throw injected_fault{"injected: decompressor close failed"};
        }
    }
};
static const bool registered_lab_decompressor = osmium::io::CompressionFactory::instance().register_compression(
    osmium::io::file_compression::gzip, [](int, osmium::io::fsync) -> osmium::io::Compressor* { return nullptr; },
    [](int) -> osmium::io::Decompressor* { throw std::runtime_error{"fd route not used"}; }, [](const char* d, size_t n) -> osmium::io::Decompressor* { return new LabDecompressor{d, n}; });

inline void reset_faults() {
    fault() = Fault{};
    acct().reads = 0;
    acct().closes = 0;
    acct().bytes = 0;
    acct().fault_fired = false;
}

// plain single-threaded reference decode (pool of one thread, no perturbation, default queues)
inline std::vector<Obj> reference_decode(const std::string& bytes, const std::string& format, std::string* error = nullptr) {
    std::vector<Obj> out;
    Pipeline ref;
    ref.apply();
    reset_faults();
    try {
        osmium::thread::Pool pool{1, 8};
        osmium::io::Reader reader{osmium::io::File{bytes.data(), bytes.size(), format}, pool};
        while (osmium::memory::Buffer b = reader.read()) {
            for (auto& x : model::from_buffer(b)) out.push_back(std::move(x));
        }
        reader.close();
    } catch (const std::exception& e) {
        if (error) *error = e.what();
    }
    return out;
}

}  // namespace lab
