// C03 (deterministic part): every prefix and generated mutations of valid files, and of the repository's fixtures, must be read
// without memory errors, aborts or hangs; every delivered object must be traversable inside its buffer.
#include "filegen.hpp"
#include "traverse.hpp"

#include <osmium/io/bzip2_compression.hpp>
#include <osmium/io/gzip_compression.hpp>

#include <bzlib.h>
#include <dirent.h>

using vp::Src;

static osmium::thread::Pool& pool() {
    static osmium::thread::Pool p{2, 16};
    return p;
}

static void check(const std::string& bytes, const std::string& format, const std::string& what) {
    traverse::Outcome o = traverse::read_bytes(bytes.data(), bytes.size(), format, pool());
    if (!o.layout_error.empty()) vp::fail("malformed-object-delivered", "an object delivered by the reader cannot be traversed inside its buffer: " + o.layout_error + " | " + what + " read as " + format);
    vp::count(o.threw || o.header_threw ? "outcome_clean_exception" : "outcome_read_to_end");
    if (o.objects > 0) vp::count("inputs_that_delivered_objects");
}

static std::string gz(const std::string& in) {
    z_stream zs{};
    deflateInit2(&zs, 6, Z_DEFLATED, 15 + 16, 8, Z_DEFAULT_STRATEGY);
    std::string out(deflateBound(&zs, in.size()) + 64, '\0');
    zs.next_in = reinterpret_cast<Bytef*>(const_cast<char*>(in.data()));
    zs.avail_in = static_cast<uInt>(in.size());
    zs.next_out = reinterpret_cast<Bytef*>(&out[0]);
    zs.avail_out = static_cast<uInt>(out.size());
    deflate(&zs, Z_FINISH);
    out.resize(zs.total_out);
    deflateEnd(&zs);
    return out;
}
static std::string bz(const std::string& in) {
    unsigned int n = static_cast<unsigned int>(in.size() + in.size() / 50 + 1000);
    std::string out(n, '\0');
    BZ2_bzBuffToBuffCompress(&out[0], &n, const_cast<char*>(in.data()), static_cast<unsigned int>(in.size()), 9, 0, 0);
    out.resize(n);
    return out;
}

struct Fixture {
    std::string name, format, bytes;
};
static const std::vector<Fixture>& fixtures() {
    static std::vector<Fixture> v;
    static bool done = false;
    if (done) return v;
    done = true;
    const char* repo = std::getenv("VERIF_REPO");
    std::string dir = std::string{repo ? repo : "/repo"} + "/test/t/io";
    static const std::pair<const char*, const char*> ext[] = {{".osm.pbf", "pbf"}, {".osh.pbf", "pbf"}, {".osm.o5m", "o5m"}, {".osm.opl", "opl"}, {".opl", "opl"}, {".osm", "osm"}, {".osh", "osh"}, {".osm.gz", "osm.gz"}, {".osm.bz2", "osm.bz2"}};
    if (DIR* d = opendir(dir.c_str())) {
        std::vector<std::string> names;
        while (dirent* e = readdir(d)) names.emplace_back(e->d_name);
        closedir(d);
        std::sort(names.begin(), names.end());
        for (const auto& n : names) {
            for (const auto& x : ext) {
                std::string suffix = x.first;
                if (n.size() > suffix.size() && n.compare(n.size() - suffix.size(), suffix.size(), suffix) == 0) {
                    std::ifstream f(dir + "/" + n, std::ios::binary);
                    std::string bytes((std::istreambuf_iterator<char>(f)), std::istreambuf_iterator<char>());
                    if (bytes.size() <= 100000) v.push_back(Fixture{n, x.second, bytes});
                    break;
                }
            }
        }
    }
    return v;
}

// ---------------------------------------------------------------- PBF files that are well-formed protobuf but inconsistent in one place
static void hostile_pbf(Src& s) {
    gen::ObjOpts go;
    go.strmode = gen::StrMode::xml10;
    go.allow_invisible = false;
    go.valid_locations_only = true;
    go.max_list = 4;
    go.max_str = 12;
    std::vector<model::Obj> data;
    const size_t n = 1 + s.draw(6);
    for (size_t i = 0; i < n; ++i) {
        model::Obj x = gen::object(s, static_cast<int>(s.draw(3)), go);
        if (x.type == model::NODE && x.loc.undefined()) x.loc = model::Loc{1, 2};
        if (x.version == 0) x.version = 1;
        if (x.ts == 0) x.ts = 1000;
        if (x.uid == 0) x.uid = 7;
        if (x.user.empty()) x.user = "u";
        if (x.tags.empty() && s.boolean()) x.tags.push_back(model::Tag{"k", "v"});
        if (x.type == model::RELATION && x.members.empty()) x.members.push_back(model::Member{model::WAY, 1, "r"});
        data.push_back(std::move(x));
    }
    std::stable_sort(data.begin(), data.end(), [](const model::Obj& a, const model::Obj& b) { return a.type < b.type; });
    size_t placed = 0;
    for (size_t round = 0; round < 40; ++round) {
    enc::PbfEncoder::Hostile h = filegen::gen_hostile(s);
    enc::Choices ch;
    enc::PbfPlan plan;
    enc::Header hdr;
    hdr.generator = "hostile";
    std::string bytes;
    {
        enc::PbfEncoder e{s, ch, plan, false};
        e.hostile = &h;
        bytes = e.encode(hdr, data);
    }
    const std::string what = "pbf file with " + std::to_string(data.size()) + " objects, " + std::to_string(bytes.size()) + " bytes, inconsistent in one place:" + (h.fired ? h.what : std::string{" (the place was not reached)"});
    if (vp::want_desc()) vp::describe(what);
    check(bytes, "pbf", what);
    vp::count(h.fired ? "hostile_pbf_inconsistency_placed" : "hostile_pbf_place_not_reached");
    if (h.fired) ++placed;
    }
    vp::count("reader_runs", 40);
    if (placed) vp::nontrivial(vp::hash_str(model::show(data[0])) ^ s.used().size());
}

// o5m files whose varints and strings are well-formed but in which one object is inconsistent in one or two places (reference section
// length, early end of the body at a field boundary, dataset length, string reference outside the table)
static void hostile_o5m(Src& s) {
    size_t placed = 0;
    uint64_t h = 0;
    for (size_t round = 0; round < 40; ++round) {
        filegen::Made m = filegen::small_file(s, 1, 6, false, 1, nullptr, true);
        if (vp::want_desc()) vp::describe(m.what);
        check(m.bytes, m.format.c_str(), m.what);
        const bool fired = m.what_extra.find("inconsistent in object") != std::string::npos;
        vp::count(fired ? "hostile_o5m_inconsistency_placed" : "hostile_o5m_place_not_reached");
        if (fired) {
            ++placed;
            h ^= vp::hash_str(m.bytes);
        }
    }
    vp::count("reader_runs", 40);
    if (placed) vp::nontrivial(h);
}

static void prop(Src& s) {
    switch (s.weighted({5, 2, 1})) {
        case 1: hostile_pbf(s); return;
        case 2: hostile_o5m(s); return;
        default: break;
    }
    std::string bytes, format, what;
    if (!fixtures().empty() && s.chance(1, 6)) {
        const Fixture& f = fixtures()[s.draw(fixtures().size())];
        bytes = f.bytes;
        format = f.format;
        what = "fixture " + f.name;
        vp::count("base_fixture");
    } else {
        filegen::Made m = filegen::small_file(s, static_cast<int>(s.draw(4)));
        bytes = m.bytes;
        format = m.format;
        what = m.what;
        switch (s.weighted({6, 1, 1})) {
            case 0: break;
            case 1:
                bytes = gz(bytes);
                format += ".gz";
                what += " (gzip)";
                break;
            default:
                bytes = bz(bytes);
                format += ".bz2";
                what += " (bzip2)";
                break;
        }
        vp::count("base_generated");
    }
    if (vp::want_desc()) vp::describe(what);
    check(bytes, format, what);  // the intact file first
    // prefixes: all of them for files <= 600 bytes, otherwise 200 sampled (weighted to the start)
    size_t runs = 1;
    if (bytes.size() <= 600) {
        for (size_t n = 0; n < bytes.size(); ++n, ++runs) check(bytes.substr(0, n), format, what + " cut at " + std::to_string(n));
        vp::count("files_with_all_prefixes");
    } else {
        for (size_t k = 0; k < 200; ++k, ++runs) {
            size_t n = s.boolean() ? s.draw(std::min<size_t>(bytes.size(), 400)) : s.draw(bytes.size());
            check(bytes.substr(0, n), format, what + " cut at " + std::to_string(n));
        }
    }
    // mutation programs
    for (size_t k = 0; k < 40; ++k, ++runs) {
        std::string b = bytes;
        std::string how;
        size_t steps = 1 + s.draw(3);
        for (size_t i = 0; i < steps; ++i) how += (i ? "; " : "") + filegen::mutate(s, b);
        if (b.size() > 300000) continue;
        check(b, format, what + " mutated: " + how);
    }
    vp::count("reader_runs", runs);
    vp::nontrivial(vp::hash_str(bytes) ^ vp::hash_str(format));
}

// ---------------------------------------------------------------- regression scenarios
VP_BUILTIN(F05_xml_changeset_comment_without_text) {
    const std::string head = "<?xml version='1.0'?><osm version='0.6' generator='g'><changeset id='1' uid='2' user='u'><discussion>";
    for (const std::string& body : {std::string{"<comment date='2015-01-01T00:00:00Z' uid='3' user='x'/>"}, std::string{"<comment date='2015-01-01T00:00:00Z' uid='3' user='x'></comment><comment date='2015-01-01T00:00:01Z' uid='4' user='y'><text>t</text></comment>"},
                                    std::string{"<comment date='2015-01-01T00:00:00Z' uid='3' user='x'><text>a</text><text>b</text></comment>"}, std::string{"<comment date='2015-01-01T00:00:00Z' uid='3' user='x'><foo/>"}, std::string{"<comment date='2015-01-01T00:00:00Z' uid='3' user='x'>"}}) {
        check(head + body + "</discussion></changeset></osm>", "osm", "changeset comment variant " + body);
        check(head + body, "osm", "truncated changeset comment variant " + body);
    }
}

VP_BUILTIN(F06_pbf_string_with_embedded_nul) {
    using namespace enc::pb;
    auto frame = [&](const std::string& type, const std::string& payload) {
        std::string blob = f_bytes(1, payload);
        std::string h = f_bytes(1, type) + f_int64(3, static_cast<int64_t>(blob.size()));
        std::string o;
        for (int sh : {24, 16, 8, 0}) o += static_cast<char>((h.size() >> sh) & 0xff);
        return o + h + blob;
    };
    const std::string header = f_bytes(4, "OsmSchema-V0.6") + f_bytes(16, "gen");
    for (const std::string& evil : {std::string("a\0b", 3), std::string("\0", 1), std::string("ab\0", 3), std::string("\0\0\0", 3)}) {
        // string table: "", evil, "v"; a node with tag (evil, v) and one with (v, evil); user = evil; a relation with role = evil
        std::string st = f_bytes(1, "") + f_bytes(1, evil) + f_bytes(1, "v");
        std::string info = f_int64(1, 1) + f_varint(5, 1);
        std::string node1 = f_sint64(1, 17) + f_bytes(2, packed_varint({1})) + f_bytes(3, packed_varint({2})) + f_sint64(8, 20) + f_sint64(9, 10);
        std::string node2 = f_sint64(1, 18) + f_bytes(2, packed_varint({2, 2})) + f_bytes(3, packed_varint({1, 2})) + f_bytes(4, info) + f_sint64(8, 20) + f_sint64(9, 10);
        std::string rel = f_int64(1, 5) + f_bytes(8, packed_varint({1})) + f_bytes(9, packed_varint({zz(7)})) + f_bytes(10, packed_varint({0}));
        std::string dense = f_bytes(1, packed_varint({zz(30)})) + f_bytes(8, packed_varint({zz(1)})) + f_bytes(9, packed_varint({zz(2)})) + f_bytes(10, packed_varint({1, 2, 2, 1, 0}));
        std::string block = f_bytes(1, st) + f_bytes(2, f_bytes(1, node1) + f_bytes(1, node2)) + f_bytes(2, f_bytes(4, rel)) + f_bytes(2, f_bytes(2, dense));
        check(frame("OSMHeader", header) + frame("OSMData", block), "pbf", "string table entry with an embedded NUL byte");
    }
}

VP_BUILTIN(F35_o5m_bounding_box_with_undefined_or_reversed_corner) {
    // bounding box dataset (0xdb) whose corners are the "undefined" marker, reversed, out of range or beyond 32 bits
    auto zz = [](std::string& o, int64_t v) { enc::pb::varint(o, enc::pb::zz(v)); };
    static const int64_t vals[] = {2147483647LL, -2147483648LL, 0, 5, -5, 1800000001LL, 4294967296LL + 7, 9223372036854775807LL};
    for (int64_t a : vals)
        for (int64_t b : vals)
            for (int64_t c : {3LL, 2147483647LL, -1800000000LL}) {
                std::string f("\xff\xe0\x04o5m2", 7);
                std::string body;
                zz(body, a);
                zz(body, b);
                zz(body, c);
                zz(body, 4);
                f += static_cast<char>(0xdb);
                enc::pb::varint(f, body.size());
                f += body;
                f += static_cast<char>(0xfe);
                check(f, "o5m", "o5m bounding box " + std::to_string(a) + "," + std::to_string(b) + "," + std::to_string(c) + ",4");
            }
}

VP_BUILTIN(F07_user_name_of_65535_bytes_or_more) {
    for (size_t n : {65533, 65534, 65535, 65536, 70000, 131071}) {
        const std::string user(n, 'a');
        check("<?xml version='1.0'?><osm version='0.6' generator='g'><node id='1' lat='1' lon='2' user='" + user + "'/><changeset id='1' user='" + user + "'/></osm>", "osm", "XML user name of " + std::to_string(n) + " bytes");
        check("<?xml version='1.0'?><osm version='0.6' generator='g'><changeset id='1' user='" + user + "'/></osm>", "osm", "XML changeset user name of " + std::to_string(n) + " bytes");
        check("n1 v1 dV c1 t i1 u" + user + " T x1 y2\n", "opl", "OPL user name of " + std::to_string(n) + " bytes");
        check("c1 k1 s e d0 i1 u" + user + " x y X Y T\n", "opl", "OPL changeset user name of " + std::to_string(n) + " bytes");
        check("r1 v1 dV c1 t i1 u" + user + " T Mn1@\n", "opl", "OPL relation user name of " + std::to_string(n) + " bytes");
    }
}

VP_MAIN(prop, "one case in four: a PBF file from the harness encoder that is well-formed protobuf but inconsistent in one generated place (a string table index that is negative, beyond the table or beyond 32 bits; a packed array of a parallel group shortened, lengthened, emptied or doubled; a blob whose raw_size is wrong; granularity and date_granularity 0, negative or huge). Otherwise base files: the harness encoders' small valid files in all four formats (1/4 of them gzip- or bzip2-compressed) and the repository's I/O fixtures; each base file is read intact, then every "
              "prefix (all for files <= 600 bytes, 200 sampled otherwise), then 40 mutation programs of 1..3 steps (truncate, bit flip, byte overwrite with structural values, insert, delete, runs of "
              "255..70000 characters, duplicate range, boundary varints, remove the text between structural characters). Oracle: the process survives (ASan, UBSan subset, assertions), only "
              "std::exception-derived errors escape the Reader, and every delivered buffer passes the independent layout walker before it is traversed completely through the library's accessors. "
              "non-trivial = every base file (each stands for several hundred derived inputs); distinct by hash of the base file")
