// C06: the parse result is independent of how the input byte stream is chunked.
//
// Route A (default build): a harness decompressor registered for file_compression::gzip (the gzip header is not included in this
// binary) hands the bytes of a file to the parser in exactly the planned pieces; File(buffer, size, "<format>.gz") selects it.
// Route B (-DC06_REAL, built with -DOSMIUM_VERIF_INPUT_BUFFER_SIZE=<small>): the real fd-based plain, gzip and bzip2 decompressors
// deliver pieces of at most that size; the reference is the same bytes parsed from memory in one piece.
// Route C (-DC06_PIPE): the bytes arrive on stdin through a pipe whose writer hands over exactly the planned pieces (short reads, as with
// pipes, FIFOs and sockets); plain, gzip and bzip2 decompressors and the PBF parser's own reads from the descriptor.
#include "tmpdir.hpp"
#include "enc.hpp"

#if defined(C06_REAL) || defined(C06_PIPE)
#include <osmium/io/bzip2_compression.hpp>
#include <osmium/io/gzip_compression.hpp>
#include <bzlib.h>
#endif
#include <osmium/io/compression.hpp>
#include <osmium/io/o5m_input.hpp>
#include <osmium/io/opl_input.hpp>
#include <osmium/io/pbf_input.hpp>
#include <osmium/io/reader.hpp>
#include <osmium/io/xml_input.hpp>

#include <typeinfo>
#include <unistd.h>
#ifdef C06_PIPE
#include "pipefeed.hpp"
#endif

using model::Obj;
using vp::Src;

// ---------------------------------------------------------------- the chunking decompressor
static std::vector<size_t> g_plan;  // piece sizes; after the plan is used up the rest comes in one piece
static std::atomic<size_t> g_pieces_delivered{0};

#if !defined(C06_REAL) && !defined(C06_PIPE)
class ChunkDecompressor final : public osmium::io::Decompressor {
    const char* m_data;
    size_t m_size;
    size_t m_pos = 0;
    size_t m_next = 0;

  public:
    ChunkDecompressor(const char* d, size_t n) : m_data(d), m_size(n) {}
    std::string read() override {
        if (m_pos >= m_size) return {};
        size_t n = m_next < g_plan.size() ? g_plan[m_next++] : m_size - m_pos;
        if (n == 0) n = 1;  // an empty piece means end of input: never produce one early
        n = std::min(n, m_size - m_pos);
        std::string piece(m_data + m_pos, n);
        m_pos += n;
        ++g_pieces_delivered;
        return piece;
    }
    void close() override {}
};
static const bool registered_chunker = osmium::io::CompressionFactory::instance().register_compression(
    osmium::io::file_compression::gzip, [](int, osmium::io::fsync) -> osmium::io::Compressor* { return nullptr; },
    [](int) -> osmium::io::Decompressor* { throw std::runtime_error{"fd route not used"}; }, [](const char* d, size_t n) -> osmium::io::Decompressor* { return new ChunkDecompressor{d, n}; });
#endif

// ---------------------------------------------------------------- result of one read
struct Result {
    bool header_threw = false;
    std::string header_what;
    std::string generator;
    std::vector<std::pair<model::Loc, model::Loc>> boxes;
    std::vector<Obj> objs;
    bool threw = false;
    std::string exc_type, exc_what;
    bool operator==(const Result& o) const {
        return header_threw == o.header_threw && header_what == o.header_what && generator == o.generator && boxes == o.boxes && objs == o.objs && threw == o.threw && exc_type == o.exc_type && exc_what == o.exc_what;
    }
    std::string brief() const {
        std::string s = header_threw ? "header() threw " + header_what : "header ok (generator " + model::brief(generator) + ", " + std::to_string(boxes.size()) + " boxes)";
        s += "; " + std::to_string(objs.size()) + " objects";
        if (threw) s += "; then " + exc_type + ": " + exc_what;
        return s;
    }
};

static Result read_all(const osmium::io::File& file) {
    Result r;
    try {
        osmium::io::Reader reader{file};
        try {
            osmium::io::Header h = reader.header();
            r.generator = h.get("generator");
            for (const auto& b : h.boxes()) r.boxes.emplace_back(model::from_location(b.bottom_left()), model::from_location(b.top_right()));
        } catch (const std::exception& e) {
            r.header_threw = true;
            r.header_what = e.what();
        }
        try {
            while (osmium::memory::Buffer buf = reader.read()) {
                for (auto& x : model::from_buffer(buf)) r.objs.push_back(std::move(x));
            }
            reader.close();
        } catch (const std::exception& e) {
            r.threw = true;
            r.exc_type = typeid(e).name();
            r.exc_what = e.what();
        }
    } catch (const std::exception& e) {
        r.threw = true;
        r.exc_type = std::string{"ctor:"} + typeid(e).name();
        r.exc_what = e.what();
    }
    return r;
}

// ---------------------------------------------------------------- unit boundaries (to classify cuts)
static std::set<size_t> unit_boundaries(int fmt, const std::string& f) {
    std::set<size_t> b{0, f.size()};
    if (fmt == 3) {  // opl: after each end-of-line character
        for (size_t i = 0; i < f.size(); ++i)
            if (f[i] == '\n') b.insert(i + 1);
    } else if (fmt == 2) {  // xml: after each '>'
        for (size_t i = 0; i < f.size(); ++i)
            if (f[i] == '>') b.insert(i + 1);
    } else if (fmt == 0) {  // pbf: after each length prefix, blob header and blob
        size_t p = 0;
        while (p + 4 <= f.size()) {
            size_t hl = (static_cast<unsigned char>(f[p]) << 24) | (static_cast<unsigned char>(f[p + 1]) << 16) | (static_cast<unsigned char>(f[p + 2]) << 8) | static_cast<unsigned char>(f[p + 3]);
            p += 4;
            b.insert(p);
            if (hl > f.size() - p) break;
            // find datasize (field 3, varint) in the blob header
            size_t q = p, end = p + hl, datasize = 0;
            bool ok = true;
            while (q < end && ok) {
                uint64_t key = 0;
                int sh = 0;
                while (q < end) {
                    unsigned char c = static_cast<unsigned char>(f[q++]);
                    key |= static_cast<uint64_t>(c & 0x7f) << sh;
                    sh += 7;
                    if (!(c & 0x80)) break;
                }
                uint64_t v = 0;
                sh = 0;
                switch (key & 7) {
                    case 0:
                        while (q < end) {
                            unsigned char c = static_cast<unsigned char>(f[q++]);
                            v |= static_cast<uint64_t>(c & 0x7f) << sh;
                            sh += 7;
                            if (!(c & 0x80)) break;
                        }
                        if ((key >> 3) == 3) datasize = static_cast<size_t>(v);
                        break;
                    case 1: q += 8; break;
                    case 5: q += 4; break;
                    case 2:
                        while (q < end) {
                            unsigned char c = static_cast<unsigned char>(f[q++]);
                            v |= static_cast<uint64_t>(c & 0x7f) << sh;
                            sh += 7;
                            if (!(c & 0x80)) break;
                        }
                        q += static_cast<size_t>(v);
                        break;
                    default: ok = false;
                }
            }
            p = end;
            b.insert(p);
            if (!ok || datasize > f.size() - p) break;
            p += datasize;
            b.insert(p);
        }
    } else {  // o5m: after each dataset
        size_t p = 0;
        while (p < f.size()) {
            unsigned char t = static_cast<unsigned char>(f[p++]);
            if (t >= 0xf0) {
                b.insert(p);
                continue;
            }
            uint64_t len = 0;
            int sh = 0;
            while (p < f.size()) {
                unsigned char c = static_cast<unsigned char>(f[p++]);
                len |= static_cast<uint64_t>(c & 0x7f) << sh;
                sh += 7;
                if (!(c & 0x80)) break;
            }
            if (len > f.size() - p) break;
            p += static_cast<size_t>(len);
            b.insert(p);
        }
    }
    return b;
}

static const char* const FMT[] = {"pbf", "o5m", "osm", "opl"};

static std::string make_file(Src& s, int fmt, std::string& what) {
    // small data so that files stay in the range where cuts can be enumerated
    enc::PbfPlan plan;
    const bool history = s.chance(1, 4);
    gen::ObjOpts go;
    go.strmode = gen::StrMode::xml10;
    go.allow_invisible = false;
    go.valid_locations_only = true;
    go.max_list = 4;
    go.max_str = s.chance(1, 8) ? 300 : 24;
    std::vector<Obj> data;
    // mostly small files (cuts can be enumerated), sometimes 10-40 kB (pieces below and above the 4096/10240-byte sizes the I/O layer uses)
    size_t n = s.chance(1, 6) ? 100 + s.draw(300) : s.size(8);
    for (size_t i = 0; i < n; ++i) {
        Obj x = gen::object(s, static_cast<int>(s.draw(3)), go);
        if (x.version == 0 || s.chance(1, 4)) {
            if (x.version == 0) x.version = s.chance(1, 2) ? 0 : 1;
            x.ts = x.cs = x.uid = 0;
            x.user.clear();
        } else {
            if (x.ts == 0) x.ts = 1000;
            if (x.uid == 0) x.uid = 7;
        }
        if (x.type == model::NODE && x.loc.undefined()) x.loc = model::Loc{1, 2};
        if (history && s.chance(1, 4)) {
            x.visible = false;
            x.loc = model::Loc{};
            x.refs.clear();
            x.members.clear();
            x.tags.clear();
        }
        data.push_back(std::move(x));
    }
    std::stable_sort(data.begin(), data.end(), [](const Obj& a, const Obj& b) { return a.type < b.type; });
    enc::Header hdr;
    hdr.generator = "gen" + gen::str(s, gen::StrMode::xml10, 12);
    if (s.boolean()) {
        hdr.has_box = true;
        hdr.bl = model::Loc{-100, -200};
        hdr.tr = model::Loc{300, 400};
    }
    enc::Choices ch;
    std::string bytes;
    switch (fmt) {
        case 0: {
            enc::PbfEncoder e{s, ch, plan, history};
            bytes = e.encode(hdr, data);
            break;
        }
        case 1: {
            enc::O5mEncoder e{s, ch};
            bytes = e.encode(hdr, data, history);
            break;
        }
        case 2: {
            enc::XmlEncoder e{s, ch};
            if (s.chance(1, 3)) {
                gen::ObjOpts co = go;
                co.allow_changesets = true;
                co.allow_discussions = true;
                data.push_back(gen::object(s, model::CHANGESET, co));
            }
            bytes = e.encode(hdr, data, false);
            break;
        }
        default: {
            enc::OplEncoder e{s, ch};
            bytes = e.encode(data);
            break;
        }
    }
    what = std::string{FMT[fmt]} + " file with " + std::to_string(data.size()) + " objects, " + std::to_string(bytes.size()) + " bytes";
    // damage: truncation or byte mutations (the error, too, must not depend on the chunking)
    switch (s.weighted({5, 2, 2})) {
        case 0: break;
        case 1:
            if (!bytes.empty()) {
                bytes.resize(s.draw(bytes.size()));
                what += ", truncated to " + std::to_string(bytes.size());
            }
            break;
        default:
            for (size_t k = 1 + s.draw(3); k > 0 && !bytes.empty(); --k) {
                size_t pos = s.draw(bytes.size());
                bytes[pos] = static_cast<char>(s.draw(256));
                what += ", byte " + std::to_string(pos) + " overwritten";
            }
            break;
    }
    return bytes;
}

static std::string plan_text(const std::vector<size_t>& p) {
    std::string t = "pieces";
    for (size_t i = 0; i < p.size() && i < 12; ++i) t += " " + std::to_string(p[i]);
    if (p.size() > 12) t += " ..";
    return t + " rest";
}

#if !defined(C06_REAL) && !defined(C06_PIPE)
static void prop(Src& s) {
    const int fmt = static_cast<int>(s.draw(4));
    std::string what;
    const std::string bytes = make_file(s, fmt, what);
    if (vp::want_desc()) vp::describe(what);
    const std::string fmtgz = std::string{FMT[fmt]} + ".gz";
    g_plan.clear();
    const Result ref = read_all(osmium::io::File{bytes.data(), bytes.size(), fmtgz});
    {
        // the chunking decompressor itself must not change anything: compare with the library's plain in-memory route
        const Result plain = read_all(osmium::io::File{bytes.data(), bytes.size(), FMT[fmt]});
        VP_CHECK(plain == ref, "chunking-changes-result", what << ": one piece through the decompressor route gives [" << ref.brief() << "], the plain in-memory route gives [" << plain.brief() << "]");
    }
    const std::set<size_t> bounds = unit_boundaries(fmt, bytes);
    size_t runs = 0, nontrivial_plans = 0;
    auto try_plan = [&](const std::vector<size_t>& plan) {
        g_plan = plan;
        const Result r = read_all(osmium::io::File{bytes.data(), bytes.size(), fmtgz});
        ++runs;
        if (!(r == ref)) {
            size_t i = 0;
            while (i < r.objs.size() && i < ref.objs.size() && r.objs[i] == ref.objs[i]) ++i;
            std::string diff = i < r.objs.size() && i < ref.objs.size() ? " first differing object #" + std::to_string(i) + ": " + model::diff(ref.objs[i], r.objs[i]) : "";
            vp::fail("chunking-changes-result", what + ": delivered in one piece [" + ref.brief() + "], delivered as " + plan_text(plan) + " [" + r.brief() + "]" + diff);
        }
        size_t pos = 0;
        bool inside = false;
        for (size_t n : plan) {
            pos += n;
            if (pos < bytes.size() && !bounds.count(pos)) inside = true;
        }
        if (inside) ++nontrivial_plans;
    };
    const size_t N = bytes.size();
    // every single cut (all of them for small files, a sample otherwise)
    if (N <= 300) {
        for (size_t c = 1; c < N; ++c) try_plan({c});
    } else {
        for (size_t k = 0; k < 120; ++k) try_plan({1 + s.draw(N - 1)});
    }
    // pairs of cuts
    if (N <= 24) {
        for (size_t a = 1; a < N; ++a)
            for (size_t b = 1; a + b < N; ++b) try_plan({a, b});
    } else {
        for (size_t k = 0; k < 40; ++k) {
            size_t a = 1 + s.draw(N - 1);
            try_plan({a, 1 + s.draw(s.boolean() ? 3 : N)});
        }
    }
    // a small piece followed by a large one and the reverse (pieces around the sizes the I/O layer uses)
    if (N > 9000) {
        for (size_t k = 0; k < 6; ++k) {
            size_t a = 1 + s.draw(4095);
            try_plan({a, 4096 + s.draw(N - a - 4096)});
            try_plan({4096 + s.draw(4096), a});
        }
    }
    // fixed piece sizes
    for (size_t sz : {1, 2, 3, 5, 7, 11, 64, 4095, 4096, 10240}) {
        if (N / sz > 3000) continue;
        try_plan(std::vector<size_t>(N / sz + 1, sz));
    }
    // random plans
    for (size_t k = 0; k < 10; ++k) {
        std::vector<size_t> plan;
        size_t maxp = 1 + s.draw(s.boolean() ? 8 : 200);
        for (size_t used = 0; used < N && plan.size() < 2000;) {
            size_t n = 1 + s.draw(maxp);
            plan.push_back(n);
            used += n;
        }
        try_plan(plan);
    }
    vp::count("reader_runs", runs);
    vp::count("plans_with_cut_inside_a_unit", nontrivial_plans);
    vp::count(std::string{"fmt_"} + FMT[fmt]);
    vp::count(ref.threw || ref.header_threw ? "file_with_error" : "file_without_error");
    if (ref.threw && !ref.objs.empty()) vp::count("error_after_objects");
    if (nontrivial_plans > 0) vp::nontrivial(vp::hash_str(bytes));
}

VP_BUILTIN(F34_opl_line_starting_with_nul_cut_after_its_first_byte) {
    // a line whose first byte is NUL is skipped and not counted; when the input was cut inside that line it used to be counted, so the
    // line number in the error for the broken line that follows depended on the chunking
    const std::string bytes = std::string("\0n1 v1\n", 7) + "n2 vX\n";
    g_plan.clear();
    const Result ref = read_all(osmium::io::File{bytes.data(), bytes.size(), "opl.gz"});
    for (size_t c = 1; c < bytes.size(); ++c) {
        g_plan = {c};
        const Result r = read_all(osmium::io::File{bytes.data(), bytes.size(), "opl.gz"});
        VP_CHECK(r == ref, "chunking-changes-result", "OPL file \"\\0n1 v1\\nn2 vX\\n\": delivered in one piece [" << ref.brief() << "], cut after byte " << c << " [" << r.brief() << "]");
    }
}
#else
// ---------------------------------------------------------------- routes B and C: real decompressors (tiny input buffer / pipe)
static std::string gz(const std::string& in) {
    z_stream zs{};
    deflateInit2(&zs, 6, Z_DEFLATED, 15 + 16, 8, Z_DEFAULT_STRATEGY);
    std::string out(deflateBound(&zs, in.size()) + 64, '\0');
    zs.next_in = reinterpret_cast<Bytef*>(const_cast<char*>(in.data()));
    zs.avail_in = static_cast<uInt>(in.size());
    zs.next_out = reinterpret_cast<Bytef*>(&out[0]);
    zs.avail_out = static_cast<uInt>(out.size());
    deflate(&zs, Z_FINISH);
    out.resize(zs.total_out);
    deflateEnd(&zs);
    return out;
}
static std::string bz(const std::string& in) {
    unsigned int n = static_cast<unsigned int>(in.size() + in.size() / 50 + 1000);
    std::string out(n, '\0');
    BZ2_bzBuffToBuffCompress(&out[0], &n, const_cast<char*>(in.data()), static_cast<unsigned int>(in.size()), 9, 0, 0);
    out.resize(n);
    return out;
}
#ifdef C06_PIPE
static void prop(Src& s) {
    const int fmt = static_cast<int>(s.draw(4));
    std::string what;
    const std::string bytes = make_file(s, fmt, what);
    if (vp::want_desc()) vp::describe(what);
    const Result mem = read_all(osmium::io::File{bytes.data(), bytes.size(), FMT[fmt]});
    const Result& ref = mem;
    Result pbf_one_piece;
    size_t runs = 0, short_reads = 0;
    // (no ".pbf.gz": the Reader does not decompress PBF files, see route B)
    const int ncomp = fmt == 0 ? 1 : 3;
    for (int comp = 0; comp < ncomp; ++comp) {
        if (comp != 0 && bytes.empty()) continue;
        const std::string filebytes = comp == 0 ? bytes : comp == 1 ? gz(bytes) : bz(bytes);
        const size_t N = filebytes.size();
        const std::string fs = std::string{FMT[fmt]} + (comp == 1 ? ".gz" : comp == 2 ? ".bz2" : "");
        std::vector<std::vector<size_t>> plans;
        plans.push_back({});  // everything in one write
        if (N > 1) {
            plans.push_back({1 + s.draw(N - 1)});
            plans.push_back({1 + s.draw(N - 1), 1 + s.draw(s.boolean() ? 3 : N)});
            plans.push_back({N - 1});  // the last byte alone
        }
        for (size_t sz : {1, 2, 7, 64, 4095, 4096}) {
            if (N / sz > 600 || sz >= N) continue;
            if (s.chance(1, 2)) plans.push_back(std::vector<size_t>(N / sz + 1, sz));
        }
        for (size_t k = 0; k < 3; ++k) {
            std::vector<size_t> plan;
            size_t maxp = 1 + s.draw(s.boolean() ? 8 : 5000);
            for (size_t used = 0; used < N && plan.size() < 600;) {
                size_t n = 1 + s.draw(maxp);
                plan.push_back(n);
                used += n;
            }
            plans.push_back(plan);
        }
        for (const auto& plan : plans) {
            Result r;
            size_t pieces = 0;
            {
                pipefeed::Feed feed{filebytes, plan};
                ::dup2(feed.read_fd(), 0);
                ::close(feed.read_fd());
                r = read_all(osmium::io::File{"-", fs});
                int devnull = ::open("/dev/null", O_RDONLY);  // whatever the Reader did with descriptor 0: the pipe's read end is closed now
                if (devnull != 0) {
                    ::dup2(devnull, 0);
                    ::close(devnull);
                }
                feed.join();
                pieces = feed.pieces();
            }
            ++runs;
            if (pieces > 1) ++short_reads;
            // The PBF parser reads the descriptor itself and words its errors differently from the in-memory route ("unexpected EOF" vs
            // "truncated data"): for PBF the reference for the error text is the same route with everything in one write.
            if (fmt == 0 && plan.empty()) {
                pbf_one_piece = r;
                VP_CHECK(r.objs == ref.objs && r.generator == ref.generator && r.boxes == ref.boxes && r.threw == ref.threw && r.header_threw == ref.header_threw, "chunking-changes-result",
                         what << ": parsed from memory [" << ref.brief() << "], read from a pipe in one piece [" << r.brief() << "]");
                continue;
            }
            const Result& ref = fmt == 0 ? pbf_one_piece : mem;
            if (!(r == ref)) {
                size_t i = 0;
                while (i < r.objs.size() && i < ref.objs.size() && r.objs[i] == ref.objs[i]) ++i;
                std::string diff = i < r.objs.size() && i < ref.objs.size() ? " first differing object #" + std::to_string(i) + ": " + model::diff(ref.objs[i], r.objs[i]) : "";
                vp::fail("chunking-changes-result", what + ": parsed from memory in one piece [" + ref.brief() + "], read from a pipe (stdin, " + (comp == 0 ? "not compressed" : comp == 1 ? "gzip" : "bzip2") + ", " + std::to_string(N) +
                                                        " bytes) that delivers " + plan_text(plan) + " [" + r.brief() + "]" + diff);
            }
        }
    }
    vp::count("reader_runs", runs);
    vp::count("runs_with_short_reads", short_reads);
    vp::count(std::string{"fmt_"} + FMT[fmt]);
    vp::count(ref.threw || ref.header_threw ? "file_with_error" : "file_without_error");
    if (short_reads > 0 && !bytes.empty()) vp::nontrivial(vp::hash_str(bytes));
}
#else
static void prop(Src& s) {
    // PBF is not part of this route: a PBF file on disk is always read by the parser itself (Reader::make_decompressor installs a dummy
    // decompressor for it whatever the file name says), so there is no decompressor that could chunk it. Route A covers PBF.
    const int fmt = 1 + static_cast<int>(s.draw(3));
    std::string what;
    const std::string bytes = make_file(s, fmt, what);
    if (vp::want_desc()) vp::describe(what);
    const Result ref = read_all(osmium::io::File{bytes.data(), bytes.size(), FMT[fmt]});
    static const std::string path = tmpdir::prefix() + "c06-" + std::to_string(getpid());
    for (int comp = 0; comp < 3; ++comp) {
        std::string filebytes = comp == 0 ? bytes : comp == 1 ? gz(bytes) : bz(bytes);
        if (comp != 0 && bytes.empty()) continue;
        {
            std::ofstream f(path, std::ios::binary | std::ios::trunc);
            f.write(filebytes.data(), static_cast<std::streamsize>(filebytes.size()));
        }
        const std::string fs = std::string{FMT[fmt]} + (comp == 1 ? ".gz" : comp == 2 ? ".bz2" : "");
        const Result r = read_all(osmium::io::File{path, fs});
        ::unlink(path.c_str());
        VP_CHECK(r == ref, "chunking-changes-result", what << ": parsed from memory in one piece [" << ref.brief() << "], read through the " << (comp == 0 ? "plain" : comp == 1 ? "gzip" : "bzip2") << " file decompressor in pieces of at most "
                                                           << static_cast<size_t>(osmium::io::Decompressor::input_buffer_size) << " bytes [" << r.brief() << "]");
        vp::count("reader_runs");
    }
    vp::count(std::string{"fmt_"} + FMT[fmt]);
    vp::count(ref.threw || ref.header_threw ? "file_with_error" : "file_without_error");
    if (bytes.size() > static_cast<size_t>(osmium::io::Decompressor::input_buffer_size)) vp::nontrivial(vp::hash_str(bytes));
}
#endif
#endif

VP_MAIN(prop, "files from the harness's own PBF/o5m/XML/OPL encoders (0..8 objects, all encoding choices of C02), 4/9 of them damaged by truncation or byte overwrites so that the reported error is "
              "part of the result; x chunk plans handed to the parser by a harness decompressor: every single cut (all for files <= 300 bytes, 120 sampled otherwise), every pair of cuts for "
              "files <= 24 bytes (40 sampled otherwise), fixed piece sizes 1,2,3,5,7,11,64,4095, 10 random plans; second route: the real plain/gzip/bzip2 file decompressors compiled with a "
              "7-byte and a 1-byte input buffer; third route: the bytes (plain, gzip, bzip2; PBF plain) arrive on stdin through a pipe in planned pieces (short reads). Oracle: (header or header error, objects delivered, exception type and message) identical to the one-piece result. non-trivial = at least one "
              "cut inside a unit (not after an OPL line end, an XML '>', a PBF length prefix/blob header/blob, an o5m dataset); distinct by hash of the file")
