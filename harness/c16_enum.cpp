// C16: object orderings are consistent strict weak orders; the order checker agrees.
#include "../engine/vp_enum.hpp"

#include <osmium/builder/osm_object_builder.hpp>
#include <osmium/handler/check_order.hpp>
#include <osmium/memory/buffer.hpp>
#include <osmium/object_pointer_collection.hpp>
#include <osmium/osm/object_comparisons.hpp>
#include <osmium/visitor.hpp>

#include <array>
#include <bitset>

using i128 = __int128;

static const osmium::item_type TYPES[] = {osmium::item_type::node, osmium::item_type::way, osmium::item_type::relation, osmium::item_type::area};
static const int64_t IDS[] = {INT64_MIN + 1, -(1LL << 32), -2, -1, 0, 1, 2, 1LL << 32, INT64_MAX};
static const uint32_t VERSIONS[] = {0, 1, 2, 2147483647u};
static const uint32_t TS_SET[] = {1, 1000, 4294967295u};
constexpr int NT = 4, NI = 9, NV = 4, NTS = 3, NVIS = 2;
constexpr int N = NT * NI * NV * NTS * NVIS;  // 864

struct Attr {
    int type_rank;
    int64_t id;
    uint32_t version;
    uint32_t ts;
    bool visible;
};

struct Grid {
    osmium::memory::Buffer buffer{1024 * 1024, osmium::memory::Buffer::auto_grow::yes};
    std::vector<const osmium::OSMObject*> obj;
    std::vector<Attr> attr;
};

template <typename B>
static void setattrs(B& b, const Attr& a) {
    b.set_id(a.id).set_version(a.version).set_timestamp(osmium::Timestamp{a.ts}).set_visible(a.visible).set_uid(1).set_changeset(1);
}

static void add_object(osmium::memory::Buffer& buf, const Attr& a) {
    switch (a.type_rank) {
        case 0: {
            osmium::builder::NodeBuilder b{buf};
            setattrs(b, a);
            break;
        }
        case 1: {
            osmium::builder::WayBuilder b{buf};
            setattrs(b, a);
            break;
        }
        case 2: {
            osmium::builder::RelationBuilder b{buf};
            setattrs(b, a);
            break;
        }
        default: {
            osmium::builder::AreaBuilder b{buf};
            setattrs(b, a);
            break;
        }
    }
    buf.commit();
}

static Grid* make_grid(bool timestamps_set) {
    auto* g = new Grid;
    std::vector<size_t> offs;
    for (int t = 0; t < NT; ++t)
        for (int i = 0; i < NI; ++i)
            for (int v = 0; v < NV; ++v)
                for (int s = 0; s < NTS; ++s)
                    for (int vis = 0; vis < NVIS; ++vis) {
                        Attr a{t, IDS[i], VERSIONS[v], timestamps_set ? TS_SET[s] : 0u, vis == 1};
                        offs.push_back(g->buffer.committed());
                        add_object(g->buffer, a);
                        g->attr.push_back(a);
                    }
    for (size_t o : offs) g->obj.push_back(&g->buffer.get<osmium::OSMObject>(o));
    return g;
}

// reference id rank: 0 first, then negatives by absolute value, then positives
static i128 id_rank(int64_t id) {
    if (id == 0) return 0;
    if (id < 0) return -static_cast<i128>(id);
    return (static_cast<i128>(1) << 64) + id;
}

enum Cmp { LT = 0, NOTS = 1, REV = 2, NCMP = 3 };
static const char* const CMP_NAME[] = {"operator<", "object_order_type_id_version_without_timestamp", "object_order_type_id_reverse_version"};

static bool ref_less(int cmp, const Attr& a, const Attr& b) {
    auto base = [](const Attr& x) { return std::make_tuple(x.type_rank, id_rank(x.id)); };
    if (base(a) != base(b)) return base(a) < base(b);
    switch (cmp) {
        case LT: return std::make_tuple(a.version, a.ts) < std::make_tuple(b.version, b.ts);
        case NOTS: return a.version < b.version;
        default:  // newest first: version descending, timestamp descending, visible descending
            return std::make_tuple(b.version, b.ts, b.visible) < std::make_tuple(a.version, a.ts, a.visible);
    }
}

static bool lib_less(int cmp, const osmium::OSMObject& a, const osmium::OSMObject& b, bool via_ptr) {
    switch (cmp) {
        case LT: return via_ptr ? osmium::object_order_type_id_version{}(&a, &b) : a < b;
        case NOTS: return via_ptr ? osmium::object_order_type_id_version_without_timestamp{}(&a, &b) : osmium::object_order_type_id_version_without_timestamp{}(a, b);
        default: return via_ptr ? osmium::object_order_type_id_reverse_version{}(&a, &b) : osmium::object_order_type_id_reverse_version{}(a, b);
    }
}

static std::string show_attr(const Attr& a) {
    static const char* tn[] = {"node", "way", "relation", "area"};
    return std::string{tn[a.type_rank]} + "(id=" + std::to_string(a.id) + ",v=" + std::to_string(a.version) + ",ts=" + std::to_string(a.ts) + ",vis=" + (a.visible ? "1" : "0") + ")";
}

struct Matrices {
    // less[g][cmp][a] = bitset over b
    std::vector<std::bitset<N>> less[2][NCMP];
};

static Grid* G[2];
static Matrices* M;

// sub "triples": index = (grid, cmp, a); checks all (b, c)
static void triples(uint64_t idx, vp::Local& L) {
    int a = static_cast<int>(idx % N);
    int cmp = static_cast<int>((idx / N) % NCMP);
    int g = static_cast<int>(idx / (N * NCMP));
    const Grid& gr = *G[g];
    const auto& less = M->less[g][cmp];
    // the matrix row must equal the library called now (both call styles) and the reference model
    for (int b = 0; b < N; ++b) {
        bool lib = lib_less(cmp, *gr.obj[a], *gr.obj[b], false);
        bool libp = lib_less(cmp, *gr.obj[a], *gr.obj[b], true);
        bool ref = ref_less(cmp, gr.attr[a], gr.attr[b]);
        VP_CHECK(lib == libp, "order-ptr-vs-ref", CMP_NAME[cmp] << " differs between reference and pointer call for " << show_attr(gr.attr[a]) << " vs " << show_attr(gr.attr[b]));
        VP_CHECK(lib == ref, "order-model", CMP_NAME[cmp] << "(" << show_attr(gr.attr[a]) << ", " << show_attr(gr.attr[b]) << ") = " << lib << ", documented rule says " << ref);
        VP_CHECK(lib == less[a][b], "order-unstable", "comparator not a pure function");
        // consistency with equality
        bool eq = *gr.obj[a] == *gr.obj[b];
        bool ref_eq = gr.attr[a].type_rank == gr.attr[b].type_rank && gr.attr[a].id == gr.attr[b].id && gr.attr[a].version == gr.attr[b].version;
        VP_CHECK(eq == ref_eq, "equal-model", "operator== wrong for " << show_attr(gr.attr[a]) << " vs " << show_attr(gr.attr[b]));
        VP_CHECK(eq == osmium::object_equal_type_id_version{}(*gr.obj[a], *gr.obj[b]) && eq == osmium::object_equal_type_id_version{}(gr.obj[a], gr.obj[b]), "equal-model", "object_equal_type_id_version differs from operator==");
        bool eq_ti = osmium::object_equal_type_id{}(*gr.obj[a], *gr.obj[b]);
        VP_CHECK(eq_ti == (gr.attr[a].type_rank == gr.attr[b].type_rank && gr.attr[a].id == gr.attr[b].id) && eq_ti == osmium::object_equal_type_id{}(gr.obj[a], gr.obj[b]), "equal-model", "object_equal_type_id wrong");
        VP_CHECK((*gr.obj[a] != *gr.obj[b]) == !eq, "equal-model", "operator!= inconsistent");
        if (cmp == NOTS) {
            // equal objects are exactly the incomparable ones under the order without timestamp
            VP_CHECK(eq == (!less[a][b] && !less[b][a]), "order-vs-equal", "a==b but ordered (or vice versa) for " << show_attr(gr.attr[a]) << " vs " << show_attr(gr.attr[b]));
        } else if (eq_ti == false) {
            VP_CHECK(less[a][b] != less[b][a], "order-vs-equal", "objects differing in type/id must be ordered");
        }
        if (cmp == LT) {
            VP_CHECK((*gr.obj[a] > *gr.obj[b]) == less[b][a] && (*gr.obj[a] <= *gr.obj[b]) == !less[b][a] && (*gr.obj[a] >= *gr.obj[b]) == !less[a][b], "order-derived", "derived relational operators inconsistent");
        }
        // all orders agree on (type,id)
        if (!eq_ti) {
            VP_CHECK(less[a][b] == M->less[g][LT][a][b], "order-agreement", CMP_NAME[cmp] << " disagrees with operator< on type/id for " << show_attr(gr.attr[a]) << " vs " << show_attr(gr.attr[b]));
        } else if (cmp == REV && gr.attr[a].version != gr.attr[b].version) {
            VP_CHECK(less[a][b] == M->less[g][LT][b][a], "order-agreement", "reverse_version is not the reversal of operator< on versions");
        }
    }
    VP_CHECK(!less[a][a], "order-irreflexive", CMP_NAME[cmp] << " not irreflexive for " << show_attr(gr.attr[a]));
    for (int b = 0; b < N; ++b) {
        if (less[a][b]) {
            VP_CHECK(!less[b][a], "order-asymmetric", CMP_NAME[cmp] << " not asymmetric");
            // transitivity: a<b && b<c => a<c  i.e. less[b] subset of less[a]
            VP_CHECK((less[b] & ~less[a]).none(), "order-transitive", CMP_NAME[cmp] << " not transitive from " << show_attr(gr.attr[a]) << " via " << show_attr(gr.attr[b]));
        } else if (!less[b][a]) {
            // a ~ b: incomparability must be transitive: rows and columns identical
            VP_CHECK(less[a] == less[b], "order-incomparability", CMP_NAME[cmp] << ": incomparable objects " << show_attr(gr.attr[a]) << " and " << show_attr(gr.attr[b]) << " order differently against a third");
        }
    }
    L.nontrivial += N;  // N*N triples with a fixed first element; count distinct (a,b) pairs
    L.count("triples_checked", static_cast<uint64_t>(N) * N);
}

// sub "id_order": all pairs over a wider id list, against the int128 rule
static const int64_t IDS2[] = {INT64_MIN, INT64_MIN + 1, INT64_MIN + 2, -(1LL << 32) - 1, -(1LL << 32), -(1LL << 32) + 1, -(1LL << 31), -3, -2, -1, 0, 1, 2, 3,
                               (1LL << 31) - 1, 1LL << 31, (1LL << 32) - 1, 1LL << 32, (1LL << 32) + 1, INT64_MAX - 1, INT64_MAX};
constexpr int NID2 = sizeof(IDS2) / sizeof(IDS2[0]);
static void id_order_check(uint64_t idx, vp::Local& L) {
    int64_t a = IDS2[idx % NID2], b = IDS2[idx / NID2];
    bool lib = osmium::id_order{}(a, b);
    bool ref = id_rank(a) < id_rank(b);
    VP_CHECK(lib == ref, "id-order-model", "id_order(" << a << ", " << b << ") = " << lib << ", documented rule says " << ref);
    ++L.nontrivial;
}

// sub "check_order": sequences of length 1..4 over 30 objects (3 types x 10 ids)
static const int64_t IDS3[] = {INT64_MIN + 1, -(1LL << 32), -2, -1, 0, 1, 2, 1LL << 32, INT64_MAX, -3};
constexpr int NO3 = 30;
static Grid* G3;
static uint64_t n_seq_upto(unsigned len) {
    uint64_t n = 0, p = 1;
    for (unsigned i = 1; i <= len; ++i) {
        p *= NO3;
        n += p;
    }
    return n;
}
static std::vector<int> nth_seq(uint64_t idx) {
    uint64_t p = NO3;
    unsigned len = 1;
    while (idx >= p) {
        idx -= p;
        p *= NO3;
        ++len;
    }
    std::vector<int> s;
    for (unsigned i = 0; i < len; ++i) {
        s.push_back(static_cast<int>(idx % NO3));
        idx /= NO3;
    }
    return s;
}
static bool run_check_order(const std::vector<const osmium::OSMObject*>& objs) {
    osmium::handler::CheckOrder co;
    try {
        for (const auto* o : objs) osmium::apply_item(*o, co);
    } catch (const osmium::out_of_order_error&) {
        return false;
    }
    return true;
}
static void check_order_seq(uint64_t idx, vp::Local& L) {
    std::vector<int> s = nth_seq(idx);
    std::vector<const osmium::OSMObject*> objs;
    bool ref = true;
    size_t first_bad = s.size();  // index of the first object that is not above its predecessor
    for (size_t i = 0; i < s.size(); ++i) {
        objs.push_back(G3->obj[s[i]]);
        if (i > 0) {
            const Attr& p = G3->attr[s[i - 1]];
            const Attr& c = G3->attr[s[i]];
            if (!(std::make_tuple(p.type_rank, id_rank(p.id)) < std::make_tuple(c.type_rank, id_rank(c.id)))) {
                ref = false;
                if (first_bad == s.size()) first_bad = i;
            }
        }
    }
    bool lib = run_check_order(objs);
    std::string d;
    for (int k : s) d += show_attr(G3->attr[k]) + " ";
    if (lib != ref) {
        vp::fail("check-order-model", std::string{"CheckOrder "} + (lib ? "accepts" : "rejects") + " the stream " + d + "but it is " + (ref ? "" : "not ") + "strictly ascending");
    }
    // the same stream object by object: the error comes at the first object that is out of place and names its id; what the checker
    // reports as the largest id per type is the id of the last object of that type it accepted
    {
        osmium::handler::CheckOrder co;
        int64_t last[3] = {0, 0, 0};
        for (size_t i = 0; i < objs.size(); ++i) {
            bool threw = false;
            int64_t named = 0;
            try {
                osmium::apply_item(*objs[i], co);
            } catch (const osmium::out_of_order_error& e) {
                threw = true;
                named = e.object_id;
            }
            VP_CHECK(threw == (i == first_bad), "check-order-position", "CheckOrder " << (threw ? "rejects" : "accepts") << " object #" << i << " of the stream " << d << "; the first object out of place is #" << first_bad);
            if (threw) {
                VP_CHECK(named == G3->attr[s[i]].id, "check-order-position", "the error for object #" << i << " of the stream " << d << " names id " << named);
                break;
            }
            last[G3->attr[s[i]].type_rank] = G3->attr[s[i]].id;
            VP_CHECK(co.max_node_id() == last[0] && co.max_way_id() == last[1] && co.max_relation_id() == last[2], "check-order-max-id",
                     "after object #" << i << " of the stream " << d << ": max_node_id/max_way_id/max_relation_id = " << co.max_node_id() << "/" << co.max_way_id() << "/" << co.max_relation_id() << ", last accepted ids are " << last[0] << "/" << last[1] << "/" << last[2]);
        }
    }
    L.count(ref ? "sorted_stream" : "unsorted_stream");
    ++L.nontrivial;
}

// sub "sort": seeded subsets of the grid, sorted with each order through ObjectPointerCollection
static void sort_check(uint64_t idx, vp::Local& L) {
    vp::Rng r{vp::mix64(idx + 4242)};
    int g = static_cast<int>(r.below(2));
    Grid& gr = *G[g];
    size_t n = 1 + r.below(r.below(3) == 0 ? 300 : 40);
    bool distinct_type_id = r.below(2) == 0;
    std::vector<int> pick;
    std::set<std::pair<int, int64_t>> seen;
    for (size_t i = 0; i < n; ++i) {
        int k = static_cast<int>(r.below(N));
        if (distinct_type_id && !seen.insert({gr.attr[k].type_rank, gr.attr[k].id}).second) continue;
        pick.push_back(k);
    }
    for (int cmp = 0; cmp < NCMP; ++cmp) {
        osmium::ObjectPointerCollection col;
        for (int k : pick) col.osm_object(const_cast<osmium::OSMObject&>(*gr.obj[k]));
        switch (cmp) {
            case LT: col.sort(osmium::object_order_type_id_version{}); break;
            case NOTS: col.sort(osmium::object_order_type_id_version_without_timestamp{}); break;
            default: col.sort(osmium::object_order_type_id_reverse_version{}); break;
        }
        VP_CHECK(col.size() == pick.size(), "sort-permutation", "size changed by sort");
        std::multiset<const osmium::OSMObject*> in, out;
        for (int k : pick) in.insert(gr.obj[k]);
        std::vector<const osmium::OSMObject*> sorted;
        for (auto it = col.cbegin(); it != col.cend(); ++it) {
            out.insert(&*it);
            sorted.push_back(&*it);
        }
        VP_CHECK(in == out, "sort-permutation", "sorted collection is not a permutation of the input");
        auto index_of = [&](const osmium::OSMObject* o) { return static_cast<int>(std::find(gr.obj.begin(), gr.obj.end(), o) - gr.obj.begin()); };
        bool has_area = false, dup = false;
        std::set<std::pair<int, int64_t>> tids;
        for (size_t i = 0; i < sorted.size(); ++i) {
            const Attr& a = gr.attr[index_of(sorted[i])];
            if (a.type_rank == 3) has_area = true;
            if (!tids.insert({a.type_rank, a.id}).second) dup = true;
            if (i > 0) {
                const Attr& p = gr.attr[index_of(sorted[i - 1])];
                VP_CHECK(!ref_less(cmp, a, p), "sort-order", "collection sorted with " << CMP_NAME[cmp] << " has " << show_attr(p) << " before " << show_attr(a));
            }
        }
        (void)has_area;
        // the order checker must accept the sorted stream exactly when (type,id) are distinct (areas are ignored by it)
        std::vector<const osmium::OSMObject*> nwr;
        std::set<std::pair<int, int64_t>> t2;
        bool dup_nwr = false;
        for (auto* o : sorted) {
            const Attr& a = gr.attr[index_of(o)];
            if (a.type_rank == 3) continue;
            nwr.push_back(o);
            if (!t2.insert({a.type_rank, a.id}).second) dup_nwr = true;
        }
        bool acc = run_check_order(nwr);
        VP_CHECK(acc == !dup_nwr, "sort-vs-checkorder", "CheckOrder " << (acc ? "accepts" : "rejects") << " a stream sorted with " << CMP_NAME[cmp] << " (duplicates=" << dup_nwr << ", n=" << nwr.size() << ")");
        L.count(dup ? "sorted_with_duplicates" : "sorted_distinct");
        // unique() with object_equal_type_id keeps the first of each (type,id) run
        if (cmp == REV) {
            col.unique(osmium::object_equal_type_id{});
            VP_CHECK(col.size() == tids.size(), "unique", "unique(object_equal_type_id) left " << col.size() << " objects, expected " << tids.size());
            const osmium::OSMObject* prev = nullptr;
            for (auto it = col.cbegin(); it != col.cend(); ++it) {
                // newest version first => what is kept is the maximum version of its (type,id)
                const Attr& a = gr.attr[index_of(&*it)];
                for (int k : pick) {
                    const Attr& o = gr.attr[k];
                    if (o.type_rank == a.type_rank && o.id == a.id) VP_CHECK(o.version <= a.version, "unique", "unique after reverse_version sort did not keep the newest version");
                }
                prev = &*it;
            }
            (void)prev;
        }
    }
    ++L.nontrivial;
}

int main(int argc, char** argv) {
    vp::parse_args(argc, argv);
    G[0] = make_grid(true);
    G[1] = make_grid(false);
    // CheckOrder sub-grid
    G3 = new Grid;
    {
        std::vector<size_t> offs;
        for (int t = 0; t < 3; ++t)
            for (int i = 0; i < 10; ++i) {
                Attr a{t, IDS3[i], 1, 1000, true};
                offs.push_back(G3->buffer.committed());
                add_object(G3->buffer, a);
                G3->attr.push_back(a);
            }
        for (size_t o : offs) G3->obj.push_back(&G3->buffer.get<osmium::OSMObject>(o));
    }
    M = new Matrices;
    for (int g = 0; g < 2; ++g)
        for (int c = 0; c < NCMP; ++c) {
            M->less[g][c].resize(N);
            for (int a = 0; a < N; ++a)
                for (int b = 0; b < N; ++b) M->less[g][c][a][b] = lib_less(c, *G[g]->obj[a], *G[g]->obj[b], false);
        }
    std::vector<vp::Sub> subs;
    {
        vp::Sub s;
        s.name = "triples";
        s.domain = 2ULL * NCMP * N;
        s.fn = triples;
        s.show = [](uint64_t idx) {
            int a = static_cast<int>(idx % N);
            int cmp = static_cast<int>((idx / N) % NCMP);
            int g = static_cast<int>(idx / (N * NCMP));
            return std::string{CMP_NAME[cmp]} + (g == 0 ? " timestamps set" : " timestamps unset") + " first=" + show_attr(G[g]->attr[a]) + " x all 864x864 (second,third)";
        };
        s.block = 8;
        subs.push_back(s);
    }
    {
        vp::Sub s;
        s.name = "id_order";
        s.domain = NID2 * NID2;
        s.fn = id_order_check;
        s.show = [](uint64_t idx) { return "id_order(" + std::to_string(IDS2[idx % NID2]) + "," + std::to_string(IDS2[idx / NID2]) + ")"; };
        s.block = 16;
        subs.push_back(s);
    }
    {
        vp::Sub s;
        s.name = "check_order";
        s.domain = n_seq_upto(4);
        s.fn = check_order_seq;
        s.show = [](uint64_t idx) {
            std::string d = "stream:";
            for (int k : nth_seq(idx)) d += " " + show_attr(G3->attr[k]);
            return d;
        };
        s.block = 2048;
        subs.push_back(s);
    }
    {
        vp::Sub s;
        s.name = "sort";
        s.domain = 400000;
        s.quick_stride = 20;
        s.fn = sort_check;
        s.show = [](uint64_t idx) { return "seeded subset #" + std::to_string(idx) + " of the 864-object grid, sorted with each order"; };
        s.block = 64;
        subs.push_back(s);
    }
    return vp::run_enum(subs,
                        "enumeration: all triples over the 864-object grid {node,way,relation,area} x 9 ids x 4 versions x 3 timestamps x visible, once with all "
                        "timestamps set and once all unset, for operator<, ..._without_timestamp, ..._reverse_version (comparison matrices, bitset closure checks) and the "
                        "equality predicates; all 21x21 id pairs for id_order; all streams of length<=4 over 30 objects for CheckOrder; seeded subsets through "
                        "ObjectPointerCollection::sort/unique + CheckOrder. Oracle: lexicographic key with __int128 id rank (0, negatives by |id|, positives). "
                        "non-trivial = every (first element, comparator) row / stream / subset; distinct by construction");
}
