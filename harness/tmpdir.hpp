// tmpdir.hpp -- where harnesses put their scratch files: the directory the driver made for this run ($VERIF_TMP, removed by the driver
// when the unit has finished, whatever happened to the processes in it), or /dev/shm when a harness binary is run by hand.
#pragma once

#include <cstdlib>
#include <string>
#include <vector>

#include <dirent.h>
#include <set>
#include <unistd.h>

namespace tmpdir {

inline const std::string& prefix() {
    static const std::string p = [] {
        const char* e = std::getenv("VERIF_TMP");
        return std::string{e && *e ? e : "/dev/shm"} + "/verif-";
    }();
    return p;
}

// unlinks the files registered in it when the scope is left, also by an exception (a failing case must not leave 40 MB files behind)
class Scope {
    std::vector<std::string> m_files;

  public:
    Scope() = default;
    Scope(const Scope&) = delete;
    Scope& operator=(const Scope&) = delete;
    const std::string& add(const std::string& path) {
        m_files.push_back(path);
        return m_files.back();
    }
    ~Scope() {
        for (const auto& f : m_files) ::unlink(f.c_str());
    }
};

// closes, when the scope is left, every file descriptor that was opened inside it and is still open. The file-based index maps of the
// library keep the descriptor they were created with for the life of the process (nothing closes it); a harness process that runs
// thousands of cases would keep every unlinked scratch file alive through them (measured: 15 GB of tmpfs per shard in the thorough tier).
class FdScope {
    std::set<int> m_before;
    static std::set<int> open_fds() {
        std::set<int> fds;
        if (DIR* d = ::opendir("/proc/self/fd")) {
            const int own = ::dirfd(d);
            while (const dirent* e = ::readdir(d)) {
                if (e->d_name[0] < '0' || e->d_name[0] > '9') continue;
                const int fd = std::atoi(e->d_name);
                if (fd != own) fds.insert(fd);
            }
            ::closedir(d);
        }
        return fds;
    }

  public:
    FdScope() : m_before(open_fds()) {}
    FdScope(const FdScope&) = delete;
    FdScope& operator=(const FdScope&) = delete;
    ~FdScope() {
        for (int fd : open_fds())
            if (!m_before.count(fd)) ::close(fd);
    }
};

}  // namespace tmpdir
