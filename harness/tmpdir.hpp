// tmpdir.hpp -- where harnesses put their scratch files: the directory the driver made for this run ($VERIF_TMP, removed by the driver
// when the unit has finished, whatever happened to the processes in it), or /dev/shm when a harness binary is run by hand.
#pragma once

#include <cstdlib>
#include <string>
#include <vector>

#include <unistd.h>

namespace tmpdir {

inline const std::string& prefix() {
    static const std::string p = [] {
        const char* e = std::getenv("VERIF_TMP");
        return std::string{e && *e ? e : "/dev/shm"} + "/verif-";
    }();
    return p;
}

// unlinks the files registered in it when the scope is left, also by an exception (a failing case must not leave 40 MB files behind)
class Scope {
    std::vector<std::string> m_files;

  public:
    Scope() = default;
    Scope(const Scope&) = delete;
    Scope& operator=(const Scope&) = delete;
    const std::string& add(const std::string& path) {
        m_files.push_back(path);
        return m_files.back();
    }
    ~Scope() {
        for (const auto& f : m_files) ::unlink(f.c_str());
    }
};

}  // namespace tmpdir
