// C17: geometry exports encode exactly the object's coordinates in every output format.
#include "gen.hpp"

#include <osmium/geom/geojson.hpp>
#include <osmium/geom/mercator_projection.hpp>
#include <osmium/geom/wkb.hpp>
#include <osmium/geom/wkt.hpp>

#include <cmath>

using vp::Src;
using i128 = __int128;
using u128 = unsigned __int128;

struct Pt {
    double x, y;
    bool operator==(const Pt& o) const { return std::memcmp(&x, &o.x, 8) == 0 && std::memcmp(&y, &o.y, 8) == 0; }
};
using RingD = std::vector<Pt>;
struct Geom {
    int kind = 0;  // 1 point 2 linestring 3 polygon 6 multipolygon
    std::vector<std::vector<RingD>> polys;  // point/linestring: polys[0][0]
};
// the same structure with textual numbers
using RingS = std::vector<std::pair<std::string, std::string>>;
struct GeomS {
    int kind = 0;
    std::vector<std::vector<RingS>> polys;
    bool operator==(const GeomS& o) const { return kind == o.kind && polys == o.polys; }
};

// ---------------------------------------------------------------- exact reference for "%.*f" + zero stripping
static std::string u128_to_string(u128 v) {
    if (v == 0) return "0";
    std::string s;
    while (v > 0) {
        s += static_cast<char>('0' + static_cast<int>(v % 10));
        v /= 10;
    }
    std::reverse(s.begin(), s.end());
    return s;
}

// exact decimal rounding (round-half-even on the exact binary value, as a correctly rounding printf does); |v| < 2^40
static std::string ref_format(double v, int precision) {
    bool neg = std::signbit(v);
    double a = std::fabs(v);
    int e;
    double fr = std::frexp(a, &e);  // a = fr * 2^e, fr in [0.5,1)
    uint64_t M = static_cast<uint64_t>(std::ldexp(fr, 53));  // exact 53-bit integer
    int E = e - 53;                                          // a = M * 2^E
    u128 N = M;
    for (int i = 0; i < precision; ++i) N *= 10;
    u128 q;
    if (a == 0) {
        q = 0;
    } else if (E >= 0) {
        q = N << E;
    } else {
        int k = -E;
        if (k >= 127) {
            q = 0;  // N < 2^110, far below half an ulp of the last printed digit
        } else {
            q = N >> k;
            u128 rem = N & ((static_cast<u128>(1) << k) - 1);
            u128 half = static_cast<u128>(1) << (k - 1);
            if (rem > half || (rem == half && (q & 1))) ++q;
        }
    }
    std::string digits = u128_to_string(q);
    if (precision > 0) {
        while (static_cast<int>(digits.size()) <= precision) digits = "0" + digits;
        digits.insert(digits.size() - static_cast<size_t>(precision), ".");
        while (digits.back() == '0') digits.pop_back();
        if (digits.back() == '.') digits.pop_back();
    }
    return (neg ? "-" : "") + digits;
}

// ---------------------------------------------------------------- decoders
struct DecodeError : std::exception {
    std::string msg;
    explicit DecodeError(std::string m) : msg(std::move(m)) {}
    const char* what() const noexcept override { return msg.c_str(); }
};

struct WkbReader {
    const std::string& d;
    size_t pos = 0;
    template <typename T>
    T rd() {
        if (pos + sizeof(T) > d.size()) throw DecodeError("WKB truncated at " + std::to_string(pos));
        T v;
        std::memcpy(&v, d.data() + pos, sizeof(T));
        pos += sizeof(T);
        return v;
    }
    uint32_t head(bool ewkb, int srid, uint32_t want_type) {
        uint8_t bo = rd<uint8_t>();
        if (bo != 1) throw DecodeError("byte order " + std::to_string(bo));
        uint32_t t = rd<uint32_t>();
        if (ewkb) {
            if (!(t & 0x20000000u)) throw DecodeError("EWKB without SRID flag");
            t &= ~0x20000000u;
            int32_t s = rd<int32_t>();
            if (s != srid) throw DecodeError("SRID " + std::to_string(s) + " expected " + std::to_string(srid));
        }
        if (t != want_type) throw DecodeError("geometry type " + std::to_string(t) + " expected " + std::to_string(want_type));
        return t;
    }
    RingD ring() {
        uint32_t n = rd<uint32_t>();
        RingD r;
        for (uint32_t i = 0; i < n; ++i) {
            Pt p;
            p.x = rd<double>();
            p.y = rd<double>();
            r.push_back(p);
        }
        return r;
    }
};

static std::string unhex(const std::string& h) {
    if (h.size() % 2) throw DecodeError("odd hex length");
    std::string o;
    auto val = [](char c) -> int {
        if (c >= '0' && c <= '9') return c - '0';
        if (c >= 'A' && c <= 'F') return c - 'A' + 10;
        throw DecodeError("bad hex digit");
    };
    for (size_t i = 0; i < h.size(); i += 2) o += static_cast<char>(val(h[i]) * 16 + val(h[i + 1]));
    return o;
}

static Geom decode_wkb(const std::string& data, int kind, bool ewkb, int srid) {
    WkbReader r{data};
    Geom g;
    g.kind = kind;
    switch (kind) {
        case 1: {
            r.head(ewkb, srid, 1);
            Pt p;
            p.x = r.rd<double>();
            p.y = r.rd<double>();
            g.polys = {{{p}}};
            break;
        }
        case 2:
            r.head(ewkb, srid, 2);
            g.polys = {{r.ring()}};
            break;
        case 3: {
            r.head(ewkb, srid, 3);
            uint32_t nr = r.rd<uint32_t>();
            std::vector<RingD> rings;
            for (uint32_t i = 0; i < nr; ++i) rings.push_back(r.ring());
            g.polys = {rings};
            break;
        }
        default: {
            r.head(ewkb, srid, 6);
            uint32_t np = r.rd<uint32_t>();
            for (uint32_t p = 0; p < np; ++p) {
                r.head(ewkb, srid, 3);
                uint32_t nr = r.rd<uint32_t>();
                std::vector<RingD> rings;
                for (uint32_t i = 0; i < nr; ++i) rings.push_back(r.ring());
                g.polys.push_back(rings);
            }
            break;
        }
    }
    if (r.pos != data.size()) throw DecodeError("WKB has " + std::to_string(data.size() - r.pos) + " bytes after the geometry");
    return g;
}

struct TextReader {
    const std::string& s;
    size_t pos = 0;
    bool eat(const std::string& lit) {
        if (s.compare(pos, lit.size(), lit) == 0) {
            pos += lit.size();
            return true;
        }
        return false;
    }
    void need(const std::string& lit) {
        if (!eat(lit)) throw DecodeError("expected '" + lit + "' at " + std::to_string(pos) + " in " + s.substr(0, 200));
    }
    std::string number() {
        size_t st = pos;
        if (pos < s.size() && s[pos] == '-') ++pos;
        while (pos < s.size() && ((s[pos] >= '0' && s[pos] <= '9') || s[pos] == '.')) ++pos;
        if (pos == st) throw DecodeError("expected number at " + std::to_string(pos) + " in " + s.substr(0, 200));
        return s.substr(st, pos - st);
    }
};

static RingS wkt_ring(TextReader& t) {
    RingS r;
    t.need("(");
    for (;;) {
        std::string x = t.number();
        t.need(" ");
        std::string y = t.number();
        r.emplace_back(x, y);
        if (t.eat(")")) break;
        t.need(",");
    }
    return r;
}

static GeomS decode_wkt(const std::string& str, int kind, bool ewkt, int srid) {
    TextReader t{str};
    if (ewkt) t.need("SRID=" + std::to_string(srid) + ";");
    GeomS g;
    g.kind = kind;
    switch (kind) {
        case 1:
            t.need("POINT");
            g.polys = {{wkt_ring(t)}};
            if (g.polys[0][0].size() != 1) throw DecodeError("POINT with several coordinates");
            break;
        case 2:
            t.need("LINESTRING");
            g.polys = {{wkt_ring(t)}};
            break;
        case 3: {
            t.need("POLYGON(");
            std::vector<RingS> rings;
            for (;;) {
                rings.push_back(wkt_ring(t));
                if (t.eat(")")) break;
                t.need(",");
            }
            g.polys = {rings};
            break;
        }
        default: {
            t.need("MULTIPOLYGON(");
            for (;;) {
                t.need("(");
                std::vector<RingS> rings;
                for (;;) {
                    rings.push_back(wkt_ring(t));
                    if (t.eat(")")) break;
                    t.need(",");
                }
                g.polys.push_back(rings);
                if (t.eat(")")) break;
                t.need(",");
            }
            break;
        }
    }
    if (t.pos != str.size()) throw DecodeError("trailing text after WKT geometry: " + str.substr(t.pos, 40));
    return g;
}

static std::pair<std::string, std::string> json_pos(TextReader& t) {
    t.need("[");
    std::string x = t.number();
    t.need(",");
    std::string y = t.number();
    t.need("]");
    return {x, y};
}
static RingS json_ring(TextReader& t) {
    RingS r;
    t.need("[");
    for (;;) {
        r.push_back(json_pos(t));
        if (t.eat("]")) break;
        t.need(",");
    }
    return r;
}
static GeomS decode_json(const std::string& str, int kind) {
    TextReader t{str};
    GeomS g;
    g.kind = kind;
    switch (kind) {
        case 1:
            t.need("{\"type\":\"Point\",\"coordinates\":");
            g.polys = {{{json_pos(t)}}};
            break;
        case 2:
            t.need("{\"type\":\"LineString\",\"coordinates\":");
            g.polys = {{json_ring(t)}};
            break;
        case 3: {
            t.need("{\"type\":\"Polygon\",\"coordinates\":[");
            std::vector<RingS> rings;
            for (;;) {
                rings.push_back(json_ring(t));
                if (t.eat("]")) break;
                t.need(",");
            }
            g.polys = {rings};
            break;
        }
        default: {
            t.need("{\"type\":\"MultiPolygon\",\"coordinates\":[");
            for (;;) {
                t.need("[");
                std::vector<RingS> rings;
                for (;;) {
                    rings.push_back(json_ring(t));
                    if (t.eat("]")) break;
                    t.need(",");
                }
                g.polys.push_back(rings);
                if (t.eat("]")) break;
                t.need(",");
            }
            break;
        }
    }
    t.need("}");
    if (t.pos != str.size()) throw DecodeError("trailing text after GeoJSON geometry");
    return g;
}

// ---------------------------------------------------------------- expectation from the model
enum class Want { ok, geometry_error, invalid_location };

struct Expect {
    Want want = Want::ok;
    std::vector<std::vector<std::vector<model::Loc>>> polys;
};

static std::vector<model::Loc> process_list(const std::vector<model::NodeRef>& refs, bool unique, bool backward, Want& w) {
    std::vector<model::Loc> seq;
    for (const auto& r : refs) seq.push_back(r.loc);
    if (backward) std::reverse(seq.begin(), seq.end());
    std::vector<model::Loc> out;
    for (const auto& l : seq) {
        if (unique && !out.empty() && out.back() == l) continue;
        if (!l.valid()) {
            w = Want::invalid_location;
            return out;
        }
        out.push_back(l);
    }
    return out;
}

template <typename TProj>
static Pt project(const model::Loc& l) {
    TProj proj;
    osmium::geom::Coordinates c = proj(model::to_location(l));
    return Pt{c.x, c.y};
}

static std::string show_locs(const std::vector<model::NodeRef>& refs) {
    std::string s;
    for (size_t i = 0; i < refs.size() && i < 12; ++i) s += " " + model::show_loc(refs[i].loc);
    if (refs.size() > 12) s += " ...(" + std::to_string(refs.size()) + ")";
    return s;
}

struct Formats {
    int precision;
    bool ewkb, hex, ewkt;
};

template <typename TProj>
struct Factories {
    osmium::geom::WKBFactory<TProj> wkb;
    osmium::geom::WKTFactory<TProj> wkt;
    osmium::geom::GeoJSONFactory<TProj> json;
    explicit Factories(const Formats& f)
        : wkb(f.ewkb ? osmium::geom::wkb_type::ewkb : osmium::geom::wkb_type::wkb, f.hex ? osmium::geom::out_type::hex : osmium::geom::out_type::binary),
          wkt(f.precision, f.ewkt ? osmium::geom::wkt_type::ewkt : osmium::geom::wkt_type::wkt),
          json(f.precision) {}
};

template <typename TProj, typename FWkb, typename FWkt, typename FJson>
static void check_geometry(const char* what, int kind, const Expect& ex, const Formats& fm, int srid, FWkb call_wkb, FWkt call_wkt, FJson call_json, const std::string& desc) {
    // every encoder is run separately: outcome (result or exception type) must match the expectation
    auto run = [&](auto call, const char* enc, std::string& out) -> Want {
        try {
            out = call();
        } catch (const osmium::geometry_error&) {
            return Want::geometry_error;
        } catch (const osmium::invalid_location&) {
            return Want::invalid_location;
        }
        (void)enc;
        return Want::ok;
    };
    std::string o_wkb, o_wkt, o_json;
    Want w1 = run(call_wkb, "wkb", o_wkb);
    Want w2 = run(call_wkt, "wkt", o_wkt);
    Want w3 = run(call_json, "geojson", o_json);
    auto name = [](Want w) { return w == Want::ok ? "a geometry" : w == Want::geometry_error ? "geometry_error" : "invalid_location"; };
    VP_CHECK(w1 == ex.want, "geom-outcome", what << " (WKB): got " << name(w1) << ", expected " << name(ex.want) << " | " << desc);
    VP_CHECK(w2 == ex.want, "geom-outcome", what << " (WKT): got " << name(w2) << ", expected " << name(ex.want) << " | " << desc);
    VP_CHECK(w3 == ex.want, "geom-outcome", what << " (GeoJSON): got " << name(w3) << ", expected " << name(ex.want) << " | " << desc);
    if (ex.want != Want::ok) {
        vp::count(ex.want == Want::geometry_error ? "rejected_geometry_error" : "rejected_invalid_location");
        return;
    }
    // expected doubles and texts
    Geom want_d;
    GeomS want_s;
    want_d.kind = want_s.kind = kind;
    for (const auto& poly : ex.polys) {
        std::vector<RingD> rd;
        std::vector<RingS> rs;
        for (const auto& ring : poly) {
            RingD r1;
            RingS r2;
            for (const auto& l : ring) {
                Pt p = project<TProj>(l);
                r1.push_back(p);
                r2.emplace_back(ref_format(p.x, fm.precision), ref_format(p.y, fm.precision));
            }
            rd.push_back(r1);
            rs.push_back(r2);
        }
        want_d.polys.push_back(rd);
        want_s.polys.push_back(rs);
    }
    try {
        Geom got = decode_wkb(fm.hex ? unhex(o_wkb) : o_wkb, kind, fm.ewkb, srid);
        bool same = got.polys.size() == want_d.polys.size();
        for (size_t p = 0; same && p < got.polys.size(); ++p) {
            same = got.polys[p].size() == want_d.polys[p].size();
            for (size_t r = 0; same && r < got.polys[p].size(); ++r) same = got.polys[p][r] == want_d.polys[p][r];
        }
        if (!same) {
            std::string d = "decoded ";
            for (const auto& p : got.polys) {
                d += "[";
                for (const auto& r : p) d += "(" + std::to_string(r.size()) + " pts)";
                d += "]";
            }
            d += " expected ";
            for (const auto& p : want_d.polys) {
                d += "[";
                for (const auto& r : p) d += "(" + std::to_string(r.size()) + " pts)";
                d += "]";
            }
            vp::fail("geom-wkb", std::string{what} + ": WKB decodes to a different geometry: " + d + " | " + desc);
        }
    } catch (const DecodeError& e) {
        vp::fail("geom-wkb", std::string{what} + ": WKB output is not decodable: " + e.what() + " | " + desc);
    }
    try {
        GeomS got = decode_wkt(o_wkt, kind, fm.ewkt, srid);
        if (!(got == want_s)) vp::fail("geom-wkt", std::string{what} + ": WKT differs: got " + o_wkt.substr(0, 300) + " | first expected number " + (want_s.polys.empty() ? "" : want_s.polys[0][0][0].first) + " | " + desc);
    } catch (const DecodeError& e) {
        vp::fail("geom-wkt", std::string{what} + ": WKT output is not parseable: " + e.what() + " | " + desc);
    }
    try {
        GeomS got = decode_json(o_json, kind);
        if (!(got == want_s)) vp::fail("geom-geojson", std::string{what} + ": GeoJSON differs: got " + o_json.substr(0, 300) + " | " + desc);
    } catch (const DecodeError& e) {
        vp::fail("geom-geojson", std::string{what} + ": GeoJSON output is not parseable: " + e.what() + " | " + desc);
    }
    vp::count("encoded_ok");
}

static model::Loc gen_loc(Src& s, bool allow_bad) {
    if (allow_bad && s.chance(1, 14)) return model::Loc{};  // undefined
    if (allow_bad && s.chance(1, 20)) {
        model::Loc l;  // defined but invalid
        l.x = static_cast<int32_t>(gen::bint(s, 1800000001, 2147483646));
        l.y = static_cast<int32_t>(gen::bint(s, -900000000, 900000000));
        if (s.boolean()) {
            l.x = static_cast<int32_t>(gen::bint(s, -1800000000, 1800000000));
            l.y = -static_cast<int32_t>(gen::bint(s, 900000001, 2147483646));
        }
        return l;
    }
    model::Loc l;
    l.x = static_cast<int32_t>(gen::bint(s, -1800000000, 1800000000, {0, 1791234567, -1791234567, 1, -1}));
    l.y = static_cast<int32_t>(gen::bint(s, -900000000, 900000000, {0, 850511288, -850511288, 1, -1, 780000000}));
    return l;
}

static std::vector<model::NodeRef> gen_list(Src& s, bool allow_bad, size_t min_len) {
    std::vector<model::NodeRef> refs;
    size_t n = min_len + s.size(40);
    if (s.chance(1, 10)) {  // long lists: the element counts of the binary formats and the text buffers have to keep up
        static const size_t longer[] = {99, 100, 101, 127, 128, 129, 255, 256, 257, 1000, 2000, 5000};
        n = s.chance(1, 2) ? longer[s.draw(sizeof(longer) / sizeof(longer[0]))] : 100 + s.draw(400);
        if (s.chance(3, 4)) allow_bad = false;  // (one bad location anywhere makes the whole geometry an error)
    }
    model::Loc prev = gen_loc(s, allow_bad);
    for (size_t i = 0; i < n; ++i) {
        model::Loc l = (i > 0 && s.chance(1, 3)) ? prev : gen_loc(s, allow_bad);  // runs of duplicates at start, middle and end
        refs.push_back(model::NodeRef{static_cast<int64_t>(i + 1), l});
        prev = l;
    }
    return refs;
}

template <typename TProj>
static void run_case(Src& s, const char* projname) {
    Formats fm;
    fm.precision = static_cast<int>(s.draw(18));
    fm.ewkb = s.boolean();
    fm.hex = s.boolean();
    fm.ewkt = s.boolean();
    Factories<TProj> f{fm};
    const int srid = f.wkb.epsg();
    const bool mercator = srid == 3857;
    std::string base = std::string{projname} + " precision=" + std::to_string(fm.precision) + (fm.ewkb ? " ewkb" : " wkb") + (fm.hex ? " hex" : " binary") + (fm.ewkt ? " ewkt" : " wkt");
    size_t ops = 1 + s.draw(5);  // the same factory objects are re-used across operations, also after exceptions
    std::string alldesc = base;
    bool nontrivial = false;
    for (size_t op = 0; op < ops; ++op) {
        osmium::memory::Buffer buf{1024, osmium::memory::Buffer::auto_grow::yes};
        switch (s.weighted({2, 5, 3, 4})) {
            case 0: {  // point
                model::Loc l = gen_loc(s, true);
                if (mercator && l.valid() && (l.y == 900000000 || l.y == -900000000)) l.y = 0;  // +-90 degrees projects to infinity
                Expect ex;
                ex.want = l.valid() ? Want::ok : Want::invalid_location;
                ex.polys = {{{l}}};
                std::string desc = alldesc + " | point " + model::show_loc(l);
                model::Obj n;
                n.type = model::NODE;
                n.id = 5;
                n.loc = l;
                model::add_to_buffer(buf, n);
                const auto& node = buf.get<osmium::Node>(0);
                int variant = static_cast<int>(s.draw(3));
                osmium::NodeRef nr{7, model::to_location(l)};
                check_geometry<TProj>(
                    "create_point", 1, ex, fm, srid,
                    [&] { return variant == 0 ? f.wkb.create_point(node) : variant == 1 ? f.wkb.create_point(node.location()) : f.wkb.create_point(nr); },
                    [&] { return variant == 0 ? f.wkt.create_point(node) : variant == 1 ? f.wkt.create_point(node.location()) : f.wkt.create_point(nr); },
                    [&] { return variant == 0 ? f.json.create_point(node) : variant == 1 ? f.json.create_point(node.location()) : f.json.create_point(nr); }, desc);
                alldesc += " | point";
                break;
            }
            case 1:
            case 2: {  // linestring / polygon from a way
                bool polygon = false;
                // (weighted index 1 = linestring, 2 = polygon is decided below to keep one code path)
                polygon = s.chance(3, 8);
                bool unique = s.boolean(), backward = s.boolean();
                std::vector<model::NodeRef> refs = gen_list(s, true, s.chance(1, 6) ? 0 : 2);
                if (mercator)
                    for (auto& r : refs)
                        if (r.loc.valid() && (r.loc.y == 900000000 || r.loc.y == -900000000)) r.loc.y = 12345;
                Expect ex;
                std::vector<model::Loc> seq = process_list(refs, unique, backward, ex.want);
                if (ex.want == Want::ok && seq.size() < (polygon ? 4u : 2u)) ex.want = Want::geometry_error;
                ex.polys = {{seq}};
                model::Obj w;
                w.type = model::WAY;
                w.id = 9;
                w.refs = refs;
                model::add_to_buffer(buf, w);
                const auto& way = buf.get<osmium::Way>(0);
                auto un = unique ? osmium::geom::use_nodes::unique : osmium::geom::use_nodes::all;
                auto dir = backward ? osmium::geom::direction::backward : osmium::geom::direction::forward;
                bool via_list = s.boolean();
                std::string desc = alldesc + " | " + (polygon ? "polygon" : "linestring") + (unique ? " unique" : " all") + (backward ? " backward" : " forward") + " nodes:" + show_locs(refs);
                if (polygon) {
                    check_geometry<TProj>(
                        "create_polygon", 3, ex, fm, srid, [&] { return via_list ? f.wkb.create_polygon(way.nodes(), un, dir) : f.wkb.create_polygon(way, un, dir); },
                        [&] { return via_list ? f.wkt.create_polygon(way.nodes(), un, dir) : f.wkt.create_polygon(way, un, dir); },
                        [&] { return via_list ? f.json.create_polygon(way.nodes(), un, dir) : f.json.create_polygon(way, un, dir); }, desc);
                } else {
                    check_geometry<TProj>(
                        "create_linestring", 2, ex, fm, srid, [&] { return via_list ? f.wkb.create_linestring(way.nodes(), un, dir) : f.wkb.create_linestring(way, un, dir); },
                        [&] { return via_list ? f.wkt.create_linestring(way.nodes(), un, dir) : f.wkt.create_linestring(way, un, dir); },
                        [&] { return via_list ? f.json.create_linestring(way.nodes(), un, dir) : f.json.create_linestring(way, un, dir); }, desc);
                }
                if (refs.size() > seq.size() && ex.want == Want::ok) nontrivial = true;
                alldesc += std::string{" | "} + (polygon ? "polygon" : "linestring") + "(" + std::to_string(refs.size()) + ")";
                break;
            }
            default: {  // multipolygon from an area
                model::Obj a;
                a.type = model::AREA;
                a.id = 11;
                size_t nouter = s.chance(1, 8) ? 0 : 1 + s.draw(4);
                Expect ex;
                bool bad = s.chance(1, 5);
                for (size_t o = 0; o < nouter; ++o) {
                    size_t ninner = s.draw(4);
                    std::vector<std::vector<model::Loc>> poly;
                    for (size_t r = 0; r <= ninner; ++r) {
                        model::Ring ring;
                        ring.outer = r == 0;
                        ring.refs = gen_list(s, bad, 4);
                        // rings that touch the ring stored before them in its start/end node (state that leaks from one ring to
                        // the next -- duplicate suppression, counters -- shows here)
                        if (!a.rings.empty() && s.chance(1, 3)) ring.refs.front().loc = a.rings.back().refs.back().loc;
                        if (mercator)
                            for (auto& x : ring.refs)
                                if (x.loc.valid() && (x.loc.y == 900000000 || x.loc.y == -900000000)) x.loc.y = 777;
                        // rings are closed
                        ring.refs.push_back(ring.refs.front());
                        a.rings.push_back(ring);
                        Want w = Want::ok;
                        std::vector<model::Loc> seq = process_list(ring.refs, true, false, w);
                        if (w != Want::ok && ex.want == Want::ok) ex.want = w;
                        poly.push_back(seq);
                    }
                    ex.polys.push_back(poly);
                }
                if (nouter == 0) ex.want = Want::geometry_error;
                model::add_to_buffer(buf, a);
                const auto& area = buf.get<osmium::Area>(0);
                std::string desc = alldesc + " | multipolygon outer=" + std::to_string(nouter) + " rings=" + std::to_string(a.rings.size()) + (a.rings.empty() ? "" : " first ring:" + show_locs(a.rings[0].refs));
                check_geometry<TProj>(
                    "create_multipolygon", 6, ex, fm, srid, [&] { return f.wkb.create_multipolygon(area); }, [&] { return f.wkt.create_multipolygon(area); },
                    [&] { return f.json.create_multipolygon(area); }, desc);
                if (a.rings.size() >= 2 && ex.want == Want::ok) nontrivial = true;
                alldesc += " | multipolygon(" + std::to_string(a.rings.size()) + " rings)";
                break;
            }
        }
    }
    if (vp::want_desc()) vp::describe(alldesc);
    if (nontrivial) vp::nontrivial(vp::hash_str(alldesc) ^ s.used().size() * 1315423911ULL ^ vp::hash_bytes(s.used().data(), s.used().size() * 8));
    vp::count(std::string{"proj_"} + projname);
    vp::count("precision_" + std::to_string(fm.precision));
}

static void prop(Src& s) {
    if (s.boolean()) run_case<osmium::geom::IdentityProjection>(s, "identity");
    else run_case<osmium::geom::MercatorProjection>(s, "mercator");
}

// direct check of double2string against the exact reference (the number formatter behind WKT and GeoJSON)
VP_BUILTIN(F19_double2string_long_numbers) {
    const double values[] = {-179.1234567, 179.1234567, 20037508.342789244, -20037508.342789244, 0.1, -0.00000001, 123456789.987654321, 1e15, -1e15 - 0.5, 1099511627775.5, 0.0, -0.0};
    for (double v : values)
        for (int p = 0; p <= 17; ++p) {
            std::string got;
            osmium::double2string(got, v, p);
            std::string want = ref_format(v, p);
            VP_CHECK(got == want, "geom-number", "double2string(" << v << ", " << p << ") = '" << got << "' expected '" << want << "'");
        }
}

VP_BUILTIN(F20_leading_undefined_location) {
    osmium::geom::WKTFactory<> f;
    for (int which = 0; which < 2; ++which) {
        osmium::memory::Buffer buf{1024, osmium::memory::Buffer::auto_grow::yes};
        model::Obj w;
        w.type = model::WAY;
        w.id = 1;
        w.refs = {model::NodeRef{2, model::Loc{10, 10}}, model::NodeRef{3, model::Loc{20, 20}}, model::NodeRef{4, model::Loc{30, 5}}, model::NodeRef{5, model::Loc{10, 10}}};
        // undefined location first (forward) resp. last (backward): the first one the factory looks at
        if (which == 0) w.refs.insert(w.refs.begin(), model::NodeRef{1, model::Loc{}});
        else w.refs.push_back(model::NodeRef{6, model::Loc{}});
        model::add_to_buffer(buf, w);
        auto dir = which == 0 ? osmium::geom::direction::forward : osmium::geom::direction::backward;
        bool threw = false;
        try {
            f.create_linestring(buf.get<osmium::Way>(0), osmium::geom::use_nodes::unique, dir);
        } catch (const osmium::invalid_location&) {
            threw = true;
        }
        VP_CHECK(threw, "geom-outcome", "linestring over a node list starting with an undefined location was accepted in unique mode (direction " << which << ")");
        threw = false;
        try {
            f.create_polygon(buf.get<osmium::Way>(0), osmium::geom::use_nodes::unique, dir);
        } catch (const osmium::invalid_location&) {
            threw = true;
        }
        VP_CHECK(threw, "geom-outcome", "polygon over a node list starting with an undefined location was accepted in unique mode (direction " << which << ")");
    }
}

VP_MAIN(prop, "generated node lists (length 0..42, one in ten 99..5000, with runs of duplicate locations at start/middle/end, undefined and invalid locations at any index) and areas (0..4 outer rings each with 0..3 "
              "inner rings) x {unique, all} x {forward, backward} x {identity, Web-Mercator} x precision 0..17 x {WKB, EWKB} x {binary, hex} x {WKT, EWKT} x GeoJSON, several operations per "
              "factory object (state leakage after exceptions); oracle: harness decoders for WKB/WKT/GeoJSON recover the point sequences, expected sequence from the model (dedupe, reverse, "
              "ring grouping), WKB doubles bit-exact, text numbers equal an exact __int128 round-half-even decimal expansion of the double; degenerate inputs must throw geometry_error / "
              "invalid_location. non-trivial = duplicates actually removed or >= 2 rings; distinct by hash of the choice sequence")
