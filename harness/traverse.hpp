// traverse.hpp -- read arbitrary bytes through the real Reader and touch everything a user's loop would touch.
//
// Every buffer the Reader delivers goes first through the independent layout walker (walker.hpp: no item, sub-item or string
// may leave its parent) and then through a complete libosmium traversal (user, tags, node refs, members with roles and full
// members, discussion comments, strlen of every string) so that ASan sees what a user would read.
#pragma once

#include "walker.hpp"

#include <osmium/io/any_input.hpp>
#include <osmium/io/reader.hpp>
#include <osmium/thread/pool.hpp>

namespace traverse {

struct Outcome {
    size_t objects = 0;
    size_t buffers = 0;
    bool threw = false;
    bool header_threw = false;
    std::string what;
    std::string layout_error;  // non-empty: a delivered buffer is malformed (violation)
    uint64_t checksum = 0;
};

inline uint64_t touch_string(const char* s) {
    uint64_t h = std::strlen(s);
    for (const char* p = s; *p; ++p) h = h * 131 + static_cast<unsigned char>(*p);
    return h;
}

inline uint64_t touch_tags(const osmium::TagList& tags) {
    uint64_t h = 0;
    for (const auto& t : tags) h += touch_string(t.key()) * 3 + touch_string(t.value());
    return h;
}

inline uint64_t touch_object(const osmium::OSMObject& o);

inline uint64_t touch_entity(const osmium::OSMEntity& e) {
    switch (e.type()) {
        case osmium::item_type::node:
        case osmium::item_type::way:
        case osmium::item_type::relation:
        case osmium::item_type::area:
            return touch_object(static_cast<const osmium::OSMObject&>(e));
        case osmium::item_type::changeset: {
            const auto& c = static_cast<const osmium::Changeset&>(e);
            uint64_t h = c.id() + c.uid() + c.num_changes() + c.num_comments() + static_cast<uint32_t>(c.created_at()) + static_cast<uint32_t>(c.closed_at());
            h += touch_string(c.user());
            h += touch_tags(c.tags());
            h += static_cast<uint64_t>(c.bounds().bottom_left().x()) + static_cast<uint64_t>(c.bounds().top_right().y());
            for (const auto& cm : c.discussion()) h += touch_string(cm.user()) + touch_string(cm.text()) + cm.uid() + static_cast<uint32_t>(cm.date());
            return h;
        }
        default:
            return 1;
    }
}

inline uint64_t touch_object(const osmium::OSMObject& o) {
    uint64_t h = static_cast<uint64_t>(o.id()) + o.version() + o.uid() + o.changeset() + static_cast<uint32_t>(o.timestamp()) + (o.visible() ? 1 : 0);
    h += touch_string(o.user());
    h += touch_tags(o.tags());
    if (o.type() == osmium::item_type::node) {
        const auto& n = static_cast<const osmium::Node&>(o);
        h += static_cast<uint64_t>(n.location().x()) * 7 + static_cast<uint64_t>(n.location().y());
    } else if (o.type() == osmium::item_type::way) {
        for (const auto& nr : static_cast<const osmium::Way&>(o).nodes()) h += static_cast<uint64_t>(nr.ref()) + static_cast<uint64_t>(nr.location().x());
    } else if (o.type() == osmium::item_type::relation) {
        for (const auto& m : static_cast<const osmium::Relation&>(o).members()) {
            h += static_cast<uint64_t>(m.ref()) + static_cast<uint64_t>(m.type()) + touch_string(m.role());
            if (m.full_member()) h += touch_object(m.get_object());
        }
    }
    return h;
}

// Reads `size` bytes as a file of the given format. Never throws for input-caused conditions: the outcome says what happened.
inline Outcome read_bytes(const char* data, size_t size, const std::string& format, osmium::thread::Pool& pool,
                          osmium::osm_entity_bits::type entities = osmium::osm_entity_bits::all) {
    Outcome out;
    try {
        osmium::io::File file{data, size, format};
        osmium::io::Reader reader{file, entities, pool};
        try {
            osmium::io::Header h = reader.header();
            out.checksum += touch_string(h.get("generator").c_str());
            for (const auto& b : h.boxes()) out.checksum += static_cast<uint64_t>(b.bottom_left().x());
        } catch (const std::exception& e) {
            out.header_threw = true;
            out.what = e.what();
        }
        while (osmium::memory::Buffer buf = reader.read()) {
            ++out.buffers;
            try {
                auto objs = walker::walk(buf.data(), buf.committed());
                out.objects += objs.size();
            } catch (const walker::Error& e) {
                out.layout_error = e.what();
                return out;  // do not traverse a malformed buffer with libosmium: the walker already proved the violation
            }
            for (const auto& e : buf) out.checksum += touch_entity(e);
        }
        reader.close();
    } catch (const std::exception& e) {
        out.threw = true;
        out.what = e.what();
    }
    return out;
}

}  // namespace traverse
