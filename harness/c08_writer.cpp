// C08: the Writer produces the complete file or throws; OS write errors are never lost (fault enumeration).
//
// The harness executable defines write(), fsync() and close() itself (forwarding with syscall()), so libosmium's inline code and
// libz -- which reach these functions through the dynamic symbol table -- call the harness versions, which can fail the first
// write that would cross a chosen byte offset of the output file, return short counts, EINTR, or fail fsync/close. libbz2 writes
// through stdio whose internal write is not interposable: for bzip2 the kernel provides the fault (RLIMIT_FSIZE with SIGXFSZ
// ignored gives EFBIG at an exact byte offset), and a seccomp filter makes the close system call on the output descriptor fail.
#include "tmpdir.hpp"
#include "filegen.hpp"
#include "perturb.hpp"

#include <osmium/io/any_input.hpp>
#include <osmium/io/any_output.hpp>
#include <osmium/io/reader.hpp>
#include <osmium/io/writer.hpp>
#include <osmium/thread/pool.hpp>

#include <csignal>
#include <cstddef>
#include <fcntl.h>
#include <linux/filter.h>
#include <linux/seccomp.h>
#include <sys/prctl.h>
#include <sys/resource.h>
#include <sys/stat.h>
#include <sys/syscall.h>
#include <unistd.h>

using model::Obj;
using vp::Src;

// ---------------------------------------------------------------- interposed system calls
struct Interpose {
    std::atomic<bool> active{false};
    std::atomic<unsigned long> ino{0}, dev{0};
    std::atomic<long> fail_at{-1};  // the first write that would cross this offset fails
    std::atomic<int> err{ENOSPC};
    std::atomic<bool> partial_first{false};  // write the bytes up to the boundary first (short write), fail on the next call
    std::atomic<int> eintr_left{0};
    std::atomic<bool> short_writes{false};
    std::atomic<bool> fail_fsync{false};
    std::atomic<int> fail_close_nth{-1};
    // observations
    std::atomic<long> written{0}, write_calls{0}, fsync_calls{0}, close_calls{0};
    std::atomic<bool> fired{false};
};
static Interpose g;

static bool is_target(int fd) {
    struct stat st;
    if (::fstat(fd, &st) != 0) return false;
    return static_cast<unsigned long>(st.st_ino) == g.ino.load() && static_cast<unsigned long>(st.st_dev) == g.dev.load();
}

extern "C" ssize_t write(int fd, const void* buf, size_t n) {
    if (g.active.load() && n > 0 && is_target(fd)) {
        g.write_calls++;
        if (g.eintr_left.load() > 0) {
            g.eintr_left--;
            errno = EINTR;
            return -1;
        }
        long at = g.fail_at.load();
        long pos = g.written.load();
        if (at >= 0 && pos + static_cast<long>(n) > at) {
            if (g.partial_first.load() && pos < at) {
                size_t part = static_cast<size_t>(at - pos);
                ssize_t r = syscall(SYS_write, fd, buf, part);
                if (r > 0) g.written += r;
                return r;
            }
            g.fired = true;
            errno = g.err.load();
            return -1;
        }
        if (g.short_writes.load() && n > 1) n = 1 + n / 3;
        ssize_t r = syscall(SYS_write, fd, buf, n);
        if (r > 0) g.written += r;
        return r;
    }
    return syscall(SYS_write, fd, buf, n);
}
extern "C" int fsync(int fd) {
    if (g.active.load() && is_target(fd)) {
        g.fsync_calls++;
        if (g.fail_fsync.load()) {
            g.fired = true;
            errno = EIO;
            return -1;
        }
    }
    return static_cast<int>(syscall(SYS_fsync, fd));
}
extern "C" int close(int fd) {
    if (g.active.load() && is_target(fd)) {
        int k = g.close_calls++;
        if (k == g.fail_close_nth.load()) {
            syscall(SYS_close, fd);  // the descriptor is released even when close reports an error
            g.fired = true;
            errno = EIO;
            return -1;
        }
    }
    return static_cast<int>(syscall(SYS_close, fd));
}

static void reset_interposer() {
    g.active = false;
    g.fail_at = -1;
    g.err = ENOSPC;
    g.partial_first = false;
    g.eintr_left = 0;
    g.short_writes = false;
    g.fail_fsync = false;
    g.fail_close_nth = -1;
    g.written = 0;
    g.write_calls = 0;
    g.fsync_calls = 0;
    g.close_calls = 0;
    g.fired = false;
}

// ---------------------------------------------------------------- one write run
struct Plan {
    int fmt = 0;   // 0 pbf 1 osm 2 opl
    int comp = 0;  // 0 none 1 gz 2 bz2
    bool sync = false;
    int handover = 0;  // 0 items, 1 one buffer, 2 several buffers, 3 items with small writer buffer and flushes, 4 generated call script
    // handover 4: the caller's history is generated: {0,-}: next item through operator()(item); {1,k}: the next k items in one buffer through
    // operator()(Buffer&&) (k = 0: an empty buffer); {2,-}: flush(); {3,n}: set_buffer_size(largest item + n)
    std::vector<std::pair<int, size_t>> script;
    int tail = 0;      // 0 close(); 1 flush() then close(); 2 close() twice; 3 close(), then more data (must be refused)
    std::vector<Obj> data;
    std::string generator = "gen";
    std::string format_string() const {
        static const char* f[] = {"pbf", "osm", "opl"};
        return std::string{f[fmt]} + (comp == 1 ? ".gz" : comp == 2 ? ".bz2" : "");
    }
};

struct RunResult {
    bool threw = false;
    std::string where, what;
    size_t close_return = 0;
    bool refused_after_error = true;
    bool refused_after_close = true;
    std::string file;  // bytes on disk afterwards
};

static const std::string& out_path() {
    static const std::string p = tmpdir::prefix() + "c08-" + std::to_string(getpid());
    return p;
}

static std::string slurp(const std::string& path) {
    std::ifstream f(path, std::ios::binary);
    return std::string((std::istreambuf_iterator<char>(f)), std::istreambuf_iterator<char>());
}

// A fault at the system call itself: from now on close(fd) fails with EIO in this process, whoever issues it (glibc's fclose() calls
// close without going through the dynamic symbol table, so the interposer above cannot reach the bzip2 route). The kernel does not
// run the call at all, the descriptor stays open for the rest of the process' life; one small seccomp filter per use.
static bool make_close_fail(int fd) {
    struct sock_filter f[] = {
        BPF_STMT(BPF_LD | BPF_W | BPF_ABS, offsetof(struct seccomp_data, nr)),
        BPF_JUMP(BPF_JMP | BPF_JEQ | BPF_K, __NR_close, 0, 3),
        BPF_STMT(BPF_LD | BPF_W | BPF_ABS, offsetof(struct seccomp_data, args[0])),
        BPF_JUMP(BPF_JMP | BPF_JEQ | BPF_K, static_cast<unsigned>(fd), 0, 1),
        BPF_STMT(BPF_RET | BPF_K, SECCOMP_RET_ERRNO | (EIO & SECCOMP_RET_DATA)),
        BPF_STMT(BPF_RET | BPF_K, SECCOMP_RET_ALLOW),
    };
    struct sock_fprog prog = {static_cast<unsigned short>(sizeof(f) / sizeof(f[0])), f};
    if (::prctl(PR_SET_NO_NEW_PRIVS, 1, 0, 0, 0) != 0) return false;
    return ::syscall(SYS_seccomp, SECCOMP_SET_MODE_FILTER, SECCOMP_FILTER_FLAG_TSYNC, &prog) == 0;
}

// syscall_close_fault: in: true = make the close of the Writer's output descriptor fail; out: whether that was set up and the Writer
// really used the predicted descriptor
static RunResult run_writer(const Plan& p, bool explicit_close, long rlimit, bool* syscall_close_fault = nullptr) {
    RunResult r;
    const std::string& path = out_path();
    {
        // create the file first so that its inode is known to the interposer (the Writer truncates and re-uses it)
        int fd = ::open(path.c_str(), O_CREAT | O_TRUNC | O_WRONLY, 0644);
        struct stat st;
        ::fstat(fd, &st);
        g.ino = static_cast<unsigned long>(st.st_ino);
        g.dev = static_cast<unsigned long>(st.st_dev);
        ::close(fd);
    }
    struct rlimit old_limit;
    if (rlimit >= 0) {
        ::signal(SIGXFSZ, SIG_IGN);
        ::getrlimit(RLIMIT_FSIZE, &old_limit);
        struct rlimit nl = old_limit;
        nl.rlim_cur = static_cast<rlim_t>(rlimit);
        ::setrlimit(RLIMIT_FSIZE, &nl);
    }
    int predicted_fd = -1;
    if (syscall_close_fault && *syscall_close_fault) {
        // the Writer opens the file itself: it gets the lowest free descriptor, which is the one a probe gets now
        predicted_fd = ::open("/dev/null", O_RDONLY);
        ::syscall(SYS_close, predicted_fd);
        if (predicted_fd < 0 || !make_close_fail(predicted_fd)) {
            predicted_fd = -1;
            *syscall_close_fault = false;
        }
    }
    g.active = true;
    auto note = [&](const char* where, const std::exception& e) {
        if (!r.threw) {
            r.threw = true;
            r.where = where;
            r.what = e.what();
        }
    };
    {
        osmium::io::Header header;
        header.set("generator", p.generator);
        std::unique_ptr<osmium::io::Writer> writer;
        try {
            writer = std::make_unique<osmium::io::Writer>(osmium::io::File{path, p.format_string()}, header, osmium::io::overwrite::allow, p.sync ? osmium::io::fsync::yes : osmium::io::fsync::no);
        } catch (const std::exception& e) {
            note("constructor", e);
        }
        if (writer) {
            try {
                osmium::memory::Buffer buf{1024, osmium::memory::Buffer::auto_grow::yes};
                std::vector<size_t> offs;
                for (const auto& x : p.data) {
                    offs.push_back(buf.committed());
                    model::add_to_buffer(buf, x);
                }
                if (p.handover == 1) {
                    (*writer)(std::move(buf));
                } else if (p.handover == 2) {
                    for (size_t off : offs) {
                        osmium::memory::Buffer b{256, osmium::memory::Buffer::auto_grow::yes};
                        b.add_item(buf.get<osmium::memory::Item>(off));
                        b.commit();
                        (*writer)(std::move(b));
                    }
                } else if (p.handover == 4) {
                    size_t largest = 64;
                    for (size_t off : offs) largest = std::max<size_t>(largest, buf.get<osmium::memory::Item>(off).padded_size());
                    size_t next = 0;
                    auto hand_over_items = [&](size_t k) {
                        osmium::memory::Buffer b{256, osmium::memory::Buffer::auto_grow::yes};
                        for (; k > 0 && next < offs.size(); --k, ++next) {
                            b.add_item(buf.get<osmium::memory::Item>(offs[next]));
                            b.commit();
                        }
                        (*writer)(std::move(b));
                    };
                    for (const auto& op : p.script) {
                        switch (op.first) {
                            case 0:
                                if (next < offs.size()) (*writer)(buf.get<osmium::memory::Item>(offs[next++]));
                                break;
                            case 1: hand_over_items(op.second); break;
                            case 2: writer->flush(); break;
                            default: writer->set_buffer_size(largest + op.second); break;
                        }
                    }
                    while (next < offs.size()) (*writer)(buf.get<osmium::memory::Item>(offs[next++]));  // whatever the script left over
                } else {
                    if (p.handover == 3) {
                        size_t largest = 64;
                        for (size_t off : offs) largest = std::max<size_t>(largest, buf.get<osmium::memory::Item>(off).padded_size());
                        writer->set_buffer_size(largest + 64);
                    }
                    size_t k = 0;
                    for (size_t off : offs) {
                        (*writer)(buf.get<osmium::memory::Item>(off));
                        if (p.handover == 3 && (++k % 2) == 0) writer->flush();
                    }
                }
            } catch (const std::exception& e) {
                note("operator()/flush()", e);
            }
            if (explicit_close || r.threw) {
                if (p.tail == 1 && !r.threw) {
                    try {
                        writer->flush();
                    } catch (const std::exception& e) {
                        note("operator()/flush()", e);
                    }
                }
                try {
                    r.close_return = writer->close();
                } catch (const std::exception& e) {
                    note("close()", e);
                }
                if (p.tail == 2) {
                    try {
                        (void)writer->close();
                    } catch (const std::exception& e) {
                        note("second close()", e);
                    }
                }
                if (p.tail == 3 && !r.threw) {
                    try {
                        osmium::memory::Buffer b{256, osmium::memory::Buffer::auto_grow::yes};
                        Obj n;
                        n.type = model::NODE;
                        n.id = 2;
                        model::add_to_buffer(b, n);
                        (*writer)(std::move(b));
                        r.refused_after_close = false;
                    } catch (const std::exception&) {
                    }
                }
            }
            if (r.threw) {
                // a Writer in error state refuses further data
                try {
                    osmium::memory::Buffer b{256, osmium::memory::Buffer::auto_grow::yes};
                    Obj n;
                    n.type = model::NODE;
                    n.id = 1;
                    model::add_to_buffer(b, n);
                    (*writer)(std::move(b));
                    r.refused_after_error = false;
                } catch (const std::exception&) {
                }
            }
            writer.reset();
        }
    }
    g.active = false;
    if (rlimit >= 0) ::setrlimit(RLIMIT_FSIZE, &old_limit);
    if (predicted_fd >= 0) {
        // the descriptor could not be closed: it still names the output file if (and only if) the Writer used it
        char link[512];
        const std::string self = "/proc/self/fd/" + std::to_string(predicted_fd);
        ssize_t n = ::readlink(self.c_str(), link, sizeof(link) - 1);
        *syscall_close_fault = n > 0 && std::string(link, static_cast<size_t>(n)) == path;
    }
    r.file = slurp(path);
    return r;
}

static void encoder_failure(Src& s);

// The output file cannot be opened: it exists and overwriting was not allowed, or its directory does not exist. The constructor has to
// report that (this is the first operating-system failure a Writer can meet), an existing file keeps its bytes, and no thread or
// descriptor stays behind.
static void open_failure(Src& s) {
    static const char* const formats[] = {"pbf", "osm", "opl", "osm.gz", "opl.bz2", "osm.bz2", "opl.gz"};
    const std::string format = formats[s.draw(sizeof(formats) / sizeof(formats[0]))];
    const bool exists = s.boolean();
    const std::string path = exists ? out_path() + "-exists" : out_path() + "-no-such-dir/sub/file";
    const std::string old_bytes = "the file that was there before\n";
    if (exists) {
        std::ofstream f(path, std::ios::binary | std::ios::trunc);
        f << old_bytes;
    }
    const std::string what = std::string{"Writer on "} + (exists ? "an existing file without permission to overwrite" : "a path in a directory that does not exist") + ", format " + format;
    if (vp::want_desc()) vp::describe(what);
    (void)osmium::thread::Pool::default_instance();
    const int threads_before = perturb::thread_count();
    const int fds_before = perturb::fd_count();
    bool threw = false;
    std::string msg;
    try {
        osmium::io::Header header;
        osmium::io::Writer writer{osmium::io::File{path, format}, header, osmium::io::overwrite::no, s.boolean() ? osmium::io::fsync::yes : osmium::io::fsync::no};
        osmium::memory::Buffer b{256, osmium::memory::Buffer::auto_grow::yes};
        Obj n;
        n.type = model::NODE;
        n.id = 1;
        n.loc = model::Loc{1, 2};
        model::add_to_buffer(b, n);
        writer(std::move(b));
        writer.close();
    } catch (const std::exception& e) {
        threw = true;
        msg = e.what();
    }
    VP_CHECK(threw, "open-error-lost", "no Writer call reported that the output file could not be opened | " << what);
    if (exists) {
        const std::string now = slurp(path);
        ::unlink(path.c_str());
        VP_CHECK(now == old_bytes, "existing-file-overwritten", "overwrite::no, but the existing file was changed (now " << now.size() << " bytes) | " << what);
    }
    int t = perturb::thread_count();
    for (int i = 0; i < 200 && t > threads_before; ++i) {
        std::this_thread::sleep_for(std::chrono::milliseconds(2));
        t = perturb::thread_count();
    }
    VP_CHECK(t <= threads_before, "thread-leak", "threads after the failed Writer was destroyed: " << t << ", before: " << threads_before << " | " << what);
    const int fds = perturb::fd_count();
    VP_CHECK(fds <= fds_before, "fd-leak", "open descriptors after the failed Writer was destroyed: " << fds << ", before: " << fds_before << " | " << what);
    vp::count("open_failure");
    vp::nontrivial(vp::hash_str(what));
}

// reliable_write() on its own with sizes around its internal piece limit (100 MiB per write call): every byte arrives once and in
// order, whatever the kernel does with the individual calls (short writes, EINTR); a failing call is reported and what is in the file
// then is a prefix of the data.
static void big_write(Src& s) {
    const size_t piece = 100UL * 1024UL * 1024UL;
    static const long around[] = {-1, 0, 1, 4096, 1000003};
    const size_t size = (1 + s.draw(2)) * piece + static_cast<size_t>(around[s.draw(5)]);
    const int mode = static_cast<int>(s.weighted({2, 2, 2, 2}));  // 0 plain, 1 short writes, 2 EINTR, 3 failure at an offset
    std::string data(size, '\0');
    {
        uint64_t x = 88172645463325252ULL + s.draw(1000);
        for (size_t i = 0; i + 8 <= size; i += 8) {
            x ^= x << 13;
            x ^= x >> 7;
            x ^= x << 17;
            std::memcpy(&data[i], &x, 8);
        }
    }
    const std::string path = out_path() + "-big";
    int fd = ::open(path.c_str(), O_CREAT | O_TRUNC | O_WRONLY, 0644);
    VP_CHECK(fd >= 0, "harness", "cannot create scratch file");
    struct stat st;
    ::fstat(fd, &st);
    reset_interposer();
    g.ino = static_cast<unsigned long>(st.st_ino);
    g.dev = static_cast<unsigned long>(st.st_dev);
    long fail_at = -1;
    if (mode == 1) g.short_writes = true;
    if (mode == 2) g.eintr_left = 1 + static_cast<int>(s.draw(5));
    if (mode == 3) {
        static const long offs[] = {0, 1, -1, 4096};
        fail_at = static_cast<long>((1 + s.draw(size / piece)) * piece) + offs[s.draw(4)];
        if (fail_at >= static_cast<long>(size)) fail_at = static_cast<long>(size) - 1;
        g.fail_at = fail_at;
        g.err = EIO;
        g.partial_first = s.boolean();
    }
    const std::string what = "reliable_write of " + std::to_string(size) + " bytes, " + (mode == 0 ? "plain" : mode == 1 ? "every write is short" : mode == 2 ? "the first writes are interrupted" : "the write crossing byte " + std::to_string(fail_at) + " fails");
    if (vp::want_desc()) vp::describe(what);
    g.active = true;
    bool threw = false;
    try {
        osmium::io::detail::reliable_write(fd, data.data(), size);
    } catch (const std::system_error&) {
        threw = true;
    }
    g.active = false;
    ::syscall(SYS_close, fd);
    // compare the file with the data, piece by piece
    size_t file_size = 0, first_diff = SIZE_MAX;
    {
        std::ifstream f(path, std::ios::binary);
        std::string chunk(1 << 20, '\0');
        while (f) {
            f.read(&chunk[0], static_cast<std::streamsize>(chunk.size()));
            const size_t n = static_cast<size_t>(f.gcount());
            if (n == 0) break;
            if (first_diff == SIZE_MAX && (file_size + n > size || std::memcmp(chunk.data(), data.data() + file_size, n) != 0)) {
                for (size_t i = 0; i < n; ++i)
                    if (file_size + i >= size || chunk[i] != data[file_size + i]) {
                        first_diff = file_size + i;
                        break;
                    }
            }
            file_size += n;
        }
    }
    ::unlink(path.c_str());
    if (mode == 3) {
        VP_CHECK(threw, "write-error-lost", "the operating system reported a failure but reliable_write() returned normally | " << what);
        VP_CHECK(first_diff == SIZE_MAX && file_size <= size, "bytes-written-wrongly", "after the reported failure the file (" << file_size << " bytes) is not a prefix of the data, first difference at byte " << first_diff << " | " << what);
    } else {
        VP_CHECK(!threw, "writer-fails-without-fault", "reliable_write() reported an error although no write failed | " << what);
        VP_CHECK(file_size == size && first_diff == SIZE_MAX, "bytes-written-wrongly", "the file has " << file_size << " bytes" << (first_diff == SIZE_MAX ? std::string{} : ", first difference at byte " + std::to_string(first_diff)) << " | " << what);
    }
    vp::count("big_write");
    vp::nontrivial(vp::hash_str(what));
}

static void prop(Src& s) {
    if (s.chance(1, 400)) {
        encoder_failure(s);
        return;
    }
    if (s.chance(1, 400)) {
        big_write(s);
        return;
    }
    if (s.chance(1, 40)) {
        open_failure(s);
        return;
    }
    Plan p;
    p.fmt = static_cast<int>(s.draw(3));
    p.comp = p.fmt == 0 ? 0 : static_cast<int>(s.weighted({2, 2, 2}));
    p.sync = s.chance(1, 3);
    p.handover = static_cast<int>(s.weighted({2, 2, 2, 2, 4}));
    p.tail = static_cast<int>(s.weighted({4, 2, 2, 2}));
    {
        gen::ObjOpts go;
        go.strmode = gen::StrMode::xml10;
        go.allow_invisible = false;
        go.valid_locations_only = true;
        go.max_list = s.chance(1, 8) ? 200 : 6;
        go.max_str = 40;
        size_t n = s.chance(1, 10) ? 200 + s.draw(1500) : s.size(30);
        for (size_t i = 0; i < n; ++i) {
            Obj x = gen::object(s, static_cast<int>(s.draw(3)), go);
            if (x.type == model::NODE && x.loc.undefined()) x.loc = model::Loc{1, 2};
            p.data.push_back(std::move(x));
        }
        std::stable_sort(p.data.begin(), p.data.end(), [](const Obj& a, const Obj& b) { return a.type < b.type; });
    }
    std::string script_text;
    if (p.handover == 4) {
        // the caller's history: single items, buffers (also empty ones), flushes (also two in a row and before anything was written) and
        // changes of the Writer's buffer size (also to the size it already has, also right after a flush), in any order
        static const size_t sizes[] = {64, 64, 200, 4096, 65536, 1024 * 1024, 10 * 1024 * 1024};
        const size_t steps = 1 + s.size(std::max<size_t>(8, 2 * p.data.size()));
        for (size_t i = 0; i < steps && i < 4000; ++i) {
            switch (s.weighted({5, 3, 3, 2})) {
                case 0: p.script.emplace_back(0, 0); script_text += "i"; break;
                case 1: p.script.emplace_back(1, s.draw(4)); script_text += "b" + std::to_string(p.script.back().second); break;
                case 2: p.script.emplace_back(2, 0); script_text += "f"; break;
                default: p.script.emplace_back(3, sizes[s.draw(sizeof(sizes) / sizeof(sizes[0]))]); script_text += "s" + std::to_string(p.script.back().second); break;
            }
            if (script_text.size() < 200) script_text += ' ';
        }
        if (script_text.size() > 200) script_text.resize(200);
        vp::count("handover_call_script");
    }
    // ---- fault-free reference
    reset_interposer();
    (void)osmium::thread::Pool::default_instance();  // the process-wide pool keeps its worker threads: they belong to the baseline
    const int threads_before = perturb::thread_count();
    RunResult ref = run_writer(p, true, -1);
    const std::string base = p.format_string() + (p.sync ? " fsync" : "") + " handover=" + std::to_string(p.handover) + " tail=" + std::to_string(p.tail) + " objects=" + std::to_string(p.data.size()) + (p.handover == 4 ? " script=[" + script_text + "]" : "");
    VP_CHECK(!ref.threw, "writer-fails-without-fault", "the Writer reported an error although nothing failed: " << ref.what << " (" << ref.where << ") | " << base);
    const long S = static_cast<long>(ref.file.size());
    VP_CHECK(ref.close_return == ref.file.size() || ref.close_return == 0, "close-return-value", "close() returned " << ref.close_return << ", the file has " << ref.file.size() << " bytes | " << base);
    // the reference file contains exactly the data
    {
        std::vector<Obj> back;
        try {
            osmium::io::Reader reader{osmium::io::File{ref.file.data(), ref.file.size(), p.format_string()}};
            while (osmium::memory::Buffer b = reader.read())
                for (auto& x : model::from_buffer(b)) back.push_back(std::move(x));
            reader.close();
        } catch (const std::exception& e) {
            vp::fail("complete-file-unreadable", std::string{"file written without error cannot be read back: "} + e.what() + " | " + base);
        }
        VP_CHECK(back.size() == p.data.size(), "complete-file-content", "file written without error contains " << back.size() << " objects, " << p.data.size() << " were written | " << base);
        for (size_t i = 0; i < back.size(); ++i) {
            VP_CHECK(back[i].type == p.data[i].type && back[i].id == p.data[i].id && back[i].version == p.data[i].version && back[i].tags == p.data[i].tags, "complete-file-content",
                     "file written without error: object #" << i << " read back as " << model::show(back[i]).substr(0, 200) << ", written was " << model::show(p.data[i]).substr(0, 200) << " | " << base);
        }
    }
    const long ref_writes = g.write_calls.load();
    const long ref_closes = g.close_calls.load();

    // ---- the fault
    enum { K_WRITE = 0, K_EINTR = 1, K_SHORT = 2, K_FSYNC = 3, K_CLOSE = 4 };
    int kind = static_cast<int>(s.weighted({8, 1, 1, 2, 2}));
    if (kind == K_FSYNC && !p.sync) kind = K_WRITE;
    reset_interposer();
    std::string fault;
    long rlimit = -1;
    long offset = -1;
    bool expect_fired = false;
    bool syscall_close = false;
    if (kind == K_WRITE) {
        // byte offset: every offset of small files is reachable; boundaries and the very end are favoured
        switch (s.weighted({4, 2, 2, 1})) {
            case 0: offset = S > 0 ? static_cast<long>(s.draw(static_cast<uint64_t>(S))) : 0; break;
            case 1: offset = std::max(0L, S - 1 - static_cast<long>(s.draw(16))); break;
            case 2: offset = std::min(S, static_cast<long>(s.draw(16))); break;
            default: offset = S + static_cast<long>(s.draw(3)); break;  // at/after the end: must not fire (S itself is never crossed)
        }
        expect_fired = offset < S;
        if (p.comp == 2) {
            rlimit = offset;  // kernel-made fault: EFBIG when the file would grow beyond `offset` bytes
            fault = "file size limit of " + std::to_string(offset) + " bytes (EFBIG), file needs " + std::to_string(S);
        } else {
            g.fail_at = offset;
            g.err = s.boolean() ? ENOSPC : EIO;
            g.partial_first = s.boolean();
            fault = std::string{"write crossing byte "} + std::to_string(offset) + " of " + std::to_string(S) + " fails with " + (g.err == ENOSPC ? "ENOSPC" : "EIO") + (g.partial_first ? " after a short write" : "");
        }
    } else if (kind == K_EINTR) {
        g.eintr_left = 1 + static_cast<int>(s.draw(5));
        fault = "the first " + std::to_string(g.eintr_left.load()) + " writes are interrupted (EINTR)";
    } else if (kind == K_SHORT) {
        g.short_writes = true;
        fault = "every write is short";
    } else if (kind == K_FSYNC) {
        g.fail_fsync = true;
        expect_fired = p.comp != 2 || true;
        fault = "fsync fails with EIO";
    } else if (p.comp == 2 || s.chance(1, 3)) {
        syscall_close = true;
        fault = "the close system call on the output descriptor fails with EIO (seccomp)";
    } else {
        g.fail_close_nth = ref_closes > 0 ? static_cast<int>(s.draw(static_cast<uint64_t>(ref_closes))) : 0;
        expect_fired = ref_closes > 0;
        fault = "close number " + std::to_string(g.fail_close_nth.load()) + " of " + std::to_string(ref_closes) + " on the output file fails with EIO";
    }
    const bool explicit_close = !s.chance(1, 6);
    const std::string what = base + " fault: " + fault + (explicit_close ? "" : " [destructor only]");
    if (vp::want_desc()) vp::describe(what);

    const bool wanted_syscall_close = syscall_close;
    RunResult r = run_writer(p, explicit_close, rlimit, &syscall_close);
    const bool fired = wanted_syscall_close ? syscall_close : rlimit >= 0 ? (rlimit < S) : g.fired.load();
    if (wanted_syscall_close && !syscall_close) vp::count("syscall_close_fault_not_set_up");
    (void)expect_fired;
    const std::string outcome = r.threw ? "exception from " + r.where + ": " + r.what : "no exception";

    // threads
    {
        int t = perturb::thread_count();
        for (int i = 0; i < 100 && t > threads_before; ++i) {
            std::this_thread::sleep_for(std::chrono::milliseconds(2));
            t = perturb::thread_count();
        }
        VP_CHECK(t <= threads_before, "thread-leak", "threads after the Writer was destroyed: " << t << ", before: " << threads_before << " | " << what);
    }
    if (explicit_close) {
        if (fired) {
            VP_CHECK(r.threw, "write-error-lost", "the operating system reported a failure but no Writer call threw: close() returned " << r.close_return << ", the file on disk has " << r.file.size() << " bytes, the complete file has " << S << " | " << what);
        }
        if (!r.threw) {
            VP_CHECK(r.file == ref.file, "short-or-corrupt-file-reported-as-success", "close() returned without exception but the file on disk (" << r.file.size() << " bytes) differs from the complete file (" << S << " bytes) | " << what);
            VP_CHECK(r.close_return == r.file.size() || r.close_return == 0, "close-return-value", "close() returned " << r.close_return << ", the file has " << r.file.size() << " bytes | " << what);
        }
        VP_CHECK(r.refused_after_close, "writer-accepts-data-after-close", "the Writer accepted more data after close() had returned | " << what);
        if (r.threw) VP_CHECK(r.refused_after_error, "writer-accepts-data-after-error", "the Writer accepted more data after it had reported an error (" << outcome << ") | " << what);
        // EINTR and short writes: the property only demands "complete file or exception". libosmium's own write loop retries both; zlib
        // reports an interrupted write as an error, which the Writer passes on -- reported, not lost. Observed, not asserted.
        if ((kind == K_EINTR || kind == K_SHORT) && r.threw) vp::count(p.comp == 1 ? "observed_gzip_reports_interrupted_write" : "observed_interrupted_or_short_write_reported");
    }
    vp::count(std::string{"fault_"} + (kind == K_WRITE ? (rlimit >= 0 ? "filesize-limit" : "write") : kind == K_EINTR ? "eintr" : kind == K_SHORT ? "short-writes" : kind == K_FSYNC ? "fsync" : wanted_syscall_close ? "close-syscall" : "close"));
    vp::count("compression_" + std::to_string(p.comp));
    vp::count(r.threw ? "reported_by_" + r.where : std::string{"no_exception"});
    if (fired) vp::count("fault_fired");
    (void)ref_writes;
    if (fired && (kind != K_WRITE || (offset > 0 && offset < S))) vp::nontrivial(vp::hash_str(what) ^ vp::hash_str(ref.file));
}

VP_BUILTIN(F30_gzip_write_error_then_close) {
    // a gzip output large enough for zlib to compress straight from the caller's buffer; the first write of compressed data fails
    for (int err_kind = 0; err_kind < 2; ++err_kind) {
        Plan p;
        p.fmt = 2;
        p.comp = 1;
        p.handover = 1;
        vp::Rng rng{99};
        for (int i = 0; i < 4000; ++i) {
            Obj n;
            n.type = model::NODE;
            n.id = i + 1;
            n.version = 1;
            n.loc = model::Loc{static_cast<int32_t>(rng.below(1000000)), static_cast<int32_t>(rng.below(1000000))};
            for (int t = 0; t < 3; ++t) n.tags.push_back(model::Tag{"k" + std::to_string(rng.below(100000)), "v" + std::to_string(rng.next())});
            p.data.push_back(n);
        }
        reset_interposer();
        (void)osmium::thread::Pool::default_instance();
        if (err_kind == 0) g.eintr_left = 1;
        else g.fail_at = 100;
        RunResult r = run_writer(p, true, -1);
        if (std::getenv("VERIF_DUMP")) std::fprintf(stderr, "DUMP threw=%d where=%s what=%s writes=%ld size=%zu\n", r.threw, r.where.c_str(), r.what.c_str(), g.write_calls.load(), r.file.size());
        VP_CHECK(r.threw, "write-error-lost", "a failed write of the gzip output was not reported");
        VP_CHECK(r.refused_after_error, "writer-accepts-data-after-error", "Writer accepted data after the error");
    }
}

// ---------------------------------------------------------------- a failure in the encoder (in a pool worker): an object that cannot be written
// One relation whose tags alone need more than the 32 MiB a PBF block may have: no block can hold it. Whatever the Writer does, it must
// not report success for a file that lacks the object, and its threads must finish. (XML and OPL have no such limit and must write it.)
static void encoder_failure(Src& s) {
    Plan p;
    p.fmt = static_cast<int>(s.weighted({3, 1, 1}));
    p.comp = 0;
    p.sync = false;
    p.handover = static_cast<int>(s.draw(4));
    p.tail = static_cast<int>(s.weighted({4, 2, 2, 0}));
    auto small = [](int type, int64_t id) {
        Obj x;
        x.type = type;
        x.id = id;
        x.version = 1;
        if (type == model::NODE) x.loc = model::Loc{1, 2};
        return x;
    };
    const size_t before = s.draw(3), after = s.draw(3);
    for (size_t i = 0; i < before; ++i) p.data.push_back(small(model::RELATION, static_cast<int64_t>(i + 1)));
    {
        Obj big = small(model::RELATION, 100);
        const size_t ntags = 34000 + s.draw(2000);
        vp::Rng r{s.draw(1ULL << 32)};
        for (size_t i = 0; i < ntags; ++i) {
            std::string v(1000, 'v');
            for (size_t k = 0; k < 16; ++k) v[k] = static_cast<char>('a' + r.below(26));  // all values differ: the string table cannot share them
            big.tags.push_back(model::Tag{"k" + std::to_string(i), std::move(v)});
        }
        p.data.push_back(std::move(big));
    }
    for (size_t i = 0; i < after; ++i) p.data.push_back(small(model::RELATION, static_cast<int64_t>(200 + i)));
    const std::string what = p.format_string() + " handover=" + std::to_string(p.handover) + " tail=" + std::to_string(p.tail) + ": " + std::to_string(before) + " small relations, one relation with " +
                             std::to_string(p.data[before].tags.size()) + " tags of 1000 bytes, " + std::to_string(after) + " small relations";
    if (vp::want_desc()) vp::describe("encoder failure: " + what);
    reset_interposer();
    (void)osmium::thread::Pool::default_instance();
    const int threads_before = perturb::thread_count();
    RunResult r = run_writer(p, true, -1);
    {
        int t = perturb::thread_count();
        for (int i = 0; i < 200 && t > threads_before; ++i) {
            std::this_thread::sleep_for(std::chrono::milliseconds(2));
            t = perturb::thread_count();
        }
        VP_CHECK(t <= threads_before, "thread-leak", "threads after the Writer was destroyed: " << t << ", before: " << threads_before << " | " << what);
    }
    if (r.threw) {
        VP_CHECK(r.refused_after_error, "writer-accepts-data-after-error", "the Writer accepted more data after it had reported an error (" << r.where << ": " << r.what << ") | " << what);
        vp::count("encoder_failure_reported_by_" + r.where);
        vp::count(std::string{"encoder_failure_"} + (p.fmt == 0 ? "pbf" : p.fmt == 1 ? "xml" : "opl") + "_message: " + r.what.substr(0, 60));
    } else {
        // success was reported: then the file must hold everything
        size_t n = 0, big_tags = 0;
        try {
            osmium::io::Reader reader{osmium::io::File{r.file.data(), r.file.size(), p.format_string()}};
            while (osmium::memory::Buffer b = reader.read()) {
                for (const auto& rel : b.select<osmium::Relation>()) {
                    ++n;
                    if (rel.id() == 100) big_tags = rel.tags().size();
                }
            }
            reader.close();
        } catch (const std::exception& e) {
            vp::fail("short-or-corrupt-file-reported-as-success", std::string{"close() returned without exception but the file cannot be read back: "} + e.what() + " | " + what);
        }
        VP_CHECK(n == p.data.size() && big_tags == p.data[before].tags.size(), "short-or-corrupt-file-reported-as-success",
                 "close() returned without exception but the file holds " << n << " of " << p.data.size() << " relations (the large one with " << big_tags << " tags) | " << what);
        vp::count("unencodable_object_written_completely");
    }
    vp::count(std::string{"encoder_failure_fmt_"} + (p.fmt == 0 ? "pbf" : p.fmt == 1 ? "xml" : "opl"));
    vp::nontrivial(vp::hash_str(what));
}

VP_BUILTIN(encoder_failure_object_larger_than_a_pbf_block) {
    for (uint64_t seed : {1, 2, 3, 4}) {
        vp::Src s{seed};
        encoder_failure(s);
    }
}

VP_MAIN(prop, "write scenarios: generated data (0..30 objects, sometimes 200..1700 so that the output needs many writes) x format {pbf, xml, opl} x compression {none, gzip, bzip2} x fsync x hand-over mode, "
              "first written fault-free (reference bytes, read back with the Reader), then again under one fault: the first write crossing byte offset o fails with ENOSPC/EIO, optionally after a "
              "short write (o uniform over the file, near the start, near the end, at/after the end); for bzip2 a kernel file size limit at o (EFBIG); EINTR k times; short writes throughout; "
              "fsync fails; the n-th close of the output file fails, or the close system call itself (seccomp); consumer calls close(), flush()+close(), close() twice, data after close(), or only destroys the Writer; one case in 400: an object no PBF block can hold (encoder failure in a pool worker). Mechanism: write/fsync/close defined in the harness executable (libosmium "
              "inline code and libz call them), RLIMIT_FSIZE for libbz2/stdio. Oracle: fault fired => some Writer call threw, and afterwards the Writer refuses data; no exception => bytes on "
              "disk identical to the reference and close() == file size; EINTR/short writes => no error; threads back to baseline; watchdog. non-trivial = fault fired strictly inside the file "
              "or in fsync/close; distinct by scenario")
