// walker.hpp -- independent decoder of libosmium's in-memory item layout.
//
// Walks [data, data + committed) using only offsets it has bounds-checked itself and never calls a libosmium
// iterator or accessor.  Verifies 8-byte alignment, size nesting, NUL termination of every string inside its item and
// sub-item types, and returns the content as model objects.  Layout facts (x86-64, little endian) were taken from
// memory/item.hpp, osm/object.hpp, osm/node.hpp, osm/node_ref.hpp, osm/relation.hpp, osm/changeset.hpp, osm/tag.hpp.
#pragma once

#include "model.hpp"

#include <cstring>

namespace walker {

struct Error : public std::exception {
    std::string msg;
    explicit Error(std::string m) : msg(std::move(m)) {}
    const char* what() const noexcept override { return msg.c_str(); }
};

struct ItemInfo {
    size_t offset = 0;
    size_t padded_size = 0;
    uint16_t type = 0;
    bool removed = false;
    bool is_entity = false;
};

struct View {
    const unsigned char* p;
    size_t n;
    template <typename T>
    T rd(size_t off, const char* what) const {
        if (off > n || sizeof(T) > n - off) throw Error(std::string{"read of "} + what + " at offset " + std::to_string(off) + " leaves the item (size " + std::to_string(n) + ")");
        T v;
        std::memcpy(&v, p + off, sizeof(T));
        return v;
    }
    View sub(size_t off, size_t len, const char* what) const {
        if (off > n || len > n - off) throw Error(std::string{what} + " [" + std::to_string(off) + ",+" + std::to_string(len) + ") leaves its parent (size " + std::to_string(n) + ")");
        return View{p + off, len};
    }
    // NUL-terminated string occupying exactly len bytes (including the NUL)
    std::string zstr(size_t off, size_t len, const char* what) const {
        if (len == 0) throw Error(std::string{what} + " has size 0 (no terminator)");
        View v = sub(off, len, what);
        if (v.p[len - 1] != 0) throw Error(std::string{what} + " is not NUL-terminated inside its item");
        const void* z = std::memchr(v.p, 0, len);
        if (z != v.p + len - 1) throw Error(std::string{what} + " contains an embedded NUL (declared " + std::to_string(len) + " bytes)");
        return std::string(reinterpret_cast<const char*>(v.p), len - 1);
    }
};

inline size_t pad8(size_t x) { return (x + 7) & ~static_cast<size_t>(7); }

constexpr uint16_t T_NODE = 1, T_WAY = 2, T_REL = 3, T_AREA = 4, T_CS = 5, T_TAGS = 0x11, T_WNL = 0x12, T_RML = 0x13, T_RMLF = 0x23, T_OUTER = 0x40, T_INNER = 0x41, T_DISC = 0x80;

struct Header {
    uint32_t size;
    uint16_t type;
    uint16_t flags;
};

inline Header header(const View& v, size_t off) {
    Header h;
    h.size = v.rd<uint32_t>(off, "item size");
    h.type = v.rd<uint16_t>(off + 4, "item type");
    h.flags = v.rd<uint16_t>(off + 6, "item flags");
    if (h.size < 8) throw Error("item at offset " + std::to_string(off) + " has size " + std::to_string(h.size) + " < 8");
    if (off % 8 != 0) throw Error("item at offset " + std::to_string(off) + " is not 8-byte aligned");
    return h;
}

inline model::Obj decode_object(const View& item, uint16_t type);

inline void decode_tags(const View& tl, model::Obj& o) {
    size_t off = 8;
    while (off < tl.n) {
        const void* z1 = std::memchr(tl.p + off, 0, tl.n - off);
        if (!z1) throw Error("tag key is not NUL-terminated inside the tag list");
        size_t k_end = static_cast<const unsigned char*>(z1) - tl.p;
        if (k_end + 1 >= tl.n + 0 && k_end + 1 > tl.n) throw Error("tag value missing");
        if (k_end + 1 >= tl.n) throw Error("tag key without value at the end of the tag list");
        const void* z2 = std::memchr(tl.p + k_end + 1, 0, tl.n - k_end - 1);
        if (!z2) throw Error("tag value is not NUL-terminated inside the tag list");
        size_t v_end = static_cast<const unsigned char*>(z2) - tl.p;
        o.tags.push_back(model::Tag{std::string(reinterpret_cast<const char*>(tl.p + off), k_end - off), std::string(reinterpret_cast<const char*>(tl.p + k_end + 1), v_end - k_end - 1)});
        off = v_end + 1;
    }
}

inline std::vector<model::NodeRef> decode_node_refs(const View& l) {
    if ((l.n - 8) % 16 != 0) throw Error("node ref list size " + std::to_string(l.n) + " is not 8 + k*16");
    std::vector<model::NodeRef> r;
    for (size_t off = 8; off < l.n; off += 16) {
        model::NodeRef nr;
        nr.ref = l.rd<int64_t>(off, "node ref");
        nr.loc.x = l.rd<int32_t>(off + 8, "node ref x");
        nr.loc.y = l.rd<int32_t>(off + 12, "node ref y");
        r.push_back(nr);
    }
    return r;
}

inline void decode_members(const View& l, model::Obj& o) {
    size_t off = 8;
    while (off < l.n) {
        model::Member m;
        m.ref = l.rd<int64_t>(off, "member ref");
        uint16_t t = l.rd<uint16_t>(off + 8, "member type");
        uint16_t flags = l.rd<uint16_t>(off + 10, "member flags");
        uint16_t role_size = l.rd<uint16_t>(off + 12, "member role size");
        m.type = t == T_NODE ? 0 : t == T_WAY ? 1 : t == T_REL ? 2 : 9;
        m.role = l.zstr(off + 16, role_size, "member role");
        size_t end = off + pad8(16 + role_size);
        if (flags == 1) {
            Header h = header(l, end);
            if (h.type != T_NODE && h.type != T_WAY && h.type != T_REL && h.type != T_AREA) throw Error("full member has item type " + std::to_string(h.type));
            View fm = l.sub(end, h.size, "full member object");
            m.full.push_back(decode_object(fm, h.type));
            end += h.size;
            if (h.size % 8 != 0) throw Error("full member object size " + std::to_string(h.size) + " not aligned");
        } else if (flags != 0) {
            throw Error("member flags " + std::to_string(flags));
        }
        if (end > l.n) throw Error("relation member leaves the member list");
        o.members.push_back(std::move(m));
        off = end;
    }
}

inline void decode_discussion(const View& d, model::Obj& o) {
    size_t off = 8;
    while (off < d.n) {
        model::Comment c;
        c.date = d.rd<uint32_t>(off, "comment date");
        c.uid = d.rd<uint32_t>(off + 4, "comment uid");
        uint32_t text_size = d.rd<uint32_t>(off + 8, "comment text size");
        uint16_t user_size = d.rd<uint16_t>(off + 12, "comment user size");
        c.user = d.zstr(off + 16, user_size, "comment user");
        c.text = d.zstr(off + 16 + user_size, text_size, "comment text");
        o.comments.push_back(c);
        off += pad8(16 + static_cast<size_t>(user_size) + text_size);
    }
    if (off != pad8(d.n)) throw Error("changeset discussion: comments end at " + std::to_string(off) + ", item size " + std::to_string(d.n));
}

// sub-items of an object/changeset starting at 'off'
inline void decode_subitems(const View& item, size_t off, model::Obj& o, bool changeset) {
    if (off > pad8(item.n)) throw Error("sub-items start " + std::to_string(off) + " beyond the item (size " + std::to_string(item.n) + ")");
    while (off < item.n) {
        Header h = header(item, off);
        View sub = item.sub(off, h.size, "sub-item");
        switch (h.type) {
            case T_TAGS: decode_tags(sub, o); break;
            case T_WNL:
                if (o.type != model::WAY) throw Error("way_node_list inside a non-way");
                for (auto& r : decode_node_refs(sub)) o.refs.push_back(r);
                break;
            case T_RML:
            case T_RMLF:
                if (o.type != model::RELATION) throw Error("relation_member_list inside a non-relation");
                decode_members(sub, o);
                break;
            case T_OUTER:
            case T_INNER: {
                if (o.type != model::AREA) throw Error("ring inside a non-area");
                model::Ring r;
                r.outer = h.type == T_OUTER;
                r.refs = decode_node_refs(sub);
                o.rings.push_back(r);
                break;
            }
            case T_DISC:
                if (!changeset) throw Error("changeset_discussion inside a non-changeset");
                decode_discussion(sub, o);
                break;
            default:
                throw Error("unexpected sub-item type " + std::to_string(h.type));
        }
        off += pad8(h.size);
    }
    if (off != pad8(item.n) && off != item.n) throw Error("sub-items end at " + std::to_string(off) + " but the item has size " + std::to_string(item.n));
}

inline model::Obj decode_object(const View& item, uint16_t type) {
    model::Obj o;
    o.type = type == T_NODE ? model::NODE : type == T_WAY ? model::WAY : type == T_REL ? model::RELATION : model::AREA;
    o.id = item.rd<int64_t>(8, "id");
    uint32_t dv = item.rd<uint32_t>(16, "deleted/version");
    o.visible = (dv & 1u) == 0;
    o.version = dv >> 1;
    o.ts = item.rd<uint32_t>(20, "timestamp");
    o.uid = item.rd<uint32_t>(24, "uid");
    o.cs = item.rd<uint32_t>(28, "changeset");
    size_t fixed = 32;
    if (type == T_NODE) {
        o.loc.x = item.rd<int32_t>(32, "x");
        o.loc.y = item.rd<int32_t>(36, "y");
        fixed = 40;
    }
    uint16_t user_size = item.rd<uint16_t>(fixed, "user size");
    o.user = item.zstr(fixed + 2, user_size, "user name");
    decode_subitems(item, pad8(fixed + 2 + user_size), o, false);
    return o;
}

inline model::Obj decode_changeset(const View& item) {
    model::Obj o;
    o.type = model::CHANGESET;
    o.bl.x = item.rd<int32_t>(8, "bounds");
    o.bl.y = item.rd<int32_t>(12, "bounds");
    o.tr.x = item.rd<int32_t>(16, "bounds");
    o.tr.y = item.rd<int32_t>(20, "bounds");
    o.created = item.rd<uint32_t>(24, "created_at");
    o.closed = item.rd<uint32_t>(28, "closed_at");
    o.id = item.rd<uint32_t>(32, "changeset id");
    o.num_changes = item.rd<uint32_t>(36, "num_changes");
    o.num_comments = item.rd<uint32_t>(40, "num_comments");
    o.uid = item.rd<uint32_t>(44, "uid");
    uint16_t user_size = item.rd<uint16_t>(48, "user size");
    o.user = item.zstr(56, user_size, "changeset user name");
    decode_subitems(item, pad8(56 + static_cast<size_t>(user_size)), o, true);
    return o;
}

// Walk all top-level items. Non-entity top-level items are validated but yield no model object
// (an Obj with type 100 + item type is returned so that positions stay aligned with infos).
inline std::vector<model::Obj> walk(const unsigned char* data, size_t committed, std::vector<ItemInfo>* infos = nullptr) {
    if (reinterpret_cast<uintptr_t>(data) % 8 != 0) throw Error("buffer memory is not 8-byte aligned");
    if (committed % 8 != 0) throw Error("committed size " + std::to_string(committed) + " is not a multiple of 8");
    std::vector<model::Obj> out;
    View all{data, committed};
    size_t off = 0;
    while (off < committed) {
        Header h = header(all, off);
        size_t ps = pad8(h.size);
        View item = all.sub(off, h.size, "item");
        if (ps > committed - off) throw Error("padded item at " + std::to_string(off) + " size " + std::to_string(ps) + " leaves the committed area");
        ItemInfo info;
        info.offset = off;
        info.padded_size = ps;
        info.type = h.type;
        info.removed = (h.flags & 1u) != 0;
        switch (h.type) {
            case T_NODE:
            case T_WAY:
            case T_REL:
            case T_AREA:
                out.push_back(decode_object(item, h.type));
                info.is_entity = true;
                break;
            case T_CS:
                out.push_back(decode_changeset(item));
                info.is_entity = true;
                break;
            case T_TAGS: {
                model::Obj o;
                o.type = 100 + h.type;
                decode_tags(item, o);
                out.push_back(o);
                break;
            }
            case T_WNL:
            case T_OUTER:
            case T_INNER: {
                model::Obj o;
                o.type = 100 + h.type;
                o.refs = decode_node_refs(item);
                out.push_back(o);
                break;
            }
            case T_RML:
            case T_RMLF: {
                model::Obj o;
                o.type = model::RELATION;
                decode_members(item, o);
                o.type = 100 + h.type;
                out.push_back(o);
                break;
            }
            case T_DISC: {
                model::Obj o;
                o.type = 100 + h.type;
                decode_discussion(item, o);
                out.push_back(o);
                break;
            }
            default:
                throw Error("unknown top-level item type " + std::to_string(h.type) + " at offset " + std::to_string(off));
        }
        if (infos) infos->push_back(info);
        off += ps;
    }
    return out;
}

}  // namespace walker
