// perturb.hpp -- seeded schedule perturbation through the OSMIUM_VERIF_SCHED hook points, process probes.
#pragma once
#include <cstdio>
#include <cstring>

#include "../engine/vp.hpp"

#include <osmium/thread/queue.hpp>

#include <atomic>
#include <dirent.h>
#include <sched.h>
#include <thread>

namespace perturb {

struct Config {
    std::atomic<uint64_t> seed{0};
    std::atomic<unsigned> intensity{0};  // 0 = off, else probability in 1/256 of doing something at a point
    std::atomic<uint64_t> points{0};
    std::atomic<uint64_t> actions{0};
    std::atomic<uint64_t> thread_counter{0};
};
inline Config& cfg() {
    static Config c;
    return c;
}

inline void hook(int site) {
    Config& c = cfg();
    unsigned inten = c.intensity.load(std::memory_order_relaxed);
    if (inten == 0) return;
    thread_local uint64_t state = 0;
    thread_local uint64_t epoch = ~0ULL;
    uint64_t seed = c.seed.load(std::memory_order_relaxed);
    if (epoch != seed) {  // new case: re-seed this thread's stream
        epoch = seed;
        state = vp::mix64(seed ^ (c.thread_counter.fetch_add(1) * 0x9e3779b97f4a7c15ULL));
    }
    state = state * 6364136223846793005ULL + 1442695040888963407ULL + static_cast<uint64_t>(site);
    uint64_t r = state >> 33;
    c.points.fetch_add(1, std::memory_order_relaxed);
    if ((r & 0xff) >= inten) return;
    c.actions.fetch_add(1, std::memory_order_relaxed);
    switch ((r >> 8) % 8) {
        case 0:
        case 1:
        case 2:
        case 3: sched_yield(); break;
        case 4:
        case 5: std::this_thread::sleep_for(std::chrono::microseconds(1 + ((r >> 12) % 60))); break;
        case 6: {
            volatile unsigned spin = static_cast<unsigned>((r >> 12) % 4000);
            while (spin > 0) spin = spin - 1;
            break;
        }
        default: std::this_thread::sleep_for(std::chrono::microseconds(200 + ((r >> 12) % 800))); break;
    }
}

inline void install() {
#ifdef OSMIUM_VERIF
    osmium::verif::sched_hook().store(&hook, std::memory_order_release);
#endif
}

inline void configure(uint64_t seed, unsigned intensity) {
    cfg().seed.store(seed);
    cfg().thread_counter.store(0);
    cfg().intensity.store(intensity);
}

inline int count_dir(const char* path) {
    int n = 0;
    DIR* d = opendir(path);
    if (!d) return -1;
    while (struct dirent* e = readdir(d)) {
        if (e->d_name[0] != '.') ++n;
    }
    closedir(d);
    return n;
}
#if defined(__SANITIZE_THREAD__)
#define VERIF_TSAN_BUILD 1
#elif defined(__has_feature)
#if __has_feature(thread_sanitizer)
#define VERIF_TSAN_BUILD 1
#endif
#endif
// Threads of this process. In ThreadSanitizer builds only the threads that carry one of the library's thread names ("_osmium_..."):
// the TSan runtime has a background thread of its own which it (re)starts in a forked child at a moment of its choosing -- with all
// threads counted, "one thread more than before" was reported for a correct pool (thorough tier, once in 180 000 executions).
inline int thread_count() {
#ifdef VERIF_TSAN_BUILD
    int n = 0;
    DIR* d = opendir("/proc/self/task");
    if (!d) return -1;
    while (struct dirent* e = readdir(d)) {
        if (e->d_name[0] == '.') continue;
        char path[300];
        std::snprintf(path, sizeof(path), "/proc/self/task/%s/comm", e->d_name);
        if (FILE* f = std::fopen(path, "r")) {
            char name[64] = {0};
            if (std::fgets(name, sizeof(name), f) && std::strncmp(name, "_osmium", 7) == 0) ++n;
            std::fclose(f);
        }
    }
    closedir(d);
    return n;
#else
    return count_dir("/proc/self/task");
#endif
}
inline int fd_count() { return count_dir("/proc/self/fd") - 1; }  // minus the directory handle itself

// restrict the process to n cpus (0 = all); the window is shifted by the shard number so that parallel shards do not all
// pile up on cpu 0
inline void set_cpus(int n) {
    cpu_set_t set;
    CPU_ZERO(&set);
    int total = static_cast<int>(std::thread::hardware_concurrency());
    if (total < 1) total = 1;
    if (n <= 0 || n > total) n = total;
    int first = n == total ? 0 : static_cast<int>((vp::opts().shard * 3) % static_cast<uint64_t>(total));
    for (int i = 0; i < n; ++i) CPU_SET((first + i) % total, &set);
    sched_setaffinity(0, sizeof(set), &set);
}

}  // namespace perturb
