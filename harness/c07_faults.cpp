// C07: the Reader pipeline always terminates and reports the first error to the caller (fault enumeration).
#include "tmpdir.hpp"
#include "readerlab.hpp"

#include <dirent.h>
#include <fcntl.h>
#include <unistd.h>

using lab::Pipeline;
using model::Obj;
using vp::Src;

enum FaultKind { F_NONE = 0, F_READ_THROWS = 1, F_CLOSE_THROWS = 2, F_TRUNCATED = 3, F_BAD_BLOB = 4, F_CORRUPT = 5 };
static const char* const FAULT_NAME[] = {"none", "decompressor-read-throws", "decompressor-close-throws", "input-truncated", "pbf-blob-corrupted", "input-corrupted"};

struct Frame {
    std::string header, blob;
    bool override_prefix = false;  // (fault: the 4-byte length in front of the BlobHeader says something else)
    uint32_t prefix = 0;
};
// split a PBF file (from the harness encoder) into its frames
static std::vector<Frame> pbf_frames(const std::string& f) {
    std::vector<Frame> v;
    size_t p = 0;
    while (p + 4 <= f.size()) {
        size_t hl = (static_cast<unsigned char>(f[p]) << 24) | (static_cast<unsigned char>(f[p + 1]) << 16) | (static_cast<unsigned char>(f[p + 2]) << 8) | static_cast<unsigned char>(f[p + 3]);
        p += 4;
        if (hl > f.size() - p) break;
        Frame fr;
        fr.header = f.substr(p, hl);
        // datasize = field 3 (varint)
        size_t q = 0, datasize = 0;
        while (q < fr.header.size()) {
            uint64_t key = 0, v2 = 0;
            int sh = 0;
            while (q < fr.header.size()) {
                unsigned char c = static_cast<unsigned char>(fr.header[q++]);
                key |= static_cast<uint64_t>(c & 0x7f) << sh;
                sh += 7;
                if (!(c & 0x80)) break;
            }
            sh = 0;
            switch (key & 7) {
                case 0:
                case 2:
                    while (q < fr.header.size()) {
                        unsigned char c = static_cast<unsigned char>(fr.header[q++]);
                        v2 |= static_cast<uint64_t>(c & 0x7f) << sh;
                        sh += 7;
                        if (!(c & 0x80)) break;
                    }
                    if ((key & 7) == 0 && (key >> 3) == 3) datasize = static_cast<size_t>(v2);
                    if ((key & 7) == 2) q += static_cast<size_t>(v2);
                    break;
                case 1: q += 8; break;
                case 5: q += 4; break;
                default: q = fr.header.size();
            }
        }
        p += hl;
        if (datasize > f.size() - p) break;
        fr.blob = f.substr(p, datasize);
        p += datasize;
        v.push_back(fr);
    }
    return v;
}
static std::string pbf_join(const std::vector<Frame>& frames) {
    std::string o;
    for (const auto& fr : frames) {
        const size_t len = fr.override_prefix ? fr.prefix : fr.header.size();
        for (int sh : {24, 16, 8, 0}) o += static_cast<char>((len >> sh) & 0xff);
        o += fr.header + fr.blob;
    }
    return o;
}

struct Observed {
    std::vector<Obj> objs;
    bool threw = false;
    std::string where, what;
    std::vector<std::pair<std::string, std::string>> problems;  // (signature, message)
    void problem(const std::string& sig, const std::string& msg) { problems.emplace_back(sig, msg); }
};

static void prop(Src& s) {
    static bool installed = false;
    if (!installed) {
        perturb::install();
        installed = true;
    }
    const int fmt = static_cast<int>(s.draw(4));
    filegen::Made m = filegen::small_file(s, fmt, s.chance(1, 3) ? 60 : 12);
    Pipeline p = lab::gen_pipeline(s);
    std::string bytes = m.bytes;
    const std::string format = m.format;

    // reference: what the intact file contains
    std::string ref_error;
    const std::vector<Obj> ref = lab::reference_decode(bytes, format, &ref_error);
    VP_CHECK(ref_error.empty(), "reference-decode-failed", "reference decode of the intact file failed: " << ref_error);

    // ---- the fault
    int kind = static_cast<int>(s.weighted({2, 4, 2, 2, 2, 3}));
    const bool from_file = (kind == F_NONE || kind == F_TRUNCATED || kind == F_BAD_BLOB || kind == F_CORRUPT) && s.chance(1, 3);  // real file: no wrapping decompressor
    size_t piece = s.chance(1, 4) ? 0 : 1 + s.draw(s.boolean() ? 40 : 400);
    long total_reads = piece == 0 ? 1 : static_cast<long>((bytes.size() + piece - 1) / piece);
    long fault_read = -1;
    std::string fault_text = FAULT_NAME[kind];
    std::vector<Obj> bad_blob_expected;
    bool bad_blob_expected_known = false;
    std::string bad_blob_error;
    if (kind == F_BAD_BLOB) {
        std::vector<Frame> frames = fmt == 0 ? pbf_frames(bytes) : std::vector<Frame>{};
        if (frames.size() < 2) {
            kind = F_READ_THROWS;
            fault_text = FAULT_NAME[kind];
        } else {
            size_t n = 1 + s.draw(frames.size() - 1);  // a data blob (frame 0 is the header)
            using namespace enc::pb;
            // what the blobs in front of the broken one hold: exactly that has to be delivered before the error
            {
                std::vector<Frame> intact(frames.begin(), frames.begin() + static_cast<long>(n));
                std::string err;
                bad_blob_expected = lab::reference_decode(pbf_join(intact), format, &err);
                VP_CHECK(err.empty(), "reference-decode-failed", "reference decode of the blobs in front of the broken one failed: " << err);
                bad_blob_expected_known = true;
            }
            const bool first_is_zlib = s.boolean();
            // one time in three the framing of the blob is broken instead of its content (certainly malformed: the format limits a
            // BlobHeader to 64 KiB and a Blob to 32 MiB, and a BlobHeader must be a BlobHeader message)
            const unsigned framing = s.chance(1, 3) ? 1 + static_cast<unsigned>(s.draw(3)) : 0;
            auto break_blob = [&](size_t k, bool zlib_garbage) {
                if (framing == 1 && k == n) {
                    static const uint32_t sizes[] = {65537, 70000, 0x00ffffffU, 0x7fffffffU, 0x80000000U, 0xffffffffU};
                    frames[k].override_prefix = true;
                    frames[k].prefix = sizes[s.draw(sizeof(sizes) / sizeof(sizes[0]))];
                    fault_text += " (blob " + std::to_string(k) + " of " + std::to_string(frames.size() - 1) + ": BlobHeader length prefix says " + std::to_string(frames[k].prefix) + ")";
                    return;
                }
                if (framing == 2 && k == n) {
                    frames[k].header = f_bytes(1, "OSMData") + f_int64(3, 32LL * 1024 * 1024 + 1 + static_cast<int64_t>(s.draw(1000)));
                    fault_text += " (blob " + std::to_string(k) + " of " + std::to_string(frames.size() - 1) + ": datasize beyond 32 MiB)";
                    return;
                }
                if (framing == 3 && k == n) {
                    frames[k].header = std::string(frames[k].header.size(), '\xff');
                    fault_text += " (blob " + std::to_string(k) + " of " + std::to_string(frames.size() - 1) + ": BlobHeader bytes are all 0xff)";
                    return;
                }
                if (zlib_garbage) {
                    frames[k].blob = f_int64(2, 200) + f_bytes(3, "this is not zlib data");
                    fault_text += " (blob " + std::to_string(k) + " of " + std::to_string(frames.size() - 1) + ": garbage instead of zlib data)";
                } else {
                    // a valid block whose only node uses a string index outside the string table
                    std::string node = f_sint64(1, 1) + f_bytes(2, packed_varint({77})) + f_bytes(3, packed_varint({78})) + f_sint64(8, 1) + f_sint64(9, 1);
                    frames[k].blob = f_bytes(1, f_bytes(1, f_bytes(1, "")) + f_bytes(2, f_bytes(1, node)));
                    fault_text += " (blob " + std::to_string(k) + " of " + std::to_string(frames.size() - 1) + ": string index out of range)";
                }
                frames[k].header = f_bytes(1, "OSMData") + f_int64(3, static_cast<int64_t>(frames[k].blob.size()));
            };
            if (framing) vp::count("broken_blob_framing");
            break_blob(n, first_is_zlib);
            {
                // the error this blob produces when it is the only broken one (single-threaded reference run)
                std::string err;
                (void)lab::reference_decode(pbf_join(frames), format, &err);
                bad_blob_error = err;
            }
            if (n + 1 < frames.size() && s.boolean()) {
                // a second broken blob behind it, broken in the other way: the caller must see the error of the first
                const size_t m2 = n + 1 + s.draw(frames.size() - n - 1);
                break_blob(m2, !first_is_zlib);
                vp::count("two_broken_blobs");
            }
            bytes = pbf_join(frames);
        }
    }
    if (kind == F_READ_THROWS) {
        fault_read = static_cast<long>(s.draw(static_cast<uint64_t>(total_reads) + 1));
        fault_text += " (read " + std::to_string(fault_read) + " of " + std::to_string(total_reads) + ")";
    }
    if (kind == F_CORRUPT && !bytes.empty()) {
        // garbage in the first part of the input: the parser usually fails while most of the input is still to come
        size_t pos = s.draw(std::max<size_t>(1, bytes.size() / (1 + s.draw(4))));
        size_t n = 1 + s.draw(4);
        for (size_t i = 0; i < n && pos + i < bytes.size(); ++i) bytes[pos + i] = static_cast<char>(s.boolean() ? 0xff : s.draw(256));
        fault_text += " (" + std::to_string(n) + " bytes at " + std::to_string(pos) + " of " + std::to_string(bytes.size()) + ")";
    }
    if (kind == F_TRUNCATED && !bytes.empty()) {
        bytes.resize(s.draw(bytes.size()));
        fault_text += " (at byte " + std::to_string(bytes.size()) + " of " + std::to_string(m.bytes.size()) + ")";
    }
    // ---- the consumer
    const bool call_header = s.boolean();
    const bool read_to_end = s.chance(1, 2);
    const size_t max_reads = read_to_end ? SIZE_MAX : s.draw(6);
    const int ending = static_cast<int>(s.draw(3));  // 0 close(), 1 destructor only, 2 close() twice
    const std::string what = m.what + " fault=" + fault_text + (from_file ? " from-file" : " piece=" + std::to_string(piece)) + (call_header ? " header()" : "") + (read_to_end ? " read-to-end" : " reads=" + std::to_string(max_reads)) +
                             (ending == 0 ? " close()" : ending == 1 ? " destructor" : " close()x2") + " " + p.str();
    if (vp::want_desc()) vp::describe(what);

    static const std::string path = tmpdir::prefix() + "c07-" + std::to_string(getpid());
    if (from_file) {
        std::ofstream f(path, std::ios::binary | std::ios::trunc);
        f.write(bytes.data(), static_cast<std::streamsize>(bytes.size()));
    }

    Observed ob;
    int threads_with_pool = 0;
    const int fds_before = perturb::fd_count();
    const int threads_before = perturb::thread_count();
    {
        osmium::thread::Pool pool{p.pool_threads, static_cast<size_t>(p.work_queue)};
        threads_with_pool = perturb::thread_count();
        p.apply();
        lab::reset_faults();
        lab::fault().piece = piece;
        lab::fault().throw_at_read = fault_read;
        lab::fault().throw_at_close = kind == F_CLOSE_THROWS;
        long reads_at_close = -1;
        {
            std::unique_ptr<osmium::io::Reader> reader;
            try {
                reader = std::make_unique<osmium::io::Reader>(from_file ? osmium::io::File{path, format} : osmium::io::File{bytes.data(), bytes.size(), format + ".gz"}, pool);
            } catch (const std::exception& e) {
                ob.threw = true;
                ob.where = "constructor";
                ob.what = e.what();
            }
            if (reader) {
                auto note = [&](const char* where, const std::exception& e) {
                    if (!ob.threw) {
                        ob.threw = true;
                        ob.where = where;
                        ob.what = e.what();
                    }
                };
                if (call_header) {
                    try {
                        (void)reader->header();
                    } catch (const std::exception& e) {
                        note("header()", e);
                    }
                }
                bool ended = false;
                for (size_t k = 0; k < max_reads && !ended; ++k) {
                    try {
                        osmium::memory::Buffer b = reader->read();
                        if (!b) {
                            ended = true;
                            break;
                        }
                        if (ob.threw) ob.problem("data-after-error", "read() delivered data after an error had been reported by " + ob.where);
                        for (auto& x : model::from_buffer(b)) ob.objs.push_back(std::move(x));
                    } catch (const std::exception& e) {
                        note("read()", e);
                        // after the first report every further read() must fail as well
                        bool again_threw = false;
                        try {
                            osmium::memory::Buffer b2 = reader->read();
                            if (b2 && b2.committed() > 0) ob.problem("data-after-error", "read() delivered data after read() had thrown");
                        } catch (const std::exception&) {
                            again_threw = true;
                        }
                        if (!again_threw) ob.problem("read-after-error-succeeds", "read() did not fail after an earlier read() had reported an error");
                        ended = true;
                    }
                }
                if (ending != 1) {
                    try {
                        reader->close();
                    } catch (const std::exception& e) {
                        note("close()", e);
                    }
                    reads_at_close = lab::acct().reads.load();
                    if (ending == 2) {
                        try {
                            reader->close();
                        } catch (const std::exception& e) {
                            note("second close()", e);
                        }
                    }
                    // a closed Reader reads nothing more from its input
                    std::this_thread::sleep_for(std::chrono::microseconds(300 + s.draw(1500)));
                    if (lab::acct().reads.load() != reads_at_close) ob.problem("read-after-close", "the decompressor was read from after close() had returned");
                    try {
                        osmium::memory::Buffer b3 = reader->read();
                        if (b3 && b3.committed() > 0 && ob.threw) ob.problem("data-after-error", "read() delivered data after close() and an error");
                    } catch (const std::exception&) {
                    }
                }
                reader.reset();  // destructor
            }
        }
        if (reads_at_close >= 0 && lab::acct().reads.load() != reads_at_close) ob.problem("read-after-close", "the decompressor was read from after close() had returned (seen after destruction)");
        if (lab::acct().alive.load() != 0) ob.problem("decompressor-leak", "the decompressor object was not destroyed with the Reader");
        // threads: only the pool's workers may be left
        int t = perturb::thread_count();
        // (a joined thread can linger in /proc for a moment: poll; and the baseline itself may have included such a thread: only more is a leak)
        for (int i = 0; i < 100 && t > threads_with_pool; ++i) {
            std::this_thread::sleep_for(std::chrono::milliseconds(2));
            t = perturb::thread_count();
        }
        if (t > threads_with_pool) ob.problem("thread-leak", "thread leak: " + std::to_string(t) + " threads after the Reader was destroyed, " + std::to_string(threads_with_pool) + " before it was created");
    }
    perturb::configure(0, 0);
    perturb::set_cpus(0);
    if (from_file) ::unlink(path.c_str());
    {
        int t = perturb::thread_count();
        for (int i = 0; i < 100 && t > threads_before; ++i) {
            std::this_thread::sleep_for(std::chrono::milliseconds(2));
            t = perturb::thread_count();
        }
        if (t > threads_before) ob.problem("thread-leak", "thread leak after pool destruction: " + std::to_string(t) + " vs " + std::to_string(threads_before));
        int f = perturb::fd_count();
        if (f != fds_before) ob.problem("fd-leak", "file descriptor leak: " + std::to_string(f) + " open descriptors after the Reader was destroyed, " + std::to_string(fds_before) + " before");
    }
    const std::string outcome = ob.threw ? "exception from " + ob.where + ": " + ob.what : "no exception";
    if (!ob.problems.empty()) vp::fail(ob.problems[0].first, ob.problems[0].second + " | " + outcome + " | " + what);

    // delivered objects: always a prefix of what the intact file contains (nothing invented, nothing reordered, nothing after a gap)
    if (kind != F_TRUNCATED && kind != F_BAD_BLOB && kind != F_CORRUPT) {
        bool prefix = ob.objs.size() <= ref.size();
        for (size_t i = 0; prefix && i < ob.objs.size(); ++i) prefix = ob.objs[i] == ref[i];
        VP_CHECK(prefix, "delivered-not-a-prefix", "the objects delivered before the fault are not a prefix of the file's objects (" << ob.objs.size() << " delivered, file has " << ref.size() << ") | " << outcome << " | " << what);
    }
    // the injected failure must reach the caller if the caller reads to the end
    const bool fired = kind == F_BAD_BLOB || lab::acct().fault_fired.load();
    if (read_to_end && fired && (kind == F_READ_THROWS || kind == F_CLOSE_THROWS || kind == F_BAD_BLOB)) {
        VP_CHECK(ob.threw, "error-not-reported", "the fault fired but no call reported it: the caller read to the end and " << (ending == 1 ? "destroyed" : "closed") << " the Reader without seeing an exception (" << ob.objs.size() << " objects delivered) | " << what);
        if (kind == F_READ_THROWS || kind == F_CLOSE_THROWS) VP_CHECK(ob.what.find("injected") != std::string::npos, "wrong-error-reported", "the caller got a different error than the injected one: " << outcome << " | " << what);
    }
    if (kind == F_BAD_BLOB && bad_blob_expected_known) {
        // everything in front of the (first) broken blob and nothing behind it; when the caller read to the end, exactly that, and the
        // error of the first broken blob
        bool prefix = ob.objs.size() <= bad_blob_expected.size();
        for (size_t i = 0; prefix && i < ob.objs.size(); ++i) prefix = ob.objs[i] == bad_blob_expected[i];
        VP_CHECK(prefix, "delivered-not-a-prefix", "objects delivered from a file with a broken blob are not a prefix of what the blobs in front of it hold (" << ob.objs.size() << " delivered, " << bad_blob_expected.size() << " in front of the broken blob) | " << outcome << " | " << what);
        // (that *all* of them arrive before the error is what the library does, but the statement only asks for the error to be reported:
        // observed, not asserted)
        if (read_to_end && ob.threw) vp::count(ob.objs.size() == bad_blob_expected.size() ? "observed_all_objects_in_front_of_the_broken_blob_delivered" : "observed_error_reported_before_all_objects_in_front_of_it");
        if (read_to_end && ob.threw && !bad_blob_error.empty()) {
            VP_CHECK(ob.what == bad_blob_error, "not-the-first-error", "the caller got [" << ob.what << "], the first broken blob in the file produces [" << bad_blob_error << "] | " << what);
        }
    }
    if (kind == F_NONE) {
        VP_CHECK(!ob.threw, "spurious-error", "an error was reported although nothing failed: " << outcome << " | " << what);
        if (read_to_end) VP_CHECK(ob.objs == ref, "incomplete-without-error", "read to the end without error but " << ob.objs.size() << " of " << ref.size() << " objects delivered | " << what);
    }
    vp::count(std::string{"fault_"} + FAULT_NAME[kind]);
    vp::count(ob.threw ? "reported_by_" + ob.where : std::string{"no_exception"});
    if (fired) vp::count("fault_fired");
    if (from_file) vp::count("from_file");
    if (!read_to_end) vp::count("consumer_stopped_early");
    vp::count("sched_points", perturb::cfg().points.exchange(0));
    if ((fired && !ob.objs.empty()) || (!read_to_end && max_reads > 0)) vp::nontrivial(vp::hash_str(what));
}

// ---------------------------------------------------------------- a closed Reader reads nothing more from its input (real file, no decompressor in between for PBF)
static long fd_pos(int fd) {
    std::ifstream f("/proc/self/fdinfo/" + std::to_string(fd));
    std::string k;
    long v = -1;
    while (f >> k) {
        if (k == "pos:") {
            f >> v;
            break;
        }
    }
    return v;
}
static std::set<int> open_fds() {
    std::set<int> r;
    if (DIR* d = opendir("/proc/self/fd")) {
        while (dirent* e = readdir(d))
            if (e->d_name[0] != '.' && std::atoi(e->d_name) != dirfd(d)) r.insert(std::atoi(e->d_name));
        closedir(d);
    }
    return r;
}

// offsets at which the blobs of a PBF file end (framing only: 4-byte length, BlobHeader with datasize in field 3, Blob)
static std::vector<long> pbf_blob_ends(const std::string& f) {
    std::vector<long> ends;
    size_t p = 0;
    while (p + 4 <= f.size()) {
        const size_t hl = (static_cast<size_t>(static_cast<unsigned char>(f[p])) << 24) | (static_cast<size_t>(static_cast<unsigned char>(f[p + 1])) << 16) |
                          (static_cast<size_t>(static_cast<unsigned char>(f[p + 2])) << 8) | static_cast<size_t>(static_cast<unsigned char>(f[p + 3]));
        p += 4;
        if (hl > f.size() - p) break;
        size_t q = p, end = p + hl, datasize = 0;
        auto varint = [&](uint64_t& v) {
            v = 0;
            for (int sh = 0; q < end && sh < 64; sh += 7) {
                const unsigned char c = static_cast<unsigned char>(f[q++]);
                v |= static_cast<uint64_t>(c & 0x7f) << sh;
                if (!(c & 0x80)) return true;
            }
            return false;
        };
        bool ok = true;
        while (q < end && ok) {
            uint64_t key = 0, v = 0;
            ok = varint(key);
            if (!ok) break;
            if ((key & 7) == 0) {
                ok = varint(v);
                if ((key >> 3) == 3) datasize = static_cast<size_t>(v);
            } else if ((key & 7) == 2) {
                ok = varint(v) && v <= end - q;
                q += static_cast<size_t>(v);
            } else {
                ok = false;
            }
        }
        p = end;
        if (!ok || datasize > f.size() - p) break;
        p += datasize;
        ends.push_back(static_cast<long>(p));
    }
    return ends;
}

static void prop_close_stops_reading(Src& s, int forced_fmt = -1) {
    const int fmt = forced_fmt >= 0 ? forced_fmt : static_cast<int>(s.draw(4));
    // a file that takes a while to parse: many objects, so that the pipeline is still busy when the consumer closes the Reader
    filegen::Made m = filegen::small_file(s, fmt, 6000, false, 3000 + s.draw(3000));
    Pipeline p = lab::gen_pipeline(s);
    static const std::string path = tmpdir::prefix() + "c07b-" + std::to_string(getpid());
    {
        std::ofstream f(path, std::ios::binary | std::ios::trunc);
        f.write(m.bytes.data(), static_cast<std::streamsize>(m.bytes.size()));
    }
    const size_t reads = s.draw(3);
    const std::string what = m.what + " from-file header() reads=" + std::to_string(reads) + " close() " + p.str();
    if (vp::want_desc()) vp::describe("close-stops-reading: " + what);
    long pos_at_close = -1, pos_later = -1, pos_end = -1;
    {
        osmium::thread::Pool pool{p.pool_threads, static_cast<size_t>(p.work_queue)};
        p.apply();
        lab::reset_faults();
        const std::set<int> before = open_fds();
        osmium::io::Reader reader{osmium::io::File{path, m.format}, pool};
        int fd = -1;
        for (int x : open_fds())
            if (!before.count(x)) fd = x;
        (void)reader.header();
        for (size_t k = 0; k < reads; ++k) {
            if (!reader.read()) break;
        }
        reader.close();
        pos_at_close = fd >= 0 ? fd_pos(fd) : -1;
        std::this_thread::sleep_for(std::chrono::milliseconds(3));
        pos_later = fd >= 0 ? fd_pos(fd) : -1;
        std::this_thread::sleep_for(std::chrono::milliseconds(3));
        pos_end = fd >= 0 ? fd_pos(fd) : -1;
    }
    perturb::configure(0, 0);
    perturb::set_cpus(0);
    ::unlink(path.c_str());
    if (std::getenv("VERIF_DUMP")) std::fprintf(stderr, "DUMP fmt=%d size=%zu pos %ld %ld %ld | %s\n", fmt, m.bytes.size(), pos_at_close, pos_later, pos_end, what.c_str());
    // pos -1: the descriptor is already closed (nothing can be read any more)
    bool moved = (pos_at_close >= 0 && pos_later >= 0 && pos_later != pos_at_close) || (pos_later >= 0 && pos_end >= 0 && pos_end != pos_later);
    if (moved && fmt == 0 && pos_at_close >= 0) {
        // The PBF parser reads the file in its own thread, which close() does not wait for: the blob whose read was under way when
        // close() returned (or had just been decided on) may be completed. Nothing beyond the end of that blob may be read.
        long limit = static_cast<long>(m.bytes.size());
        for (long e : pbf_blob_ends(m.bytes)) {
            if (e > pos_at_close) {
                limit = e;
                break;
            }
        }
        const long last = pos_end >= 0 ? pos_end : pos_later;
        if (last <= limit && (pos_later < 0 || pos_later <= limit)) {
            moved = false;
            vp::count("observed_blob_read_in_flight_completed_after_close");
        }
    }
    VP_CHECK(!moved, "read-after-close", "the input file was still being read after close() had returned: file offset " << pos_at_close << " when close() returned, " << pos_later << " 3 ms later, " << pos_end << " 6 ms later (file size " << m.bytes.size() << ") | " << what);
    vp::count("close_stops_reading_cases");
    if (pos_at_close >= 0 && static_cast<size_t>(pos_at_close) < m.bytes.size()) vp::count("closed_before_the_file_was_read_completely");
    vp::nontrivial(vp::hash_str(what));
}

VP_BUILTIN(F28_pbf_file_read_after_close) {
    for (uint64_t seed : {11, 12, 13, 14, 15, 16}) {
        vp::Src s{seed};
        prop_close_stops_reading(s, 0);
    }
}

VP_BUILTIN(F29_pbf_fd_leak_on_error) {
    // a PBF file on disk whose first data blob cannot be decoded, and one that is cut off inside the header blob
    vp::Src s{4711};
    filegen::Made m = filegen::small_file(s, 0, 8, false, 3);
    static const std::string path = tmpdir::prefix() + "c07c-" + std::to_string(getpid());
    for (size_t cut : {m.bytes.size() / 2, static_cast<size_t>(11), static_cast<size_t>(0)}) {
        {
            std::ofstream f(path, std::ios::binary | std::ios::trunc);
            f.write(m.bytes.data(), static_cast<std::streamsize>(cut));
        }
        const int before = perturb::fd_count();
        for (int round = 0; round < 3; ++round) {
            try {
                osmium::io::Reader reader{osmium::io::File{path, "pbf"}};
                while (reader.read()) {
                }
                reader.close();
            } catch (const std::exception&) {
            }
        }
        ::unlink(path.c_str());
        VP_CHECK(perturb::fd_count() == before, "fd-leak", "reading a truncated PBF file (cut at " << cut << " of " << m.bytes.size() << " bytes) three times left " << (perturb::fd_count() - before) << " file descriptors open");
    }
}

// ---------------------------------------------------------------- a Reader that cannot even be constructed leaves nothing behind
// The file does not exist; it exists but its name says nothing about the format; it exists and the format is known but cannot be read
// (an output-only format, or a compressed file that is not what its suffix says): the constructor (or the first call) reports an error,
// and no descriptor and no thread stays behind -- whichever of these comes first inside the constructor.
static void prop_constructor_failure(Src& s) {
    (void)osmium::thread::Pool::default_instance();
    static const std::string dir = tmpdir::prefix() + "c07ctor-" + std::to_string(getpid());
    const unsigned kind = static_cast<unsigned>(s.draw(6));
    filegen::Made m = filegen::small_file(s, 3, 6);  // some OPL text as content where a file exists
    std::string path, format, what;
    bool make_file = true;
    switch (kind) {
        case 0: path = dir + "-missing.osm"; make_file = false; what = "file does not exist"; break;
        case 1: path = dir + "-missing.osm.bz2"; make_file = false; what = "compressed file does not exist"; break;
        case 2: path = dir + "-noformat.data"; what = "file exists, format cannot be detected from its name"; break;
        case 3: path = dir + "-x.opl"; format = "debug"; what = "file exists, format 'debug' has no parser"; break;
        case 4: path = dir + "-x.opl"; format = s.boolean() ? "blackhole" : "ids"; what = "file exists, output-only format"; break;
        default: path = dir + "-x.opl.bz2"; what = "file exists, is not bzip2 although its name says so"; break;
    }
    if (make_file) {
        std::ofstream f(path, std::ios::binary | std::ios::trunc);
        f.write(m.bytes.data(), static_cast<std::streamsize>(m.bytes.size()));
    }
    if (vp::want_desc()) vp::describe("Reader that cannot be constructed: " + what);
    const int fds_before = perturb::fd_count();
    const int threads_before = perturb::thread_count();
    bool threw = false;
    std::string msg;
    const unsigned attempts = 1 + static_cast<unsigned>(s.draw(4));
    for (unsigned i = 0; i < attempts; ++i) {
        try {
            osmium::io::Reader reader{format.empty() ? osmium::io::File{path} : osmium::io::File{path, format}};
            (void)reader.header();
            while (osmium::memory::Buffer b = reader.read()) {
            }
            reader.close();
        } catch (const std::exception& e) {
            threw = true;
            msg = e.what();
        }
    }
    if (make_file) ::unlink(path.c_str());
    VP_CHECK(threw, "error-not-reported", "a Reader on an unreadable input (" << what << ") reported nothing | " << msg);
    int t = perturb::thread_count();
    for (int i = 0; i < 200 && t > threads_before; ++i) {
        std::this_thread::sleep_for(std::chrono::milliseconds(2));
        t = perturb::thread_count();
    }
    VP_CHECK(t <= threads_before, "thread-leak", "threads after " << attempts << " failed Reader constructions (" << what << "): " << t << ", before: " << threads_before << " | " << msg);
    const int fds = perturb::fd_count();
    VP_CHECK(fds <= fds_before, "fd-leak", "open descriptors after " << attempts << " failed Reader constructions (" << what << "): " << fds << ", before: " << fds_before << " | " << msg);
    vp::count("constructor_failure_" + std::to_string(kind));
    vp::nontrivial(vp::hash_str(what) ^ attempts);
}

VP_BUILTIN(F36_reader_fd_leak_when_compression_is_not_supported) {
    // (this harness registers its own gzip decompressor and does not include the bzip2 header: bzip2 is "not compiled in")
    static const std::string path = tmpdir::prefix() + "c07d-" + std::to_string(getpid()) + ".opl.bz2";
    {
        std::ofstream f(path, std::ios::binary | std::ios::trunc);
        f << "n1 v1\n";
    }
    (void)osmium::thread::Pool::default_instance();
    const int before = perturb::fd_count();
    bool threw = false;
    for (int round = 0; round < 3; ++round) {
        try {
            osmium::io::Reader reader{osmium::io::File{path}};
            while (reader.read()) {
            }
            reader.close();
        } catch (const std::exception&) {
            threw = true;
        }
    }
    ::unlink(path.c_str());
    VP_CHECK(threw, "error-not-reported", "a Reader on a bzip2 file in a program without bzip2 support reported nothing");
    VP_CHECK(perturb::fd_count() <= before, "fd-leak", "three failed Reader constructions on a file whose compression is not supported left " << (perturb::fd_count() - before) << " file descriptors open");
}

static void prop_all(Src& s) {
    if (s.chance(1, 25)) prop_close_stops_reading(s);
    else if (s.chance(1, 30)) prop_constructor_failure(s);
    else prop(s);
}

VP_MAIN(prop_all, "fault scenarios: file (harness encoders, 4 formats, 0..60 objects, PBF with several blobs) x fault {none, the j-th decompressor read throws (every j), decompressor close throws, input "
              "truncated at a byte offset, bytes near the start overwritten with garbage (parser fails while most input is still to come), n-th PBF blob replaced by garbage zlib data or by a block with a string index out of range (fails inside a pool worker)} x consumer script {header() or "
              "not, k reads or read to the end, close() / destructor only / close() twice} x pipeline configuration (pool 1..32, queue sizes 2..20, PBF in pool or parser thread, seeded schedule "
              "perturbation, CPU set) x input piece size x memory or real file. Oracle: every call returns (watchdog); a fault that fired reaches a caller that reads to the end as the injected "
              "exception; after a report read() keeps failing and delivers nothing; delivered objects are a prefix of the file's objects; threads, file descriptors and the decompressor object are "
              "back at the baseline after destruction; the decompressor is not read after close() returned. non-trivial = fault fired after objects were delivered, or consumer stopped early after "
              ">= 1 read; distinct by scenario")
