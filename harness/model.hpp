// model.hpp -- plain-struct model of OSM objects, conversion to/from libosmium buffers, canonical text.
#pragma once

#include "../engine/vp.hpp"

#include <osmium/builder/osm_object_builder.hpp>
#include <osmium/memory/buffer.hpp>
#include <osmium/osm.hpp>
#include <osmium/osm/box.hpp>

#include <string>
#include <vector>

namespace model {

constexpr int32_t UNDEF = 2147483647;

struct Loc {
    int32_t x = UNDEF, y = UNDEF;
    bool operator==(const Loc& o) const { return x == o.x && y == o.y; }
    bool operator!=(const Loc& o) const { return !(*this == o); }
    bool undefined() const { return x == UNDEF && y == UNDEF; }
    bool valid() const { return x >= -1800000000 && x <= 1800000000 && y >= -900000000 && y <= 900000000; }
};

struct Tag {
    std::string k, v;
    bool operator==(const Tag& o) const { return k == o.k && v == o.v; }
};
struct NodeRef {
    int64_t ref = 0;
    Loc loc;
    bool operator==(const NodeRef& o) const { return ref == o.ref && loc == o.loc; }
};
struct Obj;
struct Member {
    int type = 0;  // 0 node 1 way 2 relation
    int64_t ref = 0;
    std::string role;
    std::vector<Obj> full;  // 0 or 1 element: embedded full member object
    bool operator==(const Member& o) const;
};
struct Ring {
    bool outer = true;
    std::vector<NodeRef> refs;
    bool operator==(const Ring& o) const { return outer == o.outer && refs == o.refs; }
};
struct Comment {
    uint32_t date = 0;
    uint32_t uid = 0;
    std::string user, text;
    bool operator==(const Comment& o) const { return date == o.date && uid == o.uid && user == o.user && text == o.text; }
};

enum Type { NODE = 0, WAY = 1, RELATION = 2, CHANGESET = 3, AREA = 4 };

struct Obj {
    int type = NODE;
    int64_t id = 0;
    uint32_t version = 0;
    bool visible = true;
    uint32_t ts = 0;
    uint32_t cs = 0;
    uint32_t uid = 0;
    std::string user;
    std::vector<Tag> tags;
    Loc loc;                      // node
    std::vector<NodeRef> refs;    // way
    std::vector<Member> members;  // relation
    std::vector<Ring> rings;      // area (buffer order: outer ring followed by its inner rings)
    // changeset
    uint32_t created = 0, closed = 0, num_changes = 0, num_comments = 0;
    Loc bl, tr;
    std::vector<Comment> comments;

    bool operator==(const Obj& o) const {
        return type == o.type && id == o.id && version == o.version && visible == o.visible && ts == o.ts && cs == o.cs && uid == o.uid && user == o.user &&
               tags == o.tags && loc == o.loc && refs == o.refs && members == o.members && rings == o.rings && created == o.created && closed == o.closed &&
               num_changes == o.num_changes && num_comments == o.num_comments && bl == o.bl && tr == o.tr && comments == o.comments;
    }
    bool operator!=(const Obj& o) const { return !(*this == o); }
};

inline bool Member::operator==(const Member& o) const { return type == o.type && ref == o.ref && role == o.role && full == o.full; }

inline std::string esc(const std::string& s) {
    std::string o;
    static const char* hx = "0123456789abcdef";
    for (unsigned char c : s) {
        if (c >= 0x20 && c < 0x7f && c != '\\' && c != '"') {
            o += static_cast<char>(c);
        } else {
            o += "\\x";
            o += hx[c >> 4];
            o += hx[c & 15];
        }
    }
    return o;
}
inline std::string brief(const std::string& s) {
    if (s.size() <= 40) return "\"" + esc(s) + "\"";
    return "\"" + esc(s.substr(0, 24)) + "\"...(" + std::to_string(s.size()) + " bytes, h=" + std::to_string(vp::hash_str(s) % 100000) + ")";
}
inline std::string show_loc(const Loc& l) {
    if (l.undefined()) return "undef";
    return std::to_string(l.x) + "/" + std::to_string(l.y);
}

inline std::string show(const Obj& o, bool full = false) {
    static const char* tn[] = {"node", "way", "relation", "changeset", "area"};
    std::string s = std::string{tn[o.type]} + " id=" + std::to_string(o.id);
    if (o.type != CHANGESET) {
        s += " v=" + std::to_string(o.version) + " vis=" + (o.visible ? "1" : "0") + " ts=" + std::to_string(o.ts) + " cs=" + std::to_string(o.cs);
    } else {
        s += " created=" + std::to_string(o.created) + " closed=" + std::to_string(o.closed) + " nchanges=" + std::to_string(o.num_changes) +
             " ncomments=" + std::to_string(o.num_comments) + " box=" + show_loc(o.bl) + "," + show_loc(o.tr);
    }
    s += " uid=" + std::to_string(o.uid) + " user=" + brief(o.user);
    if (o.type == NODE) s += " loc=" + show_loc(o.loc);
    s += " tags[" + std::to_string(o.tags.size()) + "]";
    size_t lim = full ? 1000000 : 3;
    for (size_t i = 0; i < o.tags.size() && i < lim; ++i) s += " " + brief(o.tags[i].k) + "=" + brief(o.tags[i].v);
    if (o.type == WAY) {
        s += " refs[" + std::to_string(o.refs.size()) + "]";
        for (size_t i = 0; i < o.refs.size() && i < lim; ++i) s += " " + std::to_string(o.refs[i].ref) + "@" + show_loc(o.refs[i].loc);
    }
    if (o.type == RELATION) {
        s += " members[" + std::to_string(o.members.size()) + "]";
        for (size_t i = 0; i < o.members.size() && i < lim; ++i) {
            s += std::string{" "} + "nwr"[o.members[i].type] + std::to_string(o.members[i].ref) + ":" + brief(o.members[i].role);
            if (!o.members[i].full.empty()) s += "{" + show(o.members[i].full[0], full) + "}";
        }
    }
    if (o.type == AREA) {
        s += " rings[" + std::to_string(o.rings.size()) + "]";
        for (size_t i = 0; i < o.rings.size() && i < lim; ++i) {
            s += o.rings[i].outer ? " outer(" : " inner(";
            for (size_t k = 0; k < o.rings[i].refs.size() && k < lim; ++k) s += (k ? " " : "") + std::to_string(o.rings[i].refs[k].ref) + "@" + show_loc(o.rings[i].refs[k].loc);
            s += o.rings[i].refs.size() > lim ? " ..)" : ")";
        }
    }
    if (o.type == CHANGESET) {
        s += " comments[" + std::to_string(o.comments.size()) + "]";
        for (size_t i = 0; i < o.comments.size() && i < lim; ++i)
            s += " (" + std::to_string(o.comments[i].date) + "," + std::to_string(o.comments[i].uid) + "," + brief(o.comments[i].user) + "," + brief(o.comments[i].text) + ")";
    }
    return s;
}

inline uint64_t hash(const Obj& o) { return vp::hash_str(show(o, true)); }

// first difference between two objects, for messages
inline std::string diff(const Obj& a, const Obj& b) {
    if (a.type != b.type) return "type " + std::to_string(a.type) + " vs " + std::to_string(b.type);
    if (a.id != b.id) return "id " + std::to_string(a.id) + " vs " + std::to_string(b.id);
    if (a.version != b.version) return "version " + std::to_string(a.version) + " vs " + std::to_string(b.version);
    if (a.visible != b.visible) return "visible " + std::to_string(a.visible) + " vs " + std::to_string(b.visible);
    if (a.ts != b.ts) return "timestamp " + std::to_string(a.ts) + " vs " + std::to_string(b.ts);
    if (a.cs != b.cs) return "changeset " + std::to_string(a.cs) + " vs " + std::to_string(b.cs);
    if (a.uid != b.uid) return "uid " + std::to_string(a.uid) + " vs " + std::to_string(b.uid);
    if (a.user != b.user) return "user " + brief(a.user) + " vs " + brief(b.user);
    if (a.loc != b.loc) return "location " + show_loc(a.loc) + " vs " + show_loc(b.loc);
    if (a.tags.size() != b.tags.size()) return "tag count " + std::to_string(a.tags.size()) + " vs " + std::to_string(b.tags.size());
    for (size_t i = 0; i < a.tags.size(); ++i)
        if (!(a.tags[i] == b.tags[i])) return "tag #" + std::to_string(i) + " " + brief(a.tags[i].k) + "=" + brief(a.tags[i].v) + " vs " + brief(b.tags[i].k) + "=" + brief(b.tags[i].v);
    if (a.refs.size() != b.refs.size()) return "ref count " + std::to_string(a.refs.size()) + " vs " + std::to_string(b.refs.size());
    for (size_t i = 0; i < a.refs.size(); ++i)
        if (!(a.refs[i] == b.refs[i])) return "ref #" + std::to_string(i) + " " + std::to_string(a.refs[i].ref) + "@" + show_loc(a.refs[i].loc) + " vs " + std::to_string(b.refs[i].ref) + "@" + show_loc(b.refs[i].loc);
    if (a.members.size() != b.members.size()) return "member count " + std::to_string(a.members.size()) + " vs " + std::to_string(b.members.size());
    for (size_t i = 0; i < a.members.size(); ++i)
        if (!(a.members[i] == b.members[i]))
            return "member #" + std::to_string(i) + " " + std::to_string(a.members[i].type) + "/" + std::to_string(a.members[i].ref) + "/" + brief(a.members[i].role) + " vs " +
                   std::to_string(b.members[i].type) + "/" + std::to_string(b.members[i].ref) + "/" + brief(b.members[i].role);
    if (!(a.rings == b.rings)) return "rings differ (" + std::to_string(a.rings.size()) + " vs " + std::to_string(b.rings.size()) + ")";
    if (a.created != b.created) return "created_at " + std::to_string(a.created) + " vs " + std::to_string(b.created);
    if (a.closed != b.closed) return "closed_at " + std::to_string(a.closed) + " vs " + std::to_string(b.closed);
    if (a.num_changes != b.num_changes) return "num_changes " + std::to_string(a.num_changes) + " vs " + std::to_string(b.num_changes);
    if (a.num_comments != b.num_comments) return "num_comments " + std::to_string(a.num_comments) + " vs " + std::to_string(b.num_comments);
    if (a.bl != b.bl || a.tr != b.tr) return "bounds " + show_loc(a.bl) + "," + show_loc(a.tr) + " vs " + show_loc(b.bl) + "," + show_loc(b.tr);
    if (a.comments.size() != b.comments.size()) return "comment count " + std::to_string(a.comments.size()) + " vs " + std::to_string(b.comments.size());
    for (size_t i = 0; i < a.comments.size(); ++i)
        if (!(a.comments[i] == b.comments[i])) return "comment #" + std::to_string(i) + " differs: (" + std::to_string(a.comments[i].date) + "," + std::to_string(a.comments[i].uid) + "," + brief(a.comments[i].user) + "," + brief(a.comments[i].text) + ") vs (" + std::to_string(b.comments[i].date) + "," + std::to_string(b.comments[i].uid) + "," + brief(b.comments[i].user) + "," + brief(b.comments[i].text) + ")";
    return "";
}

// ---------------------------------------------------------------- to / from libosmium

inline osmium::Location to_location(const Loc& l) { return osmium::Location{l.x, l.y}; }
inline Loc from_location(const osmium::Location& l) { return Loc{l.x(), l.y()}; }

inline osmium::item_type member_type(int t) {
    return t == 0 ? osmium::item_type::node : t == 1 ? osmium::item_type::way : osmium::item_type::relation;
}

template <typename B>
inline void set_common(B& b, const Obj& o) {
    b.set_id(o.id).set_version(o.version).set_visible(o.visible).set_timestamp(osmium::Timestamp{o.ts}).set_changeset(o.cs).set_uid(o.uid).set_user(o.user.c_str(),
                                                                                                                                                     static_cast<osmium::string_size_type>(o.user.size()));
}

template <typename B>
inline void add_tags(osmium::memory::Buffer& buf, B& parent, const Obj& o) {
    if (o.tags.empty()) return;
    osmium::builder::TagListBuilder tb{buf, &parent};
    for (const auto& t : o.tags) tb.add_tag(t.k.data(), t.k.size(), t.v.data(), t.v.size());
}

inline void add_to_buffer(osmium::memory::Buffer& buf, const Obj& o);

inline void add_to_buffer(osmium::memory::Buffer& buf, const Obj& o) {
    using namespace osmium::builder;
    switch (o.type) {
        case NODE: {
            NodeBuilder b{buf};
            set_common(b, o);
            b.set_location(to_location(o.loc));
            add_tags(buf, b, o);
            break;
        }
        case WAY: {
            WayBuilder b{buf};
            set_common(b, o);
            if (!o.refs.empty()) {
                WayNodeListBuilder w{buf, &b};
                for (const auto& r : o.refs) w.add_node_ref(osmium::NodeRef{r.ref, to_location(r.loc)});
            }
            add_tags(buf, b, o);
            break;
        }
        case RELATION: {
            RelationBuilder b{buf};
            set_common(b, o);
            if (!o.members.empty()) {
                RelationMemberListBuilder m{buf, &b};
                for (const auto& x : o.members) {
                    if (x.full.empty()) {
                        m.add_member(member_type(x.type), x.ref, x.role.data(), x.role.size());
                    } else {
                        // the full member object has to exist somewhere else while it is copied in
                        osmium::memory::Buffer tmp{256, osmium::memory::Buffer::auto_grow::yes};
                        add_to_buffer(tmp, x.full[0]);
                        m.add_member(member_type(x.type), x.ref, x.role.data(), x.role.size(), &tmp.get<osmium::OSMObject>(0));
                    }
                }
            }
            add_tags(buf, b, o);
            break;
        }
        case AREA: {
            AreaBuilder b{buf};
            set_common(b, o);
            add_tags(buf, b, o);
            for (const auto& r : o.rings) {
                if (r.outer) {
                    OuterRingBuilder rb{buf, &b};
                    for (const auto& n : r.refs) rb.add_node_ref(osmium::NodeRef{n.ref, to_location(n.loc)});
                } else {
                    InnerRingBuilder rb{buf, &b};
                    for (const auto& n : r.refs) rb.add_node_ref(osmium::NodeRef{n.ref, to_location(n.loc)});
                }
            }
            break;
        }
        default: {
            ChangesetBuilder b{buf};
            b.set_id(static_cast<osmium::changeset_id_type>(o.id)).set_uid(o.uid).set_created_at(osmium::Timestamp{o.created}).set_closed_at(osmium::Timestamp{o.closed});
            b.set_num_changes(o.num_changes).set_num_comments(o.num_comments);
            b.set_bounds(osmium::Box{to_location(o.bl), to_location(o.tr)});
            b.set_user(o.user.c_str(), static_cast<osmium::string_size_type>(o.user.size()));
            add_tags(buf, b, o);
            if (!o.comments.empty()) {
                ChangesetDiscussionBuilder d{buf, &b};
                for (const auto& c : o.comments) {
                    d.add_comment(osmium::Timestamp{c.date}, c.uid, c.user.c_str());
                    d.add_comment_text(c.text);
                }
            }
            break;
        }
    }
    buf.commit();
}

inline void read_tags(const osmium::TagList& tl, Obj& o) {
    for (const auto& t : tl) o.tags.push_back(Tag{t.key(), t.value()});
}

inline Obj from_entity(const osmium::OSMEntity& e) {
    Obj o;
    switch (e.type()) {
        case osmium::item_type::node:
        case osmium::item_type::way:
        case osmium::item_type::relation:
        case osmium::item_type::area: {
            const auto& ob = static_cast<const osmium::OSMObject&>(e);
            o.type = e.type() == osmium::item_type::node ? NODE : e.type() == osmium::item_type::way ? WAY : e.type() == osmium::item_type::relation ? RELATION : AREA;
            o.id = ob.id();
            o.version = ob.version();
            o.visible = ob.visible();
            o.ts = static_cast<uint32_t>(ob.timestamp());
            o.cs = ob.changeset();
            o.uid = ob.uid();
            o.user = ob.user();
            read_tags(ob.tags(), o);
            if (o.type == NODE) o.loc = from_location(static_cast<const osmium::Node&>(e).location());
            if (o.type == WAY) {
                for (const auto& nr : static_cast<const osmium::Way&>(e).nodes()) o.refs.push_back(NodeRef{nr.ref(), from_location(nr.location())});
            }
            if (o.type == RELATION) {
                for (const auto& m : static_cast<const osmium::Relation&>(e).members()) {
                    int t = m.type() == osmium::item_type::node ? 0 : m.type() == osmium::item_type::way ? 1 : m.type() == osmium::item_type::relation ? 2 : 9;
                    Member mm;
                    mm.type = t;
                    mm.ref = m.ref();
                    mm.role = m.role();
                    if (m.full_member()) mm.full.push_back(from_entity(m.get_object()));
                    o.members.push_back(mm);
                }
            }
            if (o.type == AREA) {
                for (const auto& item : ob) {
                    if (item.type() == osmium::item_type::outer_ring || item.type() == osmium::item_type::inner_ring) {
                        Ring r;
                        r.outer = item.type() == osmium::item_type::outer_ring;
                        for (const auto& nr : static_cast<const osmium::NodeRefList&>(item)) r.refs.push_back(NodeRef{nr.ref(), from_location(nr.location())});
                        o.rings.push_back(r);
                    }
                }
            }
            break;
        }
        case osmium::item_type::changeset: {
            const auto& c = static_cast<const osmium::Changeset&>(e);
            o.type = CHANGESET;
            o.id = c.id();
            o.uid = c.uid();
            o.user = c.user();
            o.created = static_cast<uint32_t>(c.created_at());
            o.closed = static_cast<uint32_t>(c.closed_at());
            o.num_changes = c.num_changes();
            o.num_comments = c.num_comments();
            o.bl = from_location(c.bounds().bottom_left());
            o.tr = from_location(c.bounds().top_right());
            read_tags(c.tags(), o);
            for (const auto& cm : c.discussion()) o.comments.push_back(Comment{static_cast<uint32_t>(cm.date()), cm.uid(), cm.user(), cm.text()});
            break;
        }
        default:
            o.type = 99;
            break;
    }
    return o;
}

inline std::vector<Obj> from_buffer(const osmium::memory::Buffer& buf) {
    std::vector<Obj> v;
    for (const auto& e : buf) v.push_back(from_entity(e));
    return v;
}

}  // namespace model
