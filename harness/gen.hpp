// gen.hpp -- value generators on top of vp::Src (boundary-weighted integers, string classes, model objects).
#pragma once

#include "model.hpp"

namespace gen {

using vp::Src;

inline std::string utf8(uint32_t cp) {
    std::string s;
    if (cp < 0x80) {
        s += static_cast<char>(cp);
    } else if (cp < 0x800) {
        s += static_cast<char>(0xc0 | (cp >> 6));
        s += static_cast<char>(0x80 | (cp & 0x3f));
    } else if (cp < 0x10000) {
        s += static_cast<char>(0xe0 | (cp >> 12));
        s += static_cast<char>(0x80 | ((cp >> 6) & 0x3f));
        s += static_cast<char>(0x80 | (cp & 0x3f));
    } else {
        s += static_cast<char>(0xf0 | (cp >> 18));
        s += static_cast<char>(0x80 | ((cp >> 12) & 0x3f));
        s += static_cast<char>(0x80 | ((cp >> 6) & 0x3f));
        s += static_cast<char>(0x80 | (cp & 0x3f));
    }
    return s;
}

// boundary-weighted integer in [lo, hi]: small values, explicit boundaries, uniform
inline int64_t bint(Src& s, int64_t lo, int64_t hi, std::initializer_list<int64_t> edges = {}) {
    switch (s.weighted({4, 3, 3})) {
        case 0: {  // small (near lo or near 0)
            int64_t base = (lo <= 0 && hi >= 0) ? 0 : lo;
            int64_t v = base + static_cast<int64_t>(s.draw(20));
            if (lo < 0 && s.chance(1, 4)) v = -v;
            if (v < lo) v = lo;
            if (v > hi) v = hi;
            return v;
        }
        case 1: {
            std::vector<int64_t> e{lo, hi, lo + 1, hi - 1};
            for (int64_t x : edges) {
                for (int64_t d : {-1, 0, 1}) {
                    int64_t v = x + d;
                    if (v >= lo && v <= hi) e.push_back(v);
                }
            }
            int64_t v = s.pick(e);
            if (v < lo) v = lo;
            if (v > hi) v = hi;
            return v;
        }
        default:
            return s.range(lo, hi);
    }
}

enum class StrMode { any_utf8, xml10 };

// one Unicode scalar drawn from classes; xml10: only XML 1.0 Char
inline uint32_t scalar(Src& s, StrMode m) {
    static const uint32_t edges[] = {0x7f, 0x80, 0xa0, 0xa1, 0xad, 0xff, 0x100, 0x5ff, 0x600, 0x7ff, 0x800, 0xfff, 0x1000, 0xd7ff, 0xe000, 0xfffd,
                                     0x10000, 0x1ffff, 0xfffff, 0x100000, 0x10ffff, 0x2028, 0x85, 0xfeff};
    static const char structural[] = " ,=@%\n\r\t&<>\"'/\\:;#!?+-[]{}()|~^`$*";
    uint32_t cp;
    switch (s.weighted({5, 3, 2, 1, 1})) {
        case 0: cp = 0x61 + static_cast<uint32_t>(s.draw(26)); break;
        case 1: cp = static_cast<uint32_t>(static_cast<unsigned char>(structural[s.draw(sizeof(structural) - 1)])); break;
        case 2: cp = edges[s.draw(sizeof(edges) / sizeof(edges[0]))]; break;
        case 3: cp = 1 + static_cast<uint32_t>(s.draw(0x7f)); break;
        default: cp = 1 + static_cast<uint32_t>(s.draw(0x10ffff)); break;
    }
    if (cp >= 0xd800 && cp <= 0xdfff) cp = 0xe9;
    if (cp == 0) cp = 'z';
    if (m == StrMode::xml10) {
        bool ok = cp == 0x9 || cp == 0xa || cp == 0xd || (cp >= 0x20 && cp <= 0xd7ff) || (cp >= 0xe000 && cp <= 0xfffd) || cp >= 0x10000;
        if (!ok) cp = 0x263a;
    }
    return cp;
}

// string of at most max_bytes bytes (valid UTF-8, no NUL); lengths weighted to 0, small and the byte-length boundaries
inline std::string str(Src& s, StrMode m, size_t max_bytes = 1024) {
    size_t target;
    switch (s.weighted({3, 5, 2, 1})) {
        case 0: target = 0; break;
        case 1: target = 1 + s.draw(12); break;
        case 2: target = s.draw(80); break;
        default: {
            static const size_t lens[] = {7, 8, 9, 15, 16, 17, 255, 256, 257, 1023, 1024};
            target = lens[s.draw(sizeof(lens) / sizeof(lens[0]))];
            break;
        }
    }
    if (target > max_bytes) target = max_bytes;
    std::string out;
    bool filler = target > 100;  // long strings: mostly one repeated char to keep the choice sequence short
    while (out.size() < target) {
        std::string c;
        if (filler && out.size() + 8 < target) {
            size_t run = target - out.size() - 8;
            out.append(run, 'x');
            continue;
        }
        c = utf8(scalar(s, m));
        if (out.size() + c.size() > target) {
            out.append(target - out.size(), 'y');
            break;
        }
        out += c;
    }
    return out;
}

inline model::Loc location(Src& s, bool allow_undefined, bool valid_only) {
    if (allow_undefined && s.chance(1, 6)) return model::Loc{};
    model::Loc l;
    if (valid_only) {
        l.x = static_cast<int32_t>(bint(s, -1800000000, 1800000000, {0, 1800000000, -1800000000}));
        l.y = static_cast<int32_t>(bint(s, -900000000, 900000000, {0, 900000000, -900000000}));
    } else {
        l.x = static_cast<int32_t>(bint(s, INT32_MIN, INT32_MAX - 1, {0, 1800000000, -1800000000, 1800000001}));
        l.y = static_cast<int32_t>(bint(s, INT32_MIN, INT32_MAX - 1, {0, 900000000, -900000000, 900000001}));
    }
    return l;
}

struct ObjOpts {
    StrMode strmode = StrMode::any_utf8;
    bool allow_invisible = true;
    bool valid_locations_only = false;  // OPL drops invalid node locations on purpose
    bool ref_locations = false;         // generate locations on way node refs
    bool allow_changesets = false;
    bool allow_discussions = false;
    size_t max_list = 40;               // max tags/refs/members
    size_t max_str = 1024;
    int64_t id_min = INT64_MIN + 1, id_max = INT64_MAX;
    uint32_t max_u32 = 4294967294u;     // changeset ids etc. (UINT32_MAX is rejected by design)
};

inline std::vector<model::Tag> tags(Src& s, const ObjOpts& o) {
    std::vector<model::Tag> t;
    size_t n = s.size(o.max_list);
    for (size_t i = 0; i < n; ++i) t.push_back(model::Tag{str(s, o.strmode, o.max_str), str(s, o.strmode, o.max_str)});
    return t;
}

inline model::Obj object(Src& s, int type, const ObjOpts& o) {
    model::Obj x;
    x.type = type;
    if (type == model::CHANGESET) {
        x.id = bint(s, 0, o.max_u32, {1LL << 31});
        x.uid = static_cast<uint32_t>(bint(s, 0, 2147483647));
        if (x.uid != 0) x.user = str(s, o.strmode, std::min<size_t>(o.max_str, 255));
        x.created = static_cast<uint32_t>(bint(s, 0, 4294967295LL, {1LL << 31}));
        x.closed = static_cast<uint32_t>(bint(s, 0, 4294967295LL, {1LL << 31}));
        x.num_changes = static_cast<uint32_t>(bint(s, 0, o.max_u32));
        if (s.chance(2, 3)) {
            x.bl = location(s, false, true);
            x.tr = location(s, false, true);
            if (x.bl.x > x.tr.x) std::swap(x.bl.x, x.tr.x);
            if (x.bl.y > x.tr.y) std::swap(x.bl.y, x.tr.y);
        }
        x.tags = tags(s, o);
        if (o.allow_discussions && s.chance(1, 2)) {
            size_t n = 1 + s.draw(4);
            for (size_t i = 0; i < n; ++i) {
                model::Comment c;
                c.date = static_cast<uint32_t>(bint(s, 1, 4294967295LL));
                c.uid = static_cast<uint32_t>(bint(s, 0, 2147483647));
                c.user = str(s, o.strmode, 255);
                c.text = str(s, o.strmode, o.max_str);
                x.comments.push_back(c);
            }
        }
        x.num_comments = static_cast<uint32_t>(x.comments.size());
        return x;
    }
    x.id = bint(s, o.id_min, o.id_max, {0, 1LL << 31, 1LL << 32, -(1LL << 31), -(1LL << 32), 1LL << 53});
    x.version = static_cast<uint32_t>(bint(s, 0, 2147483647));
    x.visible = o.allow_invisible ? !s.chance(1, 4) : true;
    x.ts = static_cast<uint32_t>(bint(s, 0, 4294967295LL, {1LL << 31}));
    x.cs = static_cast<uint32_t>(bint(s, 0, o.max_u32, {1LL << 31}));
    x.uid = static_cast<uint32_t>(bint(s, 0, 2147483647));
    x.user = str(s, o.strmode, std::min<size_t>(o.max_str, 255));
    x.tags = tags(s, o);
    if (type == model::NODE) {
        // deleted nodes carry no location (readers drop it by design)
        x.loc = x.visible ? location(s, true, o.valid_locations_only) : model::Loc{};
    } else if (type == model::WAY) {
        size_t n = s.size(o.max_list);
        int64_t prev = 0;
        for (size_t i = 0; i < n; ++i) {
            model::NodeRef r;
            if (s.chance(1, 2) && prev > INT64_MIN + 8 && prev < INT64_MAX - 8) {
                r.ref = prev + static_cast<int64_t>(s.draw(5)) - 2;
            } else {
                r.ref = bint(s, INT64_MIN + 1, INT64_MAX, {0, 1LL << 32});
            }
            prev = r.ref;
            if (o.ref_locations) r.loc = location(s, true, true);
            x.refs.push_back(r);
        }
    } else {
        size_t n = s.size(o.max_list);
        for (size_t i = 0; i < n; ++i) {
            model::Member m;
            m.type = static_cast<int>(s.draw(3));
            m.ref = bint(s, INT64_MIN + 1, INT64_MAX, {0, 1LL << 32});
            m.role = str(s, o.strmode, o.max_str);
            x.members.push_back(std::move(m));
        }
    }
    return x;
}

}  // namespace gen
