// C13: coordinate, timestamp and number text conversions are exact and strict.
#include "../engine/vp_enum.hpp"

#include <osmium/io/detail/opl_parser_functions.hpp>
#include <osmium/io/detail/output_format.hpp>
#include <osmium/osm/location.hpp>
#include <osmium/osm/timestamp.hpp>
#include <osmium/osm/types_from_string.hpp>

#include <iterator>

using i128 = __int128;

// ------------------------------------------------------------------ coordinate reference (decimal string arithmetic)

struct Sentence {
    bool ok = false;        // full string matches  -?(d+(.d*)?|.d+)([eE]-?d+)?
    bool in_range = false;  // rounded value fits int32
    int64_t value = 0;
    int intdigits = 0, fracdigits = 0, expdigits = 0;
};

static bool isd(char c) { return c >= '0' && c <= '9'; }

static Sentence eval_sentence(const std::string& s) {
    Sentence r;
    size_t i = 0;
    bool neg = false;
    if (i < s.size() && s[i] == '-') {
        neg = true;
        ++i;
    }
    std::string digits;
    while (i < s.size() && isd(s[i])) {
        digits += s[i++];
        ++r.intdigits;
    }
    if (i < s.size() && s[i] == '.') {
        ++i;
        while (i < s.size() && isd(s[i])) {
            digits += s[i++];
            ++r.fracdigits;
        }
        if (r.intdigits == 0 && r.fracdigits == 0) return r;
    } else if (r.intdigits == 0) {
        return r;
    }
    long long e = 0;
    if (i < s.size() && (s[i] == 'e' || s[i] == 'E')) {
        ++i;
        bool eneg = false;
        if (i < s.size() && s[i] == '-') {
            eneg = true;
            ++i;
        }
        if (i >= s.size() || !isd(s[i])) return r;
        while (i < s.size() && isd(s[i])) {
            if (e < 100000000) e = e * 10 + (s[i] - '0');
            ++i;
            ++r.expdigits;
        }
        if (eneg) e = -e;
    }
    if (i != s.size()) return r;
    r.ok = true;
    // value * 10^7 = digits * 10^(e + 7 - fracdigits)
    size_t z = 0;
    while (z < digits.size() && digits[z] == '0') ++z;
    digits = digits.substr(z);
    if (digits.empty()) {
        r.in_range = true;
        r.value = 0;
        return r;
    }
    long long shift = e + 7 - r.fracdigits;
    i128 v = 0;
    if (shift >= 0) {
        if (static_cast<long long>(digits.size()) + shift > 12) return r;  // >= 10^11: out of range
        for (char c : digits) v = v * 10 + (c - '0');
        for (long long k = 0; k < shift; ++k) v *= 10;
    } else {
        long long k = -shift;
        if (k > static_cast<long long>(digits.size()) + 1) {
            v = 0;
        } else {
            std::string d = digits;
            while (static_cast<long long>(d.size()) < k + 1) d = "0" + d;
            std::string ip = d.substr(0, d.size() - k);
            char rd = d[d.size() - k];
            size_t zz = 0;
            while (zz < ip.size() && ip[zz] == '0') ++zz;
            ip = ip.substr(zz);
            if (ip.size() > 12) return r;
            for (char c : ip) v = v * 10 + (c - '0');
            if (rd >= '5') v += 1;
        }
    }
    if (neg) {
        if (v > static_cast<i128>(2147483648LL)) return r;
        r.value = -static_cast<int64_t>(v);
    } else {
        if (v > static_cast<i128>(2147483647LL)) return r;
        r.value = static_cast<int64_t>(v);
    }
    r.in_range = true;
    return r;
}

static bool within_limits(const Sentence& r) { return r.intdigits <= 10 && r.fracdigits <= 27 && r.expdigits <= 5; }

static std::string q(const std::string& s) { return "'" + s + "'"; }

// check one string through the partial parser and the two full-string setters
static void check_coord_string(const std::string& s, vp::Local& L) {
    // partial parser
    {
        const char* p = s.c_str();
        bool threw = false;
        int32_t v = 0;
        try {
            v = osmium::detail::string_to_location_coordinate(&p);
        } catch (const osmium::invalid_location&) {
            threw = true;
        }
        if (!threw) {
            size_t used = static_cast<size_t>(p - s.c_str());
            VP_CHECK(used <= s.size(), "coord-overrun", "parser moved past the end of " << q(s));
            Sentence r = eval_sentence(s.substr(0, used));
            VP_CHECK(r.ok, "coord-accepts-nonsentence", "string_to_location_coordinate(" << q(s) << ") consumed " << used << " chars which are not a number");
            VP_CHECK(r.in_range, "coord-accepts-out-of-range", "string_to_location_coordinate(" << q(s) << ") returned " << v << " but the value is out of int32 range");
            VP_CHECK(r.value == v, "coord-wrong-value", "string_to_location_coordinate(" << q(s) << ") = " << v << ", decimal arithmetic says " << r.value);
            L.count("partial_accept");
        } else {
            Sentence r = eval_sentence(s);
            if (r.ok && r.in_range && within_limits(r)) {
                vp::fail("coord-rejects-valid", "string_to_location_coordinate rejects " + q(s) + " (value " + std::to_string(r.value) + ")");
            }
            L.count("partial_reject");
        }
    }
    // full-string setters
    for (int which = 0; which < 2; ++which) {
        osmium::Location loc;
        bool threw = false;
        try {
            if (which == 0) loc.set_lon(s.c_str());
            else loc.set_lat(s.c_str());
        } catch (const osmium::invalid_location&) {
            threw = true;
        }
        Sentence r = eval_sentence(s);
        if (!threw) {
            int32_t v = which == 0 ? loc.x() : loc.y();
            VP_CHECK(r.ok, "coord-accepts-nonsentence", "set_lon/lat(" << q(s) << ") accepted a string that is not fully a number");
            VP_CHECK(r.in_range, "coord-accepts-out-of-range", "set_lon/lat(" << q(s) << ") returned " << v << ", true value out of range");
            VP_CHECK(r.value == v, "coord-wrong-value", "set_lon/lat(" << q(s) << ") = " << v << ", decimal arithmetic says " << r.value);
        } else if (r.ok && r.in_range && within_limits(r)) {
            vp::fail("coord-rejects-valid", "set_lon/lat rejects " + q(s));
        }
    }
}

static std::string ref_format_coord(int32_t x) {
    long long v = x;
    std::string s;
    if (v < 0) {
        s += '-';
        v = -v;
    }
    char b[40];
    std::snprintf(b, sizeof(b), "%lld.%07lld", v / 10000000, v % 10000000);
    s += b;
    while (s.back() == '0') s.pop_back();
    if (s.back() == '.') s.pop_back();
    return s;
}

static void coord_roundtrip(uint64_t idx, vp::Local& L) {
    int32_t x = static_cast<int32_t>(static_cast<uint32_t>(idx));
    std::string s;
    osmium::detail::append_location_coordinate_to_string(std::back_inserter(s), x);
    std::string ref = ref_format_coord(x);
    VP_CHECK(s == ref, "coord-format", "format(" << x << ") = " << q(s) << " expected " << q(ref));
    const char* p = s.c_str();
    int32_t back = 0;
    try {
        back = osmium::detail::string_to_location_coordinate(&p);
    } catch (const std::exception& e) {
        vp::fail("coord-roundtrip", "parse(format(" + std::to_string(x) + ")) threw: " + e.what());
    }
    VP_CHECK(*p == '\0', "coord-roundtrip", "parse(format(" << x << ")) did not consume " << q(s));
    VP_CHECK(back == x, "coord-roundtrip", "parse(format(" << x << ")) = " << back << " via " << q(s));
    // the Location API (set_lon/set_lat on strings, as_string_without_check)
    if ((idx & 7) == 0) {
        osmium::Location loc;
        loc.set_lon(s.c_str());
        loc.set_lat(s.c_str());
        VP_CHECK(loc.x() == x && loc.y() == x, "coord-roundtrip", "set_lon/set_lat(" << q(s) << ") gives " << loc.x() << "/" << loc.y());
        std::string both;
        loc.as_string_without_check(std::back_inserter(both), ' ');
        VP_CHECK(both == s + " " + s, "coord-format", "as_string gives " << q(both));
        const char* pp = both.c_str();
        osmium::Location l2;
        l2.set_lon_partial(&pp);
        VP_CHECK(*pp == ' ', "coord-roundtrip", "set_lon_partial stops at wrong place in " << q(both));
        ++pp;
        l2.set_lat_partial(&pp);
        VP_CHECK(l2 == loc && *pp == '\0', "coord-roundtrip", "partial setters differ on " << q(both));
        // the full setters must take the whole string
        if ((idx & 63) == 0)
        for (const char* tail : {"x", " ", ",1", "e"}) {
            bool threw = false;
            try {
                osmium::Location l3;
                l3.set_lon((s + tail).c_str());
            } catch (const osmium::invalid_location&) {
                threw = true;
            }
            VP_CHECK(threw, "coord-accepts-garbage", "set_lon(" << q(s + tail) << ") accepted");
        }
        // validity, checked accessors and the order, for (x, 0), (0, x) and (x, x)
        const int64_t X = x;
        struct P {
            int32_t a, b;
        } const pts[] = {{x, 0}, {0, x}, {x, x}};
        for (const P& pt : pts) {
            if ((idx & 63) != 0 && x > -1800000100 && x < 1800000100 && (x < 899999900 || x > 900000100) && (x > -899999900 || x < -900000100)) break;  // (every 64th value, and all values near the limits)
            const osmium::Location l{pt.a, pt.b};
            const bool want_valid = pt.a >= -1800000000 && pt.a <= 1800000000 && pt.b >= -900000000 && pt.b <= 900000000;
            VP_CHECK(l.valid() == want_valid, "loc-valid", "Location(" << pt.a << "," << pt.b << ").valid() = " << l.valid());
            const bool undef_a = pt.a == 2147483647, undef_b = pt.b == 2147483647;
            VP_CHECK(l.is_undefined() == (undef_a && undef_b) && l.is_defined() == !(undef_a && undef_b), "loc-valid", "is_defined/is_undefined of Location(" << pt.a << "," << pt.b << ")");
            bool threw = false;
            double lon = 0, lat = 0;
            std::string txt;
            try {
                lon = l.lon();
                lat = l.lat();
                l.as_string(std::back_inserter(txt), ';');
            } catch (const osmium::invalid_location&) {
                threw = true;
            }
            VP_CHECK(threw == !want_valid, "loc-valid", "lon()/lat()/as_string() of Location(" << pt.a << "," << pt.b << ") " << (threw ? "threw" : "did not throw"));
            if (!threw) {
                VP_CHECK(lon == static_cast<double>(pt.a) / 10000000.0 && lat == static_cast<double>(pt.b) / 10000000.0, "loc-value", "lon()/lat() of Location(" << pt.a << "," << pt.b << ") = " << lon << "/" << lat);
                std::string want;
                osmium::Location{pt.a, pt.b}.as_string_without_check(std::back_inserter(want), ';');
                VP_CHECK(txt == want && txt.find(';') != std::string::npos, "coord-format", "as_string of Location(" << pt.a << "," << pt.b << ") = " << q(txt));
            }
            VP_CHECK(l.lon_without_check() == static_cast<double>(pt.a) / 10000000.0 && l.lat_without_check() == static_cast<double>(pt.b) / 10000000.0, "loc-value", "lon/lat_without_check of Location(" << pt.a << "," << pt.b << ")");
            {
                // through doubles and back: the nearest fixed-point value of x / 10^7 is x
                const osmium::Location viad{l.lon_without_check(), l.lat_without_check()};
                VP_CHECK(viad.x() == pt.a && viad.y() == pt.b, "loc-value", "Location(double, double) of " << pt.a << "/" << pt.b << " * 1e-7 gives " << viad.x() << "/" << viad.y());
            }
            for (int64_t d : {-1LL, 0LL, 1LL}) {
                for (const P& o : {P{static_cast<int32_t>(pt.a + d == X + d && pt.a + d >= -2147483648LL && pt.a + d <= 2147483647LL ? pt.a + d : pt.a), pt.b}, P{pt.a, static_cast<int32_t>(pt.b + d >= -2147483648LL && pt.b + d <= 2147483647LL ? pt.b + d : pt.b)}}) {
                    const osmium::Location m{o.a, o.b};
                    // ("if either of the locations is undefined the result is undefined")
                    if (pt.a == 2147483647 || pt.b == 2147483647 || o.a == 2147483647 || o.b == 2147483647) continue;
                    const auto ka = std::make_pair(pt.a, pt.b), kb = std::make_pair(o.a, o.b);
                    VP_CHECK((l == m) == (ka == kb) && (l != m) == (ka != kb) && (l < m) == (ka < kb) && (l > m) == (ka > kb) && (l <= m) == (ka <= kb) && (l >= m) == (ka >= kb), "loc-order",
                             "comparison of Location(" << pt.a << "," << pt.b << ") with Location(" << o.a << "," << o.b << ")");
                    if (ka == kb) VP_CHECK(std::hash<osmium::Location>{}(l) == std::hash<osmium::Location>{}(m), "loc-order", "equal locations hash differently");
                }
            }
        }
    }
    ++L.nontrivial;
}

static const char COORD_ALPHA[] = {'0', '1', '5', '9', '.', '-', '+', 'e', 'E', ' ', 'x'};
static std::string nth_alpha_string(uint64_t idx, unsigned k, const char* alpha) {
    uint64_t p = k;
    unsigned len = 1;
    while (idx >= p) {
        idx -= p;
        p *= k;
        ++len;
    }
    std::string s;
    for (unsigned i = 0; i < len; ++i) {
        s += alpha[idx % k];
        idx /= k;
    }
    return s;
}
static uint64_t count_upto(uint64_t k, unsigned len) {
    uint64_t n = 0, p = 1;
    for (unsigned i = 1; i <= len; ++i) {
        p *= k;
        n += p;
    }
    return n;
}

static std::string grammar_string(uint64_t idx) {
    vp::Rng r{vp::mix64(idx * 0x9E3779B1ULL + 99)};
    std::string s;
    if (r.below(3) == 0) s += '-';
    auto digits = [&](size_t n, int style) {
        for (size_t i = 0; i < n; ++i) {
            switch (style) {
                case 0: s += static_cast<char>('0' + r.below(10)); break;
                case 1: s += '9'; break;
                case 2: s += '0'; break;
                case 3: s += (i + 1 == n ? '5' : '0'); break;
                default: s += (i + 1 == n ? '5' : '4'); break;
            }
        }
    };
    size_t ni = r.below(8) == 0 ? r.below(13) : r.below(4);
    digits(ni, static_cast<int>(r.below(3)));
    size_t nf = 0;
    if (r.below(5) != 0 || ni == 0) {
        s += '.';
        nf = r.below(6) == 0 ? r.below(31) : r.below(11);
        if (ni == 0 && nf == 0) nf = 1;
        digits(nf, static_cast<int>(r.below(5)));
    }
    if (r.below(2) == 0) {
        s += (r.below(2) ? 'e' : 'E');
        long long e;
        switch (r.below(4)) {
            case 0: e = static_cast<long long>(r.below(12)) - 2; break;       // makes ignored digits significant
            case 1: e = static_cast<long long>(r.below(40)) - 20; break;
            case 2: e = static_cast<long long>(r.below(200001)) - 100000; break;
            default: e = -static_cast<long long>(nf) + static_cast<long long>(r.below(5)) - 2; break;
        }
        // keep most values in range: compensate integer digits with negative exponents sometimes
        if (r.below(3) == 0) e = -static_cast<long long>(ni) + static_cast<long long>(r.below(4));
        s += std::to_string(e);
    }
    return s;
}

static const char* const MANTISSAS[] = {"1", "9", "0.5", "1.5", "0.00000005", "123456789", "0", "2147483647", "0.000000001234", "-1", "214.7483647",
                                         "0.00000000000000000000000001", "9999999999", "21.47483648", "-21.47483648", "-21.47483649"};
constexpr uint64_t N_MANT = sizeof(MANTISSAS) / sizeof(MANTISSAS[0]);

// ------------------------------------------------------------------ timestamps

static int64_t days_from_civil(int64_t y, int m, int d) {  // proleptic Gregorian, m in 1..12, d may exceed month length (linear carry)
    y -= m <= 2;
    const int64_t era = (y >= 0 ? y : y - 399) / 400;
    const int64_t yoe = y - era * 400;
    const int64_t doy = (153 * (m + (m > 2 ? -3 : 9)) + 2) / 5;  // day 1 of month
    const int64_t doe = yoe * 365 + yoe / 4 - yoe / 100 + doy;
    return era * 146097 + doe - 719468 + (d - 1);
}

static void civil_from_seconds(int64_t t, int& Y, int& M, int& D, int& h, int& mi, int& s) {
    int64_t days = t >= 0 ? t / 86400 : -((-t + 86399) / 86400);
    int64_t rem = t - days * 86400;
    h = static_cast<int>(rem / 3600);
    mi = static_cast<int>(rem % 3600 / 60);
    s = static_cast<int>(rem % 60);
    int64_t z = days + 719468;
    const int64_t era = (z >= 0 ? z : z - 146096) / 146097;
    const int64_t doe = z - era * 146097;
    const int64_t yoe = (doe - doe / 1460 + doe / 36524 - doe / 146096) / 365;
    int64_t y = yoe + era * 400;
    const int64_t doy = doe - (365 * yoe + yoe / 4 - yoe / 100);
    const int64_t mp = (5 * doy + 2) / 153;
    D = static_cast<int>(doy - (153 * mp + 2) / 5 + 1);
    M = static_cast<int>(mp < 10 ? mp + 3 : mp - 9);
    Y = static_cast<int>(y + (M <= 2));
}

static std::string iso(int Y, int M, int D, int h, int mi, int s) {
    char b[64];
    std::snprintf(b, sizeof(b), "%04d-%02d-%02dT%02d:%02d:%02d", Y, M, D, h, mi, s);
    return b;
}

static void ts_roundtrip(uint64_t idx, vp::Local& L) {
    uint32_t t = static_cast<uint32_t>(idx);
    osmium::Timestamp ts{t};
    std::string s = ts.to_iso_all();
    int Y, M, D, h, mi, sec;
    civil_from_seconds(t, Y, M, D, h, mi, sec);
    std::string ref = iso(Y, M, D, h, mi, sec) + "Z";
    VP_CHECK(s == ref, "ts-format", "to_iso_all(" << t << ") = " << s << " expected " << ref);
    if (t != 0) {
        VP_CHECK(ts.to_iso() == ref, "ts-format", "to_iso(" << t << ") = " << ts.to_iso());
    } else {
        VP_CHECK(ts.to_iso().empty(), "ts-format", "to_iso(0) must be empty");
    }
    uint32_t back = 0;
    try {
        back = static_cast<uint32_t>(osmium::Timestamp{s});
    } catch (const std::exception& e) {
        vp::fail("ts-roundtrip", "Timestamp(" + s + ") threw: " + e.what());
    }
    VP_CHECK(back == t, "ts-roundtrip", "Timestamp(to_iso(" << t << ")) = " << back << " via " << s);
    // the value itself: conversions, validity, order (against a neighbour, a far value and the two special values)
    VP_CHECK(static_cast<uint32_t>(ts) == t && static_cast<uint64_t>(ts) == t && ts.seconds_since_epoch() == static_cast<std::time_t>(t), "ts-value", "conversions of Timestamp(" << t << ") give " << static_cast<uint32_t>(ts) << "/" << static_cast<uint64_t>(ts) << "/" << ts.seconds_since_epoch());
    VP_CHECK(ts.valid() == (t != 0) && static_cast<bool>(ts) == (t != 0), "ts-value", "valid() of Timestamp(" << t << ") = " << ts.valid());
    VP_CHECK(osmium::Timestamp{static_cast<uint64_t>(t)} == ts && osmium::Timestamp{static_cast<int64_t>(t)} == ts && osmium::Timestamp{static_cast<std::time_t>(t)} == ts, "ts-value", "Timestamp(" << t << ") from 64-bit integers differs");
    for (uint32_t u : {t + 1, t - 1, t ^ 0x80000000U, 0U, 1U, 4294967295U}) {
        const osmium::Timestamp o{u};
        VP_CHECK((ts == o) == (t == u) && (ts != o) == (t != u) && (ts < o) == (t < u) && (ts > o) == (t > u) && (ts <= o) == (t <= u) && (ts >= o) == (t >= u), "ts-order", "comparison of Timestamp(" << t << ") with Timestamp(" << u << "): == " << (ts == o) << " < " << (ts < o) << " > " << (ts > o) << " <= " << (ts <= o) << " >= " << (ts >= o));
    }
    if (t != 0) VP_CHECK(!(ts < osmium::start_of_time()) && !(osmium::end_of_time() < ts), "ts-order", "Timestamp(" << t << ") is outside start_of_time()..end_of_time()");
    {
        osmium::Timestamp a = ts;
        a += 5;
        VP_CHECK(static_cast<uint32_t>(a) == t + 5, "ts-value", "Timestamp(" << t << ") += 5 gives " << static_cast<uint32_t>(a));
        a -= 7;
        VP_CHECK(static_cast<uint32_t>(a) == t - 2, "ts-value", "Timestamp(" << t << ") += 5, -= 7 gives " << static_cast<uint32_t>(a));
    }
    ++L.nontrivial;
}

// expectation for a string built from fields + suffix
enum class Want { accept, reject, either };

static void check_ts_string(const std::string& s, Want want, int64_t value, vp::Local& L) {
    bool threw = false;
    uint32_t got = 0;
    try {
        got = static_cast<uint32_t>(osmium::Timestamp{s.c_str()});
    } catch (const std::invalid_argument&) {
        threw = true;
    }
    if (want == Want::accept) {
        VP_CHECK(!threw, "ts-rejects-valid", "Timestamp(" << q(s) << ") rejected, expected " << value);
        VP_CHECK(static_cast<int64_t>(got) == value, "ts-wrong-value", "Timestamp(" << q(s) << ") = " << got << " expected " << value);
        L.count("ts_accept");
    } else if (want == Want::reject) {
        VP_CHECK(threw, "ts-accepts-invalid", "Timestamp(" << q(s) << ") = " << got << " but the string is out of range or malformed (true value " << static_cast<long long>(value) << ")");
        L.count("ts_reject");
    } else {
        if (!threw) {
            VP_CHECK(static_cast<int64_t>(got) == value, "ts-wrong-value", "Timestamp(" << q(s) << ") = " << got << " expected " << value << " (lenient form)");
        }
        L.count("ts_either");
    }
}

static const int YEARS[] = {0, 1899, 1900, 1901, 1969, 1970, 1971, 1972, 2000, 2004, 2037, 2038, 2100, 2105, 2106, 2107, 2200, 9999};
static const int HOURS[] = {0, 12, 23, 24, 99};
static const int MINS[] = {0, 59, 60, 99};
static const int SECS[] = {0, 59, 60, 61, 99};
static const char* const SUFFIX[] = {"Z", ".5Z", ",123456Z", "", "z", "Z ", ".Z", "+00:00", ".5", "Zx"};
static const int MLEN[] = {31, 29, 31, 30, 31, 30, 31, 31, 30, 31, 30, 31};
constexpr uint64_t NY = 18, NMO = 14, ND = 33, NH = 5, NMI = 4, NS = 5, NSUF = 10;

static std::string ts_fields_string(uint64_t idx, Want* want = nullptr, int64_t* value = nullptr) {
    uint64_t i = idx;
    int suf = static_cast<int>(i % NSUF); i /= NSUF;
    int s = SECS[i % NS]; i /= NS;
    int mi = MINS[i % NMI]; i /= NMI;
    int h = HOURS[i % NH]; i /= NH;
    int d = static_cast<int>(i % ND); i /= ND;
    int mo = static_cast<int>(i % NMO); i /= NMO;
    int y = YEARS[i % NY];
    std::string str = iso(y, mo, d, h, mi, s) + SUFFIX[suf];
    if (want) {
        bool fields_ok = mo >= 1 && mo <= 12 && d >= 1 && d <= MLEN[mo - 1] && h <= 23 && mi <= 59 && s <= 60;
        int64_t v = 0;
        bool in_range = false;
        if (fields_ok) {
            v = days_from_civil(y, mo, d) * 86400 + h * 3600 + mi * 60 + s;
            in_range = v >= 0 && v <= 4294967295LL;
        }
        *value = v;
        const bool strict_form = suf <= 2;           // exactly the documented forms
        const bool lenient_form = suf == 5 || suf == 9;  // documented form followed by more characters: not asserted either way
        if (strict_form) *want = (fields_ok && in_range) ? Want::accept : Want::reject;
        else if (lenient_form) *want = (fields_ok && in_range) ? Want::either : Want::reject;
        else *want = Want::reject;
    }
    return str;
}

// seconds around the representable range limits
constexpr int64_t TS_EDGE_SPAN = 200000;
static void ts_edge(uint64_t idx, vp::Local& L) {
    int64_t base = idx < 2 * TS_EDGE_SPAN ? -TS_EDGE_SPAN : 4294967296LL - TS_EDGE_SPAN - 2 * TS_EDGE_SPAN;
    int64_t t = base + static_cast<int64_t>(idx);
    int Y, M, D, h, mi, s;
    civil_from_seconds(t, Y, M, D, h, mi, s);
    std::string str = iso(Y, M, D, h, mi, s) + "Z";
    check_ts_string(str, (t >= 0 && t <= 4294967295LL) ? Want::accept : Want::reject, t, L);
    ++L.nontrivial;
}

// ------------------------------------------------------------------ integers

static const char* const INT_CORE[] = {"0", "1", "2", "17", "2147483646", "2147483647", "2147483648", "2147483649", "4294967293", "4294967294", "4294967295",
                                       "4294967296", "4294967297", "9223372036854775806", "9223372036854775807", "9223372036854775808",
                                       "9223372036854775809", "18446744073709551615", "18446744073709551616", "99999999999999999999", "999999999999",
                                       "123456789012345678901234567890"};
constexpr uint64_t N_CORE = sizeof(INT_CORE) / sizeof(INT_CORE[0]);
static const char* const INT_PRE[] = {"", "-", "+", " ", "0", "00", "-0", "\t", "--", "0x"};
constexpr uint64_t N_PRE = sizeof(INT_PRE) / sizeof(INT_PRE[0]);
static const char* const INT_POST[] = {"", " ", "x", ".0", "e1", "\n", ","};
constexpr uint64_t N_POST = sizeof(INT_POST) / sizeof(INT_POST[0]);

// exact value of -?d+ as i128 clipped to +-10^30; returns false if not of that form
static bool plain_int(const std::string& s, i128& v) {
    size_t i = 0;
    bool neg = false;
    if (i < s.size() && s[i] == '-') {
        neg = true;
        ++i;
    }
    if (i >= s.size()) return false;
    v = 0;
    for (; i < s.size(); ++i) {
        if (!isd(s[i])) return false;
        if (v < static_cast<i128>(1000000000000000000LL) * 1000000000000LL) v = v * 10 + (s[i] - '0');
    }
    if (neg) v = -v;
    return true;
}

template <typename F>
static void check_full_int(const char* fname, const std::string& s, F fn, i128 lo, i128 hi, bool minus_one_is_zero, i128 must_lo, i128 must_hi, vp::Local& L) {
    bool threw = false;
    i128 got = 0;
    try {
        got = static_cast<i128>(fn(s.c_str()));
    } catch (const std::range_error&) {
        threw = true;
    }
    i128 v = 0;
    std::string body = s;
    if (!body.empty() && body[0] == '+') body = body.substr(1);  // strtol accepts an explicit plus sign; allowed leniency
    bool plain = plain_int(body, v) && !(s.size() > 1 && s[0] == '+' && s[1] == '-');
    if (!threw) {
        L.count("int_accept");
        if (minus_one_is_zero && s == "-1") {
            VP_CHECK(got == 0, "int-wrong-value", fname << "('-1') = " << static_cast<long long>(got));
            return;
        }
        VP_CHECK(plain, "int-accepts-garbage", fname << "(" << q(s) << ") accepted, returned " << static_cast<long long>(got));
        VP_CHECK(v >= lo && v <= hi, "int-accepts-out-of-range", fname << "(" << q(s) << ") accepted an out-of-range value, returned " << static_cast<long long>(got));
        VP_CHECK(got == v, "int-wrong-value", fname << "(" << q(s) << ") = " << static_cast<long long>(got));
    } else {
        L.count("int_reject");
        // canonical decimal strings inside the must-accept range have to be accepted
        bool canonical = plain_int(s, v) && s[0] != '+' && !(s.size() > 1 && s[0] == '0') && !(s.size() > 2 && s[0] == '-' && s[1] == '0') && s != "-0";
        if (canonical && v >= must_lo && v <= must_hi) {
            vp::fail("int-rejects-valid", std::string{fname} + " rejects " + q(s));
        }
    }
}

template <typename T>
static void check_opl_int(const char* fname, const std::string& s, vp::Local& L) {
    const char* p = s.c_str();
    bool threw = false;
    i128 got = 0;
    try {
        got = static_cast<i128>(osmium::io::detail::opl_parse_int<T>(&p));
    } catch (const osmium::opl_error&) {
        threw = true;
    }
    const i128 lo = std::numeric_limits<T>::min();
    const i128 hi = std::numeric_limits<T>::max();
    if (!threw) {
        size_t used = static_cast<size_t>(p - s.c_str());
        VP_CHECK(used <= s.size() && used > 0, "int-overrun", fname << " moved to " << used << " in " << q(s));
        i128 v = 0;
        VP_CHECK(plain_int(s.substr(0, used), v), "int-accepts-garbage", fname << "(" << q(s) << ") consumed a non-integer prefix");
        VP_CHECK(used == s.size() || !isd(s[used]), "int-partial-digits", fname << "(" << q(s) << ") stopped in the middle of the digits");
        VP_CHECK(v >= lo && v <= hi, "int-accepts-out-of-range", fname << "(" << q(s) << ") accepted out-of-range value");
        VP_CHECK(got == v, "int-wrong-value", fname << "(" << q(s) << ") = " << static_cast<long long>(got));
        L.count("opl_int_accept");
    } else {
        // must accept when the maximal -?d+ prefix is within range
        size_t i = 0;
        if (i < s.size() && s[i] == '-') ++i;
        size_t st = i;
        while (i < s.size() && isd(s[i])) ++i;
        i128 v = 0;
        if (i > st && plain_int(s.substr(0, i), v) && v >= lo && v <= hi) {
            vp::fail("int-rejects-valid", std::string{fname} + " rejects " + q(s));
        }
        L.count("opl_int_reject");
    }
}

static std::string int_string(uint64_t idx) {
    uint64_t i = idx;
    const char* post = INT_POST[i % N_POST]; i /= N_POST;
    const char* pre = INT_PRE[i % N_PRE]; i /= N_PRE;
    const char* core = INT_CORE[i % N_CORE];
    return std::string{pre} + core + post;
}

static void ints(uint64_t idx, vp::Local& L) {
    std::string s = int_string(idx);
    const i128 I64MAX = std::numeric_limits<int64_t>::max();
    const i128 I64MIN = std::numeric_limits<int64_t>::min();
    // object ids: INT64_MIN/INT64_MAX themselves are strtoll's overflow sentinels, so the library rejects them (not asserted either way)
    check_full_int("string_to_object_id", s, [](const char* c) { return osmium::string_to_object_id(c); }, I64MIN, I64MAX, false, I64MIN + 1, I64MAX - 1, L);
    // 32-bit attributes: UINT32_MAX is rejected by design (pinned by test_types_from_string.cpp)
    check_full_int("string_to_object_version", s, [](const char* c) { return osmium::string_to_object_version(c); }, 0, 4294967294LL, true, 0, 4294967294LL, L);
    check_full_int("string_to_changeset_id", s, [](const char* c) { return osmium::string_to_changeset_id(c); }, 0, 4294967294LL, true, 0, 4294967294LL, L);
    check_full_int("string_to_uid", s, [](const char* c) { return osmium::string_to_uid(c); }, 0, 4294967294LL, true, 0, 4294967294LL, L);
    check_full_int("string_to_num_changes", s, [](const char* c) { return osmium::string_to_num_changes(c); }, 0, 4294967294LL, true, 0, 4294967294LL, L);
    check_full_int("string_to_num_comments", s, [](const char* c) { return osmium::string_to_num_comments(c); }, 0, 4294967294LL, true, 0, 4294967294LL, L);
    check_opl_int<int64_t>("opl_parse_int<int64>", s, L);
    check_opl_int<uint32_t>("opl_parse_int<uint32>", s, L);
    check_opl_int<int32_t>("opl_parse_int<int32>", s, L);
    ++L.nontrivial;
}

// ------------------------------------------------------------------ integers to text (output_int of the XML and OPL writers) and back

// index -> int64 value: +-(2^k + d) and +-(10^p + d) for d in -40..40, then a seeded walk through the whole range
constexpr uint64_t IO_WIN = 81;
constexpr uint64_t IO_POW2 = 64 * 2 * IO_WIN;
constexpr uint64_t IO_POW10 = 19 * 2 * IO_WIN;
constexpr uint64_t IO_WALK = 3000000;
static bool int_out_value(uint64_t idx, int64_t& v) {
    i128 x;
    if (idx < IO_POW2) {
        const uint64_t k = idx / (2 * IO_WIN), r = idx % (2 * IO_WIN);
        x = (static_cast<i128>(1) << k) + static_cast<i128>(r % IO_WIN) - 40;
        if (r >= IO_WIN) x = -x;
    } else if (idx < IO_POW2 + IO_POW10) {
        idx -= IO_POW2;
        const uint64_t p = idx / (2 * IO_WIN), r = idx % (2 * IO_WIN);
        x = 1;
        for (uint64_t i = 0; i < p; ++i) x *= 10;
        x += static_cast<i128>(r % IO_WIN) - 40;
        if (r >= IO_WIN) x = -x;
    } else {
        idx -= IO_POW2 + IO_POW10;
        // all digit counts get the same share: the magnitude is a 63-bit mix shifted right by (idx mod 63) bits
        uint64_t z = (idx + 0x9E3779B97F4A7C15ULL) * 0xBF58476D1CE4E5B9ULL;
        z ^= z >> 31;
        z *= 0x94D049BB133111EBULL;
        z ^= z >> 29;
        x = static_cast<i128>((z >> 1) >> (idx % 63));
        if (z & 1) x = -x;
    }
    // INT64_MIN is no object id (the parsers take it for strtoll's overflow mark) and the writers negate the value
    if (x <= static_cast<i128>(std::numeric_limits<int64_t>::min()) || x > static_cast<i128>(std::numeric_limits<int64_t>::max())) return false;
    v = static_cast<int64_t>(x);
    return true;
}
struct IntOut : public osmium::io::detail::OutputBlock {
    IntOut() : OutputBlock(osmium::memory::Buffer{}) {}
    std::string format(int64_t v) {
        m_out->assign("id=");
        output_int(v);
        return *m_out;
    }
};
static std::string ref_decimal(int64_t v) {
    i128 x = v;
    const bool neg = x < 0;
    if (neg) x = -x;
    std::string d;
    do {
        d.insert(d.begin(), static_cast<char>('0' + static_cast<int>(x % 10)));
        x /= 10;
    } while (x > 0);
    return (neg ? "-" : "") + d;
}
static void int_output(uint64_t idx, vp::Local& L) {
    int64_t v;
    if (!int_out_value(idx, v)) return;
    static thread_local IntOut out;
    const std::string text = out.format(v);
    const std::string want = ref_decimal(v);
    VP_CHECK(text == "id=" + want, "int-format", "output_int(" << want << ") appended " << q(text.substr(3)) << " (text so far was \"id=\", now " << q(text) << ")");
    // and back through the parsers of the XML and OPL readers
    if (v != std::numeric_limits<int64_t>::max()) {
        int64_t back = 0;
        try {
            back = osmium::string_to_object_id(want.c_str());
        } catch (const std::exception& e) {
            vp::fail("int-rejects-valid", "string_to_object_id rejects " + q(want) + ": " + e.what());
        }
        VP_CHECK(back == v, "int-wrong-value", "string_to_object_id(" << q(want) << ") = " << back);
        const char* p = want.c_str();
        int64_t o = 0;
        try {
            o = osmium::io::detail::opl_parse_int<int64_t>(&p);
        } catch (const std::exception& e) {
            vp::fail("int-rejects-valid", "opl_parse_int<int64_t> rejects " + q(want) + ": " + e.what());
        }
        VP_CHECK(o == v && *p == '\0', "int-wrong-value", "opl_parse_int<int64_t>(" << q(want) << ") = " << o << ", " << (p - want.c_str()) << " characters consumed");
    }
    L.count("digits_" + std::to_string(want.size() - (v < 0 ? 1 : 0)));
    ++L.nontrivial;
}

int main(int argc, char** argv) {
    vp::parse_args(argc, argv);
    std::vector<vp::Sub> subs;
    {
        vp::Sub s;
        s.name = "coord_roundtrip";
        s.domain = 1ULL << 32;
        s.quick_stride = 521;
        for (int64_t b : {0LL, 1LL, -1LL, 9999999LL, 10000000LL, 10000001LL, 99999999LL, 100000000LL, 999999999LL, 1000000000LL, 1800000000LL, -1800000000LL,
                          900000000LL, 2147483647LL, 2147483646LL, -2147483647LL, -2147483648LL, 2147483640LL, 2140000000LL, 5LL, 50LL, 500000LL}) {
            s.always.push_back(static_cast<uint32_t>(static_cast<int32_t>(b)));
        }
        s.fn = coord_roundtrip;
        s.show = [](uint64_t i) { return "x=" + std::to_string(static_cast<int32_t>(static_cast<uint32_t>(i))) + " text=" + ref_format_coord(static_cast<int32_t>(static_cast<uint32_t>(i))); };
        s.block = 1 << 16;
        subs.push_back(s);
    }
    {
        vp::Sub s;
        s.name = "ts_roundtrip";
        s.domain = 1ULL << 32;
        s.quick_stride = 1021;
        s.always = {0, 1, 59, 60, 86399, 86400, 951782400 /*2000-02-29*/, 951868799, 2147483647, 2147483648ULL, 4107542400ULL /*2100-03-01*/, 4107456000ULL, 4294967295ULL};
        s.fn = ts_roundtrip;
        s.show = [](uint64_t i) { return "t=" + std::to_string(i) + " iso=" + osmium::Timestamp{static_cast<uint32_t>(i)}.to_iso_all(); };
        s.block = 1 << 16;
        subs.push_back(s);
    }
    {
        vp::Sub s;
        s.name = "coord_short";
        s.domain = count_upto(11, 7);
        s.quick_stride = 3;
        s.fn = [](uint64_t i, vp::Local& L) {
            check_coord_string(nth_alpha_string(i, 11, COORD_ALPHA), L);
            ++L.nontrivial;
        };
        s.show = [](uint64_t i) { return q(nth_alpha_string(i, 11, COORD_ALPHA)); };
        s.block = 1 << 14;
        subs.push_back(s);
    }
    {
        vp::Sub s;
        s.name = "coord_grammar";
        s.domain = 60000000;
        s.quick_stride = 30;
        s.fn = [](uint64_t i, vp::Local& L) {
            std::string str = grammar_string(i);
            Sentence r = eval_sentence(str);
            L.count(!r.ok ? "not_sentence" : r.in_range ? "in_range" : "out_of_range");
            if (r.ok && r.fracdigits > 8 && r.expdigits > 0 && r.in_range) L.count("ignored_digits_with_exponent_in_range");
            check_coord_string(str, L);
            ++L.nontrivial;
        };
        s.show = [](uint64_t i) { return q(grammar_string(i)); };
        s.block = 1 << 12;
        subs.push_back(s);
    }
    {
        vp::Sub s;
        s.name = "coord_exponents";
        s.domain = 200001ULL * N_MANT * 2;
        s.quick_stride = 1;
        s.fn = [](uint64_t i, vp::Local& L) {
            bool upper = i & 1;
            i >>= 1;
            const char* m = MANTISSAS[i % N_MANT];
            long long e = static_cast<long long>(i / N_MANT) - 100000;
            check_coord_string(std::string{m} + (upper ? "E" : "e") + std::to_string(e), L);
            ++L.nontrivial;
        };
        s.show = [](uint64_t i) {
            i >>= 1;
            return q(std::string{MANTISSAS[i % N_MANT]} + "e" + std::to_string(static_cast<long long>(i / N_MANT) - 100000));
        };
        s.block = 1 << 10;
        subs.push_back(s);
    }
    {
        vp::Sub s;
        s.name = "ts_fields";
        s.domain = NY * NMO * ND * NH * NMI * NS * NSUF;
        s.quick_stride = 1;
        s.fn = [](uint64_t i, vp::Local& L) {
            Want w;
            int64_t v;
            std::string str = ts_fields_string(i, &w, &v);
            check_ts_string(str, w, v, L);
            ++L.nontrivial;
        };
        s.show = [](uint64_t i) { return q(ts_fields_string(i)); };
        s.block = 1 << 12;
        subs.push_back(s);
    }
    {
        vp::Sub s;
        s.name = "ts_edge";
        s.domain = 4 * TS_EDGE_SPAN;
        s.fn = ts_edge;
        s.show = [](uint64_t idx) {
            int64_t base = idx < 2 * TS_EDGE_SPAN ? -TS_EDGE_SPAN : 4294967296LL - TS_EDGE_SPAN - 2 * TS_EDGE_SPAN;
            return "t=" + std::to_string(base + static_cast<int64_t>(idx));
        };
        subs.push_back(s);
    }
    {
        vp::Sub s;
        s.name = "ints";
        s.domain = N_CORE * N_PRE * N_POST;
        s.fn = ints;
        s.show = [](uint64_t i) { return q(int_string(i)); };
        s.block = 64;
        subs.push_back(s);
    }
    {
        vp::Sub s;
        s.name = "int_output";
        s.domain = IO_POW2 + IO_POW10 + IO_WALK;
        s.quick_stride = 7;
        for (uint64_t i = 0; i < IO_POW2 + IO_POW10; ++i) s.always.push_back(i);
        s.fn = int_output;
        s.show = [](uint64_t i) {
            int64_t v;
            return int_out_value(i, v) ? "value " + ref_decimal(v) : std::string{"(outside the id range)"};
        };
        subs.push_back(s);
    }
    return vp::run_enum(subs,
                        "enumeration: all 2^32 fixed-point coordinates and all 2^32 timestamps through format->parse (quick: seeded stride + boundary list); "
                        "all strings of length<=7 over {0 1 5 9 . - + e E space x}; seeded grammar-directed coordinate strings up to ~45 chars; every exponent "
                        "-100000..100000 x 16 mantissas; 18 years x months 0..13 x days 0..32 x h/m/s boundary values x 10 suffix forms; +-200000 s around "
                        "both ends of the uint32 range; integer strings around every type boundary x prefixes x suffixes through all string_to_* and opl_parse_int<T>; "
                        "output_int of the XML/OPL writers for +-(2^k+d), +-(10^p+d), d in -40..40, and a seeded walk with every digit count, compared with a decimal reference and parsed back. "
                        "Oracle: decimal-string / __int128 / proleptic-Gregorian reference written in the harness. non-trivial = every enumerated element "
                        "(each index is a distinct input)");
}
