// C09: compressed input is decompressed completely and truncation is detected.
#include "tmpdir.hpp"
#include "gen.hpp"
#include "pipefeed.hpp"

#include <osmium/io/bzip2_compression.hpp>
#include <osmium/io/compression.hpp>
#include <osmium/io/gzip_compression.hpp>
#include <osmium/io/opl_input.hpp>
#include <osmium/io/reader.hpp>

#include <bzlib.h>
#include <fcntl.h>
#include <unistd.h>
#include <zlib.h>

using vp::Src;

static const size_t IBS = osmium::io::Decompressor::input_buffer_size;

// ---------------------------------------------------------------- reference compressors (one-shot library APIs)
static std::string gz_compress(const std::string& in, int level) {
    z_stream zs{};
    if (deflateInit2(&zs, level, Z_DEFLATED, 15 + 16, 8, Z_DEFAULT_STRATEGY) != Z_OK) std::abort();
    std::string out(deflateBound(&zs, in.size()) + 64, '\0');
    zs.next_in = reinterpret_cast<Bytef*>(const_cast<char*>(in.data()));
    zs.avail_in = static_cast<uInt>(in.size());
    zs.next_out = reinterpret_cast<Bytef*>(&out[0]);
    zs.avail_out = static_cast<uInt>(out.size());
    if (deflate(&zs, Z_FINISH) != Z_STREAM_END) std::abort();
    out.resize(zs.total_out);
    deflateEnd(&zs);
    return out;
}
static std::string bz_compress(const std::string& in, int level) {
    unsigned int n = static_cast<unsigned int>(in.size() + in.size() / 50 + 1000);
    std::string out(n, '\0');
    if (BZ2_bzBuffToBuffCompress(&out[0], &n, const_cast<char*>(in.data()), static_cast<unsigned int>(in.size()), level, 0, 0) != BZ_OK) std::abort();
    out.resize(n);
    return out;
}

static std::string payload(Src& s, size_t len, bool compressible) {
    std::string p;
    p.reserve(len);
    vp::Rng r{s.draw(1ULL << 32)};
    if (compressible) {
        static const char* words[] = {"n1 v1 dV c1 t2015-01-01T00:00:00Z i1 uu T x1 y2\n", "highway=residential ", "0123456789", "\n", "way "};
        while (p.size() < len) p += words[r.below(5)];
        p.resize(len);
    } else {
        while (p.size() < len) p += static_cast<char>(r.next() & 0xff);
    }
    return p;
}

// bzip2 payload length whose compressed size is 5000 k + d for d in -2..2 (5000 = libbz2's stdio read-ahead size: the stream ends
// d bytes after the end of a read-ahead block, i.e. with 0, 1, 2, 4999 or 4998 unused bytes in libbz2's buffer)
static std::string bz_base(uint64_t seed) {
    vp::Rng r{seed};
    std::string b;
    for (size_t i = 0; i < 12000; ++i) b += static_cast<char>(r.next() & 0xff);
    return b;
}
static const std::string& bz_boundary_payload(int d = 0) {
    static std::string cached[5];
    std::string& c = cached[d + 2];
    if (!c.empty()) return c;
    const size_t want = static_cast<size_t>((5000 + d) % 5000);
    // incompressible data: the compressed size grows almost byte by byte with the length (sometimes by 0 or 2, so a size can be skipped:
    // then another byte sequence is tried)
    for (uint64_t seed = 4711; seed < 4731; ++seed) {
        const std::string base = bz_base(seed);
        const size_t sz0 = bz_compress(base.substr(0, 4800), 9).size();
        size_t len = 4800 + (want + 5000 - sz0 % 5000) % 5000;
        len = len > 4860 ? len - 60 : 4800;
        for (size_t k = 0; k < 200 && len + k < base.size(); ++k) {
            if (bz_compress(base.substr(0, len + k), 9).size() % 5000 == want) {
                c = base.substr(0, len + k);
                return c;
            }
        }
    }
    c = "x";
    return c;
}

// gzip member whose compressed size is 8192 k + d (8192 = zlib's gz* input buffer: the member ends d bytes after a buffer load)
static const std::string& gz_boundary_payload(int d, int k) {
    static std::string cached[5][2];
    std::string& c = cached[d + 2][k - 1];
    if (!c.empty()) return c;
    vp::Rng r{99};
    std::string base;
    for (size_t i = 0; i < 17000; ++i) base += static_cast<char>(r.next() & 0xff);
    const size_t want = static_cast<size_t>(8192 * k + d);
    const size_t overhead = gz_compress(base.substr(0, 4000), 6).size() - 4000;  // incompressible: stored, plus header and trailer
    size_t len = want - overhead;
    for (int tries = 0; tries < 64 && len > 0 && len < base.size(); ++tries) {
        const size_t sz = gz_compress(base.substr(0, len), 6).size();
        if (sz == want) {
            c = base.substr(0, len);
            return c;
        }
        len = sz < want ? len + (want - sz) : len - (sz - want);
    }
    c = "x";
    return c;
}

static size_t part_size(Src& s) {
    static const size_t fixed[] = {0, 1, 100, 10239, 10240, 10241, 20480, 4999, 5000, 5001};
    // "--parts small": the quick run of the build with the real 1 MiB pieces stays with small payloads (one read call per stream, which
    // is what libbz2's and zlib's end-of-file bookkeeping looks different for); sizes around the piece size are the thorough tier's job
    static const bool small_only = vp::extra("parts") == "small";
    switch (s.weighted({4, small_only ? 0U : 3U, 3, small_only ? 0U : 2U})) {
        case 0: return fixed[s.draw(sizeof(fixed) / sizeof(fixed[0]))];
        case 1: {
            size_t k = 1 + s.draw(3);
            int64_t d = static_cast<int64_t>(s.draw(5)) - 2;
            int64_t v = static_cast<int64_t>(k * IBS) + d;
            return static_cast<size_t>(v < 0 ? 0 : v);
        }
        case 2: return s.draw(3000);
        default: return s.draw(IBS <= 65536 ? 40000 : 3 * IBS);
    }
}

struct Stream {
    std::string plain, comp;
};

static std::string tmpfile_with(const std::string& bytes) {
    static const std::string path = tmpdir::prefix() + "c09-" + std::to_string(getpid());
    int fd = ::open(path.c_str(), O_CREAT | O_TRUNC | O_WRONLY, 0644);
    size_t off = 0;
    while (off < bytes.size()) {
        ssize_t n = ::write(fd, bytes.data() + off, bytes.size() - off);
        if (n <= 0) std::abort();
        off += static_cast<size_t>(n);
    }
    ::close(fd);
    return path;
}

struct ReadResult {
    bool threw = false;
    std::string what;
    std::string out;
    size_t chunks = 0;
    bool offset_exceeded = false;
};

// consume a decompressor the way the library's read thread does: until the first empty chunk, then close()
// where the compressed bytes come from: a memory buffer, a regular file, or a pipe that delivers the pieces of g_pipe_plan (short reads)
enum Source { SRC_BUFFER = 0, SRC_FD = 1, SRC_PIPE = 2 };
static const char* const SRC_NAME[] = {" buffer", " fd", " pipe"};
static std::vector<size_t> g_pipe_plan;

static ReadResult consume(osmium::io::file_compression comp, const std::string& file_bytes, int from_fd) {
    ReadResult r;
    std::unique_ptr<pipefeed::Feed> feed;
    try {
        std::unique_ptr<osmium::io::Decompressor> d;
        std::atomic<std::size_t> offset{0};
        if (from_fd == SRC_PIPE) {
            feed.reset(new pipefeed::Feed{file_bytes, g_pipe_plan});
            d = osmium::io::CompressionFactory::instance().create_decompressor(comp, feed->read_fd());
        } else if (from_fd) {
            std::string path = tmpfile_with(file_bytes);
            int fd = ::open(path.c_str(), O_RDONLY);
            d = osmium::io::CompressionFactory::instance().create_decompressor(comp, fd);
        } else {
            d = osmium::io::CompressionFactory::instance().create_decompressor(comp, file_bytes.data(), file_bytes.size());
        }
        d->set_offset_ptr(&offset);
        for (;;) {
            std::string chunk = d->read();
            if (from_fd != SRC_PIPE && offset.load() > file_bytes.size()) r.offset_exceeded = true;  // (a pipe has no position)
            if (chunk.empty()) break;
            r.out += chunk;
            ++r.chunks;
        }
        d->close();
    } catch (const std::exception& e) {
        r.threw = true;
        r.what = e.what();
    }
    if (feed) feed->join();  // the decompressor is gone and has closed the read end
    return r;
}

// Reference for the open finding F33: zlib's own gzread()/gzclose_r(), called the way GzipDecompressor calls them (same request size), on
// a regular file with the given bytes. True if they deliver exactly `expect_out` bytes and report no error anywhere.
static bool zlib_gzread_accepts(const std::string& file_bytes, size_t expect_out) {
    std::string path = tmpfile_with(file_bytes);
    int fd = ::open(path.c_str(), O_RDONLY);
    if (fd < 0) return false;
    gzFile gz = ::gzdopen(fd, "rb");
    if (!gz) {
        ::close(fd);
        return false;
    }
    std::string buf(IBS, '\0');
    size_t total = 0;
    bool error = false;
    for (;;) {
        int n = ::gzread(gz, &buf[0], static_cast<unsigned>(buf.size()));
        if (n < 0) {
            error = true;
            break;
        }
        if (n == 0) break;
        total += static_cast<size_t>(n);
    }
    if (::gzclose_r(gz) != Z_OK) error = true;
    return !error && total == expect_out;
}

static const char* cname(osmium::io::file_compression c) { return c == osmium::io::file_compression::gzip ? "gzip" : "bzip2"; }

static void multi_stream(Src& s) {
    const auto comp = s.boolean() ? osmium::io::file_compression::gzip : osmium::io::file_compression::bzip2;
    const int from_fd = static_cast<int>(s.weighted({2, 2, 1}));
    size_t k = 1 + s.draw(6);
    // one bzip2 case in eight: one or two streams that all end on a read-ahead block, so that the file ends there as well (the last
    // fread() of libbz2 returns a full block and has not seen the end of the file yet)
    const bool aligned_file = s.chance(1, 8);  // (gzip: the same with zlib's 8192-byte input buffer)
    if (aligned_file) k = 1 + s.draw(2);
    std::vector<Stream> streams;
    std::string desc = std::string{cname(comp)} + SRC_NAME[from_fd] + " streams:";
    bool used_boundary = false;
    for (size_t i = 0; i < k; ++i) {
        Stream st;
        if (comp == osmium::io::file_compression::bzip2 && (aligned_file || s.chance(1, 6))) {
            static const int ds[] = {0, 0, 1, -1, 2, -2};
            st.plain = bz_boundary_payload(aligned_file ? 0 : ds[s.draw(6)]);
            used_boundary = true;
            st.comp = bz_compress(st.plain, 9);
            desc += " [bz2 stream of exactly " + std::to_string(st.comp.size()) + " compressed bytes]";
            vp::count("bz2_stream_size_mod_5000_is_" + std::to_string(st.comp.size() % 5000));
        } else if (comp == osmium::io::file_compression::gzip && (aligned_file || s.chance(1, 6))) {
            static const int ds[] = {0, 0, 1, -1, 2, -2};
            st.plain = gz_boundary_payload(aligned_file ? 0 : ds[s.draw(6)], 1 + static_cast<int>(s.draw(2)));
            used_boundary = true;
            st.comp = gz_compress(st.plain, 6);
            desc += " [gzip member of exactly " + std::to_string(st.comp.size()) + " compressed bytes]";
            vp::count("gzip_member_size_mod_8192_is_" + std::to_string(st.comp.size() % 8192));
        } else {
            bool compressible = s.boolean();
            st.plain = payload(s, part_size(s), compressible);
            int level = 1 + static_cast<int>(s.draw(9));
            st.comp = comp == osmium::io::file_compression::gzip ? gz_compress(st.plain, level) : bz_compress(st.plain, level);
            desc += " " + std::to_string(st.plain.size()) + (compressible ? "c" : "r") + "->" + std::to_string(st.comp.size());
        }
        streams.push_back(std::move(st));
    }
    std::string file, plain;
    std::vector<size_t> boundaries{0};       // compressed offsets at which a stream ends
    std::vector<size_t> plain_boundaries{0};
    for (const auto& st : streams) {
        file += st.comp;
        plain += st.plain;
        boundaries.push_back(file.size());
        plain_boundaries.push_back(plain.size());
    }
    g_pipe_plan.clear();
    if (from_fd == SRC_PIPE) {
        // pieces: exactly the streams (the data at hand ends where a stream ends), or random sizes below / around the read-ahead sizes
        const unsigned mode = s.weighted({2, 2, 1});
        if (mode == 0) {
            for (const auto& st : streams) g_pipe_plan.push_back(st.comp.size());
            desc += " | pipe delivers one stream per piece";
        } else {
            const size_t maxp = mode == 1 ? 1 + s.draw(9000) : 1 + s.draw(8);
            for (size_t used = 0; used < file.size() && g_pipe_plan.size() < 3000;) {
                size_t n = 1 + s.draw(maxp);
                g_pipe_plan.push_back(n);
                used += n;
            }
            desc += " | pipe delivers pieces of 1.." + std::to_string(maxp) + " bytes";
        }
    }
    if (vp::want_desc()) vp::describe(desc);
    if (comp == osmium::io::file_compression::bzip2 && !file.empty() && file.size() % 5000 == 0) vp::count(std::string{"bz2_file_size_multiple_of_5000"} + SRC_NAME[from_fd]);

    // --- valid file
    {
        ReadResult r = consume(comp, file, from_fd);
        VP_CHECK(!r.threw, "decompress-valid-rejected", "valid multi-stream file rejected: " << r.what << " | " << desc);
        if (r.out != plain) {
            size_t common = 0;
            while (common < r.out.size() && common < plain.size() && r.out[common] == plain[common]) ++common;
            std::string where = "lost data after stream";
            for (size_t j = 0; j < plain_boundaries.size(); ++j)
                if (plain_boundaries[j] == r.out.size()) where = "output ends exactly after stream " + std::to_string(j) + " of " + std::to_string(k);
            vp::fail(r.out.size() < plain.size() && common == r.out.size() ? "decompress-incomplete" : "decompress-wrong", std::string{"decompressed "} + std::to_string(r.out.size()) + " bytes, reference has " + std::to_string(plain.size()) + " (" + where + ") | " + desc);
        }
        VP_CHECK(!r.offset_exceeded, "offset-beyond-file", "reported read offset exceeds the file size | " << desc);
    }
    // --- truncations
    size_t ncuts = file.size() <= 64 ? file.size() : 24;
    for (size_t c = 0; c < ncuts; ++c) {
        size_t cut;
        if (file.size() <= 64) cut = c;
        else {
            switch (s.weighted({3, 3, 2})) {
                case 0: cut = s.draw(file.size()); break;
                case 1: {  // near a stream boundary
                    size_t b = boundaries[s.draw(boundaries.size())];
                    int64_t v = static_cast<int64_t>(b) + static_cast<int64_t>(s.draw(41)) - 20;
                    cut = static_cast<size_t>(v < 0 ? 0 : (v >= static_cast<int64_t>(file.size()) ? static_cast<int64_t>(file.size()) - 1 : v));
                    break;
                }
                default: cut = s.draw(std::min<size_t>(file.size(), 30)); break;  // inside the first header
            }
        }
        ReadResult r = consume(comp, file.substr(0, cut), from_fd);
        if (r.threw) {
            vp::count("truncation_detected");
            continue;
        }
        // accepted: only right if the cut is exactly a stream boundary and the output is exactly the streams before it
        bool ok = false;
        if (comp == osmium::io::file_compression::gzip) {
            // a single left-over byte of the next member's magic number: zlib treats what is not a gzip header as trailing garbage
            // (and at the start of the file as uncompressed data, its documented transparent mode). Not asserted, only counted.
            bool in_magic = false;
            for (size_t b : boundaries)
                if (cut == b + 1) in_magic = true;
            if (in_magic) {
                vp::count("truncation_inside_gzip_magic_not_asserted");
                continue;
            }
        }
        for (size_t j = 0; j < boundaries.size(); ++j) {
            if (boundaries[j] == cut && r.out == plain.substr(0, plain_boundaries[j])) ok = true;
        }
        if (!ok && comp == osmium::io::file_compression::gzip && from_fd != SRC_BUFFER && !r.out.empty() && plain.compare(0, r.out.size(), r.out) == 0 && vp::known_open("F33") &&
            zlib_gzread_accepts(file.substr(0, cut), r.out.size())) {
            // known finding F33 (open): zlib's gzread() does not notice the missing rest when the input runs out exactly where one of its
            // output buffers is full. The exclusion is exactly that: gzread()/gzclose_r(), called directly with the library's request
            // size on the same bytes, deliver the same correct prefix and report no error -- the truncation cannot be seen through the
            // API GzipDecompressor is built on. Every other accepted truncation is still a violation.
            vp::count("known_finding_F33_truncation_where_a_zlib_output_buffer_is_full");
            if ((r.out.size() % 16384) != 0) vp::count("known_finding_F33_in_a_later_member");
            continue;
        }
        if (!ok) {
            vp::fail("truncation-accepted", std::string{cname(comp)} + SRC_NAME[from_fd] + ": file cut at byte " + std::to_string(cut) + " of " + std::to_string(file.size()) + " was accepted without error (" + std::to_string(r.out.size()) + " of " + std::to_string(plain.size()) + " bytes delivered) | " + desc);
        }
        vp::count("truncation_at_stream_boundary");
    }
    // --- single byte corruptions
    for (size_t c = 0; c < 12 && !file.empty(); ++c) {
        size_t pos = s.chance(1, 3) ? file.size() - 1 - s.draw(std::min<size_t>(file.size(), 12)) : s.draw(file.size());
        std::string bad = file;
        bad[pos] = static_cast<char>(bad[pos] ^ static_cast<char>(1 + s.draw(255)));
        ReadResult r = consume(comp, bad, from_fd);
        if (r.threw) {
            vp::count("corruption_detected");
            continue;
        }
        if (r.out == plain) {
            vp::count("corruption_harmless");
            continue;
        }
        // violation only for "no exception and the output is a strict prefix of the payload" (a shorter file accepted)
        bool magic_byte = false;
        if (comp == osmium::io::file_compression::gzip)
            for (size_t b : boundaries)
                if (pos == b || pos == b + 1) magic_byte = true;  // corrupt magic of a member: zlib's trailing-garbage tolerance, not asserted
        if (magic_byte) {
            vp::count("corruption_of_gzip_magic_not_asserted");
            continue;
        }
        if (r.out.size() < plain.size() && plain.compare(0, r.out.size(), r.out) == 0) {
            vp::fail("corruption-accepted-as-shorter-file", std::string{cname(comp)} + SRC_NAME[from_fd] + ": byte " + std::to_string(pos) + " of " + std::to_string(file.size()) + " corrupted, accepted without error with " + std::to_string(r.out.size()) + " of " + std::to_string(plain.size()) + " bytes | " + desc);
        }
        // Neither an error nor the right bytes. Both formats protect every stream with a 32-bit CRC, which detects any single corrupted
        // byte inside the protected data; header bytes outside it either do not matter (output unchanged: counted above as harmless) or
        // make the decoder fail. So a different output without an exception means that an error of the decompression library was
        // dropped on the way to the caller. (In 40 000 probes per run on the unchanged tree this outcome never occurred while it was
        // only counted; asserted since seeded change C09-f.)
        size_t common = 0;
        while (common < r.out.size() && common < plain.size() && r.out[common] == plain[common]) ++common;
        vp::fail("corruption-accepted-with-wrong-data", std::string{cname(comp)} + SRC_NAME[from_fd] + ": byte " + std::to_string(pos) + " of " + std::to_string(file.size()) + " corrupted, accepted without error: " + std::to_string(r.out.size()) + " bytes delivered (the payload has " + std::to_string(plain.size()) + "), first difference at byte " + std::to_string(common) + " | " + desc);
    }
    if (k >= 2) vp::nontrivial(vp::hash_str(desc) ^ vp::hash_str(plain));
    vp::count(std::string{cname(comp)} + (from_fd == SRC_PIPE ? "_pipe" : from_fd ? "_fd" : "_buffer"));
    if (used_boundary) vp::count("bz2_stream_multiple_of_5000");
}

// the library's own compressors, written in random chunks, read back by the library and by the reference decompressor
static std::string ref_decompress_gz(const std::string& in) {
    std::string out;
    z_stream zs{};
    inflateInit2(&zs, 15 + 32);
    zs.next_in = reinterpret_cast<Bytef*>(const_cast<char*>(in.data()));
    zs.avail_in = static_cast<uInt>(in.size());
    char buf[65536];
    int rc = Z_OK;
    while (rc != Z_STREAM_END || zs.avail_in > 0) {
        if (rc == Z_STREAM_END) inflateReset(&zs);
        zs.next_out = reinterpret_cast<Bytef*>(buf);
        zs.avail_out = sizeof(buf);
        rc = inflate(&zs, Z_NO_FLUSH);
        if (rc != Z_OK && rc != Z_STREAM_END) break;
        out.append(buf, sizeof(buf) - zs.avail_out);
        if (rc == Z_OK && zs.avail_in == 0 && zs.avail_out == sizeof(buf)) break;
    }
    inflateEnd(&zs);
    return out;
}
static std::string ref_decompress_bz(const std::string& in, size_t hint) {
    std::string out(hint + 1000, '\0');
    unsigned int n = static_cast<unsigned int>(out.size());
    int rc = BZ2_bzBuffToBuffDecompress(&out[0], &n, const_cast<char*>(in.data()), static_cast<unsigned int>(in.size()), 0, 0);
    if (rc != BZ_OK) return "<reference decompressor failed>";
    out.resize(n);
    return out;
}

static void own_compressor(Src& s) {
    const auto comp = s.boolean() ? osmium::io::file_compression::gzip : osmium::io::file_compression::bzip2;
    std::string plain;
    const std::string path = tmpdir::prefix() + "c09w-" + std::to_string(getpid());
    size_t reported_size = 0;
    {
        int fd = ::open(path.c_str(), O_CREAT | O_TRUNC | O_WRONLY, 0644);
        auto c = osmium::io::CompressionFactory::instance().create_compressor(comp, fd, s.boolean() ? osmium::io::fsync::yes : osmium::io::fsync::no);
        size_t chunks = s.draw(12);
        for (size_t i = 0; i < chunks; ++i) {
            std::string chunk = payload(s, part_size(s), s.boolean());
            c->write(chunk);
            plain += chunk;
        }
        c->close();
        reported_size = c->file_size();
    }
    std::ifstream f(path, std::ios::binary);
    std::string file((std::istreambuf_iterator<char>(f)), std::istreambuf_iterator<char>());
    ::unlink(path.c_str());
    VP_CHECK(reported_size == file.size(), "compressor-file-size", cname(comp) << " compressor reports file size " << reported_size << ", file has " << file.size());
    std::string ref = comp == osmium::io::file_compression::gzip ? ref_decompress_gz(file) : ref_decompress_bz(file, plain.size());
    VP_CHECK(ref == plain, "compressor-output", "reference decompressor does not recover what the " << cname(comp) << " compressor wrote (" << ref.size() << " vs " << plain.size() << " bytes)");
    for (bool from_fd : {true, false}) {
        ReadResult r = consume(comp, file, from_fd);
        VP_CHECK(!r.threw && r.out == plain, "compressor-roundtrip", cname(comp) << (from_fd ? " fd" : " buffer") << ": own output not read back identically (" << r.what << ")");
    }
    vp::count(std::string{"own_compressor_"} + cname(comp));
    if (plain.size() > 0) vp::nontrivial(vp::hash_str(plain));
}

// through the whole Reader: multi-stream OPL file, objects counted, offset() never beyond file_size()
static void reader_level(Src& s) {
    const auto comp = s.boolean() ? osmium::io::file_compression::gzip : osmium::io::file_compression::bzip2;
    size_t k = 1 + s.draw(4);
    std::string file;
    size_t nodes = 0;
    for (size_t i = 0; i < k; ++i) {
        std::string part;
        size_t n = s.draw(s.chance(1, 3) ? 400 : 20);
        for (size_t j = 0; j < n; ++j) part += "n" + std::to_string(++nodes) + " v1 dV c1 t2015-01-01T00:00:00Z i1 uu T x1 y2\n";
        file += comp == osmium::io::file_compression::gzip ? gz_compress(part, 6) : bz_compress(part, 9);
    }
    const bool from_fd = s.boolean();
    size_t got = 0;
    bool offset_bad = false;
    std::string path;
    try {
        osmium::io::File f = from_fd ? osmium::io::File{path = tmpfile_with(file), comp == osmium::io::file_compression::gzip ? "opl.gz" : "opl.bz2"}
                                     : osmium::io::File{file.data(), file.size(), comp == osmium::io::file_compression::gzip ? "opl.gz" : "opl.bz2"};
        osmium::io::Reader reader{f};
        while (osmium::memory::Buffer b = reader.read()) {
            for (const auto& n : b.select<osmium::Node>()) {
                (void)n;
                ++got;
            }
            if (from_fd && reader.offset() > reader.file_size()) offset_bad = true;
        }
        reader.close();
    } catch (const std::exception& e) {
        vp::fail("decompress-valid-rejected", std::string{"Reader rejects a valid multi-stream "} + cname(comp) + " file: " + e.what());
    }
    VP_CHECK(got == nodes, "decompress-incomplete", "Reader delivered " << got << " of " << nodes << " objects from a " << k << "-stream " << cname(comp) << (from_fd ? " file" : " buffer"));
    VP_CHECK(!offset_bad, "offset-beyond-file", "Reader::offset() exceeded Reader::file_size()");
    vp::count("reader_level");
    if (k >= 2) vp::nontrivial(vp::hash_str(file));
}

static void prop(Src& s) {
    switch (s.weighted({6, 2, 2})) {
        case 0: multi_stream(s); break;
        case 1: own_compressor(s); break;
        default: reader_level(s); break;
    }
}

static Stream mk(const std::string& plain, bool gz) {
    Stream s;
    s.plain = plain;
    s.comp = gz ? gz_compress(plain, 6) : bz_compress(plain, 9);
    return s;
}

VP_BUILTIN(F09_bzip2_fd_multistream_small_file) {
    Stream a = mk("first stream\n", false), b = mk("second stream\n", false), c = mk(bz_boundary_payload(), false);
    for (const std::string& file : {a.comp + b.comp, c.comp + a.comp, a.comp + c.comp + b.comp}) {
        ReadResult r = consume(osmium::io::file_compression::bzip2, file, true);
        std::string want = file == a.comp + b.comp ? a.plain + b.plain : file == c.comp + a.comp ? c.plain + a.plain : a.plain + c.plain + b.plain;
        VP_CHECK(!r.threw, "decompress-valid-rejected", "rejected: " << r.what);
        VP_CHECK(r.out == want, "decompress-incomplete", "bzip2 file of concatenated streams read from a file descriptor: got " << r.out.size() << " of " << want.size() << " bytes");
    }
}
VP_BUILTIN(F10_empty_stream_in_the_middle) {
    for (bool gz : {false, true}) {
        Stream a = mk("first\n", gz), e = mk("", gz), b = mk("last\n", gz), full = mk(std::string(IBS, 'x'), gz);
        for (bool fd : {true, false}) {
            ReadResult r = consume(gz ? osmium::io::file_compression::gzip : osmium::io::file_compression::bzip2, a.comp + e.comp + b.comp, fd);
            VP_CHECK(!r.threw && r.out == a.plain + b.plain, "decompress-incomplete", (gz ? "gzip" : "bzip2") << (fd ? " fd" : " buffer") << ": empty stream in the middle ends the data early (" << r.out.size() << " bytes) " << r.what);
            ReadResult r2 = consume(gz ? osmium::io::file_compression::gzip : osmium::io::file_compression::bzip2, full.comp + b.comp, fd);
            VP_CHECK(!r2.threw && r2.out == full.plain + b.plain, "decompress-incomplete", (gz ? "gzip" : "bzip2") << (fd ? " fd" : " buffer") << ": stream that exactly fills the read buffer ends the data early (" << r2.out.size() << " of " << (full.plain.size() + b.plain.size()) << ") " << r2.what);
        }
    }
}
VP_BUILTIN(F11_buffer_decompressors_multistream) {
    for (bool gz : {true, false}) {
        Stream a = mk("first stream\n", gz), b = mk("second stream\n", gz);
        ReadResult r = consume(gz ? osmium::io::file_compression::gzip : osmium::io::file_compression::bzip2, a.comp + b.comp, false);
        VP_CHECK(!r.threw && r.out == a.plain + b.plain, "decompress-incomplete", (gz ? "gzip" : "bzip2") << " buffer decompressor stops after the first of two streams (" << r.out.size() << " bytes)");
    }
}
VP_BUILTIN(F12_truncated_buffer_accepted) {
    for (bool gz : {true, false}) {
        Stream a = mk(std::string(5000, 'a') + "some more text\n", gz);
        for (size_t cut = 1; cut < a.comp.size(); ++cut) {
            ReadResult r = consume(gz ? osmium::io::file_compression::gzip : osmium::io::file_compression::bzip2, a.comp.substr(0, cut), false);
            VP_CHECK(r.threw, "truncation-accepted", (gz ? "gzip" : "bzip2") << " buffer cut at byte " << cut << " of " << a.comp.size() << " accepted without error (" << r.out.size() << " bytes delivered)");
        }
    }
}

VP_BUILTIN(F33_gzip_file_cut_where_zlibs_output_buffer_is_full) {
    // every truncation of a gzip file must be reported. (It is not when the compressed input ends exactly where zlib's gzread() has
    // filled one of its 16384-byte output buffers: gzread() then takes the end of the input for the end of the file.)
    std::string p;
    static const char* words[] = {"n1 v1 dV c1 t2015-01-01T00:00:00Z i1 uu T x1 y2\n", "highway=residential ", "0123456789", "\n", "way "};
    unsigned r = 12345;
    while (p.size() < 33629) {
        r = r * 1103515245U + 12345U;
        p += words[(r >> 16) % 5];
    }
    p.resize(33629);
    for (int level : {1, 5, 9}) {
        const std::string c = gz_compress(p, level);
        for (size_t cut = 20; cut < c.size(); ++cut) {
            ReadResult res = consume(osmium::io::file_compression::gzip, c.substr(0, cut), SRC_FD);
            VP_CHECK(res.threw, "truncation-accepted", "gzip fd: file cut at byte " << cut << " of " << c.size() << " (level " << level << ") was accepted without error (" << res.out.size() << " of " << p.size() << " bytes delivered)");
        }
    }
}

VP_MAIN(prop, "generated payloads (part sizes 0, 1, 100, 10239..10241, k*input_buffer_size+-2, bzip2 streams whose compressed size is 5000k-2..5000k+2, gzip members of 8192k-2..8192k+2 compressed bytes, whole files that end on such a boundary, random; compressible and "
              "incompressible) split into 1..6 separately compressed streams (zlib / libbz2 one-shot APIs) x {gzip, bzip2} x {regular file, memory buffer, pipe that delivers one stream per piece or generated short reads}; consumed like the read thread "
              "does (until the first empty chunk, then close); every truncation for files <= 64 bytes, 24 generated cuts otherwise (uniform, near stream boundaries, in the header); 12 "
              "single-byte corruptions; the library's own compressors with random chunking; whole-Reader runs on multi-stream OPL. Oracle: concatenation of chunks == reference payload, "
              "truncation => exception unless the cut is a stream boundary, corruption => exception or unchanged payload (violation only if a strict prefix is accepted), offset <= size (regular files). "
              "non-trivial = >= 2 streams; distinct by hash")
