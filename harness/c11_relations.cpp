// C11: relation managers complete each relation exactly once with all its members.
#include "gen.hpp"

#include <osmium/area/assembler.hpp>
#include <osmium/area/multipolygon_manager.hpp>
#include <osmium/relations/relations_manager.hpp>
#include <osmium/visitor.hpp>

#include <map>
#include <set>

using model::Obj;
using vp::Src;

// ---------------------------------------------------------------- the model of one history

struct Key {
    int type;
    int64_t id;
    bool operator<(const Key& o) const { return std::tie(type, id) < std::tie(o.type, o.id); }
    bool operator==(const Key& o) const { return type == o.type && id == o.id; }
};

struct Plan {
    bool tn = true, tw = true, tr = true, check_order = true;
    std::vector<Obj> relations;                  // pass 1 input, distinct ids
    std::vector<bool> keep;                      // new_relation()
    std::vector<std::vector<bool>> want_member;  // new_member() per relation and position
    std::vector<Obj> stream;                     // pass 2 input
    size_t out_bytes = 0;                        // size of the tag value written to the output buffer per completion
    bool use_read = false;                       // fetch output with read() instead of the callback
};

struct Ctx {
    const Plan* plan = nullptr;
    std::map<int64_t, size_t> rel_index;  // relation id -> index in plan.relations
    std::map<Key, size_t> stream_index;   // (type,id) -> index in stream
    size_t now = 0;                        // index of the stream object being handled
    bool in_pass2 = false;
    std::vector<std::pair<size_t, int64_t>> completions;  // (stream index, relation id)
    std::vector<Key> not_in_any;
    std::vector<std::string> errors;
    std::vector<int64_t> output_ids;  // relation ids found in flushed output, in order
    std::function<const osmium::OSMObject*(const osmium::RelationMember&)> get_member_object;
    std::function<const osmium::OSMObject*(int, int64_t)> get_by_id;
    std::function<osmium::memory::Buffer&()> out_buffer;
    void err(const std::string& e) {
        if (errors.size() < 5) errors.push_back(e);
    }
};

static bool wanted_type(const Plan& p, int t) { return (t == 0 && p.tn) || (t == 1 && p.tw) || (t == 2 && p.tr); }

static bool is_wanted(const Plan& p, size_t ri, size_t n) {
    const auto& m = p.relations[ri].members[n];
    return wanted_type(p, m.type) && p.want_member[ri][n];
}

template <bool N, bool W, bool R, bool CO>
class TestManager : public osmium::relations::RelationsManager<TestManager<N, W, R, CO>, N, W, R, CO> {
  public:
    Ctx* ctx = nullptr;

    bool new_relation(const osmium::Relation& relation) const {
        auto it = ctx->rel_index.find(relation.id());
        if (it == ctx->rel_index.end()) {
            ctx->err("new_relation called for unknown relation");
            return false;
        }
        return ctx->plan->keep[it->second];
    }
    bool new_member(const osmium::Relation& relation, const osmium::RelationMember& member, std::size_t n) const {
        auto it = ctx->rel_index.find(relation.id());
        if (it == ctx->rel_index.end() || n >= ctx->plan->relations[it->second].members.size()) {
            ctx->err("new_member called with wrong relation/position");
            return false;
        }
        const auto& mm = ctx->plan->relations[it->second].members[n];
        if (mm.ref != member.ref() || model::member_type(mm.type) != member.type()) ctx->err("new_member: member #" + std::to_string(n) + " is not the member at that position");
        return ctx->plan->want_member[it->second][n];
    }
    void complete_relation(const osmium::Relation& relation) {
        Ctx& c = *ctx;
        if (!c.in_pass2) c.err("complete_relation called outside the second pass");
        c.completions.emplace_back(c.now, relation.id());
        auto it = c.rel_index.find(relation.id());
        if (it == c.rel_index.end()) {
            c.err("completed relation " + std::to_string(relation.id()) + " was never given to the manager");
            return;
        }
        const Plan& p = *c.plan;
        const Obj& in = p.relations[it->second];
        Obj got = model::from_entity(relation);
        Obj want = in;
        for (size_t n = 0; n < want.members.size(); ++n)
            if (!is_wanted(p, it->second, n)) want.members[n].ref = 0;
        if (got != want) c.err("relation " + std::to_string(in.id) + " handed to complete_relation differs from the input: " + model::diff(want, got));
        size_t n = 0;
        for (const auto& member : relation.members()) {
            const osmium::OSMObject* obj = c.get_member_object(member);
            if (n < in.members.size() && is_wanted(p, it->second, n)) {
                Key k{in.members[n].type, in.members[n].ref};
                auto si = c.stream_index.find(k);
                if (obj == nullptr) {
                    c.err("relation " + std::to_string(in.id) + " completed but wanted member #" + std::to_string(n) + " (" + "nwr"[k.type] + std::to_string(k.id) + ") is not retrievable");
                } else if (si == c.stream_index.end()) {
                    c.err("relation " + std::to_string(in.id) + " completed although member " + "nwr"[k.type] + std::to_string(k.id) + " never occurred in the input");
                } else {
                    if (si->second > c.now) c.err("relation " + std::to_string(in.id) + " completed before member " + "nwr"[k.type] + std::to_string(k.id) + " arrived");
                    Obj mo = model::from_entity(*obj);
                    if (mo != p.stream[si->second]) c.err("member " + std::string(1, "nwr"[k.type]) + std::to_string(k.id) + " of relation " + std::to_string(in.id) + " differs from the input object: " + model::diff(p.stream[si->second], mo));
                }
                const osmium::OSMObject* o2 = c.get_by_id(k.type, k.id);
                if (o2 != obj) c.err("get_member_object and get_member_<type> disagree");
            } else {
                if (obj != nullptr) c.err("get_member_object returned an object for a member the manager is not interested in");
            }
            ++n;
        }
        // produce output
        {
            osmium::memory::Buffer& buf = c.out_buffer();
            osmium::builder::RelationBuilder b{buf};
            b.set_id(relation.id());
            osmium::builder::TagListBuilder tb{buf, &b};
            std::string big(std::min<size_t>(p.out_bytes, 1000), 'o');
            size_t left = p.out_bytes;
            do {
                tb.add_tag("k", big.substr(0, std::min(left, big.size())));
                left -= std::min(left, big.size());
            } while (left > 0);
        }
        c.out_buffer().commit();
    }
    void node_not_in_any_relation(const osmium::Node& o) { ctx->not_in_any.push_back(Key{0, o.id()}); }
    void way_not_in_any_relation(const osmium::Way& o) { ctx->not_in_any.push_back(Key{1, o.id()}); }
    void relation_not_in_any_relation(const osmium::Relation& o) { ctx->not_in_any.push_back(Key{2, o.id()}); }
    void before_node(const osmium::Node& o) { tick(0, o.id()); }
    void before_way(const osmium::Way& o) { tick(1, o.id()); }
    void before_relation(const osmium::Relation& o) { tick(2, o.id()); }
    void tick(int t, int64_t id) {
        auto it = ctx->stream_index.find(Key{t, id});
        if (it == ctx->stream_index.end()) {
            ctx->err("before_* called for an object not in the stream");
            return;
        }
        ctx->now = it->second;
    }
};

static std::string show_plan(const Plan& p) {
    std::string d = std::string{"manager<"} + (p.tn ? "N" : "-") + (p.tw ? "W" : "-") + (p.tr ? "R" : "-") + (p.check_order ? ",order" : "") + "> relations:";
    for (size_t i = 0; i < p.relations.size() && i < 8; ++i) {
        d += " r" + std::to_string(p.relations[i].id) + (p.keep[i] ? "" : "(skip)") + "[";
        for (size_t n = 0; n < p.relations[i].members.size() && n < 10; ++n)
            d += std::string{n ? " " : ""} + "nwr"[p.relations[i].members[n].type] + std::to_string(p.relations[i].members[n].ref) + (p.want_member[i][n] ? "" : "x");
        d += "]";
    }
    if (p.relations.size() > 8) d += " ... (" + std::to_string(p.relations.size()) + " relations)";
    d += " stream:";
    for (size_t i = 0; i < p.stream.size() && i < 24; ++i) d += std::string{" "} + "nwr"[p.stream[i].type] + std::to_string(p.stream[i].id);
    if (p.stream.size() > 24) d += " ... (" + std::to_string(p.stream.size()) + " objects)";
    d += " out_bytes=" + std::to_string(p.out_bytes) + (p.use_read ? " read()" : " callback");
    return d;
}

template <bool N, bool W, bool R, bool CO>
static void run_plan(const Plan& p) {
    Ctx c;
    c.plan = &p;
    for (size_t i = 0; i < p.relations.size(); ++i) c.rel_index[p.relations[i].id] = i;
    for (size_t i = 0; i < p.stream.size(); ++i) c.stream_index[Key{p.stream[i].type, p.stream[i].id}] = i;

    TestManager<N, W, R, CO> mgr;
    mgr.ctx = &c;
    c.get_member_object = [&](const osmium::RelationMember& m) { return mgr.get_member_object(m); };
    c.get_by_id = [&](int t, int64_t id) -> const osmium::OSMObject* {
        if (t == 0) return mgr.get_member_node(id);
        if (t == 1) return mgr.get_member_way(id);
        return mgr.get_member_relation(id);
    };
    c.out_buffer = [&]() -> osmium::memory::Buffer& { return mgr.buffer(); };

    // pass 1
    {
        osmium::memory::Buffer buf{4096, osmium::memory::Buffer::auto_grow::yes};
        for (const auto& r : p.relations) model::add_to_buffer(buf, r);
        osmium::apply(buf, mgr);
    }
    mgr.prepare_for_lookup();

    // pass 2
    auto collect = [&](osmium::memory::Buffer&& b) {
        for (const auto& r : b.select<osmium::Relation>()) c.output_ids.push_back(r.id());
    };
    c.in_pass2 = true;
    {
        osmium::memory::Buffer buf{4096, osmium::memory::Buffer::auto_grow::yes};
        for (const auto& o : p.stream) model::add_to_buffer(buf, o);
        if (p.use_read) {
            auto& h = mgr.handler();
            for (const auto& item : buf) {
                osmium::apply_item(item, h);
                if (mgr.buffer().committed() > p.out_bytes * 3) collect(mgr.read());
            }
            collect(mgr.read());
        } else {
            osmium::apply(buf, mgr.handler(collect));
        }
    }
    c.in_pass2 = false;

    const std::string d = show_plan(p);
    VP_CHECK(c.errors.empty(), "manager-callback", c.errors[0] << " | " << d);

    // ---- expected completions
    std::map<int64_t, size_t> expect_complete;  // relation id -> stream index of the last wanted member
    std::set<int64_t> zero_wanted;
    std::set<int64_t> incomplete;
    std::set<Key> referenced;
    for (size_t i = 0; i < p.relations.size(); ++i) {
        if (!p.keep[i]) continue;
        size_t wanted = 0, last = 0;
        bool all = true;
        for (size_t n = 0; n < p.relations[i].members.size(); ++n) {
            if (!is_wanted(p, i, n)) continue;
            ++wanted;
            Key k{p.relations[i].members[n].type, p.relations[i].members[n].ref};
            referenced.insert(k);
            auto si = c.stream_index.find(k);
            if (si == c.stream_index.end()) {
                all = false;
            } else {
                last = std::max(last, si->second);
            }
        }
        if (wanted == 0) {
            zero_wanted.insert(p.relations[i].id);  // never completed by construction; not asserted beyond "at most once"
        } else if (all) {
            expect_complete[p.relations[i].id] = last;
        } else {
            incomplete.insert(p.relations[i].id);
        }
    }
    std::map<int64_t, size_t> got_complete;
    for (const auto& ev : c.completions) {
        VP_CHECK(got_complete.emplace(ev.second, ev.first).second, "completed-twice", "relation " << ev.second << " completed more than once | " << d);
    }
    for (const auto& kv : expect_complete) {
        auto it = got_complete.find(kv.first);
        VP_CHECK(it != got_complete.end(), "not-completed", "relation " << kv.first << " has all wanted members in the input but was never completed | " << d);
        VP_CHECK(it->second == kv.second, "completed-at-wrong-time", "relation " << kv.first << " completed while handling stream object #" << it->second << ", its last member is #" << kv.second << " | " << d);
    }
    for (const auto& kv : got_complete) {
        VP_CHECK(expect_complete.count(kv.first) != 0, "completed-wrongly", "relation " << kv.first << (incomplete.count(kv.first) ? " has missing members" : " is not of interest") << " but was completed | " << d);
    }
    // ---- output: every completion's output item exactly once, in completion order
    {
        std::vector<int64_t> want_out;
        for (const auto& ev : c.completions) want_out.push_back(ev.second);
        VP_CHECK(c.output_ids == want_out, "output-lost-or-duplicated", "output buffer delivered " << c.output_ids.size() << " items for " << want_out.size() << " completions (or in a different order) | " << d);
    }
    // ---- not_in_any_relation: exactly the handled objects no kept relation wants
    {
        std::vector<Key> want_nia;
        for (const auto& o : p.stream) {
            if (!wanted_type(p, o.type)) continue;  // the manager does not look at these at all
            Key k{o.type, o.id};
            if (!referenced.count(k)) want_nia.push_back(k);
        }
        bool same = want_nia.size() == c.not_in_any.size();
        for (size_t i = 0; same && i < want_nia.size(); ++i) same = want_nia[i] == c.not_in_any[i];
        VP_CHECK(same, "not-in-any-relation", "*_not_in_any_relation called for " << c.not_in_any.size() << " objects, expected " << want_nia.size() << " | " << d);
    }
    // ---- incomplete relations afterwards
    {
        std::set<int64_t> listed;
        mgr.for_each_incomplete_relation([&](const osmium::relations::RelationHandle& h) {
            if (!listed.insert(h->id()).second) c.err("relation listed twice as incomplete");
        });
        VP_CHECK(c.errors.empty(), "incomplete-list", c.errors[0] << " | " << d);
        for (int64_t id : incomplete) VP_CHECK(listed.count(id), "incomplete-list", "relation " << id << " has missing members but is not listed as incomplete | " << d);
        for (int64_t id : listed) VP_CHECK(incomplete.count(id) || zero_wanted.count(id), "incomplete-list", "relation " << id << " listed as incomplete but " << (got_complete.count(id) ? "was completed" : "is not of interest") << " | " << d);
        VP_CHECK(mgr.relations_database().count_relations() == listed.size(), "incomplete-list", "count_relations() disagrees with for_each_relation()");
    }
    // ---- availability after the run
    {
        // needed_by_incomplete: object still needed by a relation that was not completed
        std::set<Key> still_needed;
        for (size_t i = 0; i < p.relations.size(); ++i) {
            if (!p.keep[i] || !incomplete.count(p.relations[i].id)) continue;
            for (size_t n = 0; n < p.relations[i].members.size(); ++n)
                if (is_wanted(p, i, n)) still_needed.insert(Key{p.relations[i].members[n].type, p.relations[i].members[n].ref});
        }
        size_t released = 0;
        for (const Key& k : referenced) {
            const osmium::OSMObject* o = c.get_by_id(k.type, k.id);
            auto si = c.stream_index.find(k);
            if (si == c.stream_index.end()) {
                VP_CHECK(o == nullptr, "lookup-of-absent", "member " << "nwr"[k.type] << k.id << " never occurred in the input but a lookup returns an object | " << d);
            } else if (still_needed.count(k)) {
                VP_CHECK(o != nullptr, "released-too-early", "member " << "nwr"[k.type] << k.id << " is still needed by an incomplete relation but is no longer available | " << d);
                Obj mo = model::from_entity(*o);
                VP_CHECK(mo == p.stream[si->second], "member-content", "member " << "nwr"[k.type] << k.id << " kept for an incomplete relation differs from the input: " << model::diff(p.stream[si->second], mo) << " | " << d);
            } else {
                ++released;
                VP_CHECK(o == nullptr, "lookup-of-released", "member " << "nwr"[k.type] << k.id << " was released after its last relation completed, but a later lookup returns a pointer instead of reporting it absent | " << d);
            }
        }
        // unknown ids
        for (int t = 0; t < 3; ++t) {
            for (int64_t id : {int64_t{987654321}, int64_t{-987654321}, int64_t{0}}) VP_CHECK(c.get_by_id(t, id) == nullptr, "lookup-of-absent", "lookup of unknown id returns an object");
        }
        // member database counters
        size_t tracked = 0, available = 0, removed = 0;
        for (size_t i = 0; i < p.relations.size(); ++i) {
            if (!p.keep[i]) continue;
            for (size_t n = 0; n < p.relations[i].members.size(); ++n) {
                if (!is_wanted(p, i, n)) continue;
                Key k{p.relations[i].members[n].type, p.relations[i].members[n].ref};
                if (got_complete.count(p.relations[i].id)) ++removed;
                else if (c.stream_index.count(k)) ++available;
                else ++tracked;
            }
        }
        size_t gt = 0, ga = 0, gr = 0;
        for (auto t : {osmium::item_type::node, osmium::item_type::way, osmium::item_type::relation}) {
            auto cnt = mgr.member_database(t).count();
            gt += cnt.tracked;
            ga += cnt.available;
            gr += cnt.removed;
        }
        VP_CHECK(gt == tracked && ga == available && gr == removed, "member-counts", "member databases count tracked/available/removed " << gt << "/" << ga << "/" << gr << ", model says " << tracked << "/" << available << "/" << removed << " | " << d);
        if (released) vp::count("cases_with_released_members");
    }
    // ---- classification
    size_t shared = 0;
    {
        std::map<Key, size_t> refcount;
        for (size_t i = 0; i < p.relations.size(); ++i)
            if (p.keep[i])
                for (size_t n = 0; n < p.relations[i].members.size(); ++n)
                    if (is_wanted(p, i, n)) ++refcount[Key{p.relations[i].members[n].type, p.relations[i].members[n].ref}];
        for (const auto& kv : refcount)
            if (kv.second > 1) ++shared;
    }
    vp::count("completions", got_complete.size());
    vp::count("incomplete_relations", incomplete.size());
    if (shared) vp::count("cases_with_shared_members");
    if (!zero_wanted.empty()) vp::count("cases_with_zero_wanted_relation");
    if (!got_complete.empty() && !incomplete.empty() && shared) vp::nontrivial(vp::hash_str(d));
}

static void dispatch(const Plan& p) {
    int k = (p.tn ? 4 : 0) | (p.tw ? 2 : 0) | (p.tr ? 1 : 0);
    if (p.check_order) {
        switch (k) {
            case 7: return run_plan<true, true, true, true>(p);
            case 4: return run_plan<true, false, false, true>(p);
            case 2: return run_plan<false, true, false, true>(p);
            case 6: return run_plan<true, true, false, true>(p);
            default: return run_plan<false, false, true, true>(p);
        }
    }
    switch (k) {
        case 7: return run_plan<true, true, true, false>(p);
        case 4: return run_plan<true, false, false, false>(p);
        case 2: return run_plan<false, true, false, false>(p);
        case 6: return run_plan<true, true, false, false>(p);
        default: return run_plan<false, false, true, false>(p);
    }
}

static uint64_t opts_long_divisor() { return vp::opts().tier == "thorough" ? 30 : 60; }

// id_order of the library (documented): 0, then negative ids by absolute value, then positive ids
static bool ref_id_less(int64_t a, int64_t b) {
    auto rank = [](int64_t v) { return v == 0 ? 0 : v < 0 ? 1 : 2; };
    if (rank(a) != rank(b)) return rank(a) < rank(b);
    unsigned __int128 ua = a < 0 ? static_cast<unsigned __int128>(-static_cast<__int128>(a)) : static_cast<unsigned __int128>(a);
    unsigned __int128 ub = b < 0 ? static_cast<unsigned __int128>(-static_cast<__int128>(b)) : static_cast<unsigned __int128>(b);
    return ua < ub;
}

static int64_t pool_id(Src& s, int pool) {
    // small pools so that relations share members; a few far-apart values
    static const int64_t far[] = {1LL << 31, (1LL << 32) + 5, -(1LL << 33), INT64_MAX, INT64_MIN + 1, 5 - (1LL << 32)};
    if (s.chance(1, 12)) return far[s.draw(6)];
    int64_t v = 1 + static_cast<int64_t>(s.draw(static_cast<uint64_t>(pool)));
    return s.chance(1, 5) ? -v : v;
}

static Obj small_object(Src& s, int type, int64_t id) {
    gen::ObjOpts go;
    go.max_list = 3;
    go.max_str = 20;
    Obj o = gen::object(s, type, go);
    o.id = id;
    if (type == model::RELATION)
        for (auto& m : o.members)
            if (m.ref == 0) m.ref = 1;
    return o;
}

static void prop_manager(Src& s) {
    Plan p;
    switch (s.weighted({4, 2, 2, 1, 1})) {
        case 0: break;
        case 1: p.tn = false; p.tr = false; break;   // ways only (like the multipolygon manager)
        case 2: p.tw = false; p.tr = false; break;   // nodes only
        case 3: p.tr = false; break;
        default: p.tn = false; p.tw = false; break;  // relations only
    }
    p.check_order = !s.chance(1, 3);
    const bool long_history = s.chance(1, opts_long_divisor());
    int pool = long_history ? 100000 : 3 + static_cast<int>(s.draw(12));
    size_t nrel = long_history ? 12000 + s.draw(20000) : s.size(14);
    std::set<int64_t> rel_ids;
    for (size_t i = 0; i < nrel; ++i) {
        int64_t id = long_history ? static_cast<int64_t>(i + 1) : pool_id(s, 30);
        if (id == 0 || !rel_ids.insert(id).second) continue;
        Obj r;
        r.type = model::RELATION;
        r.id = id;
        r.version = 1;
        r.user = "u";
        if (!long_history && s.chance(1, 3)) r.tags.push_back(model::Tag{"type", "x"});
        size_t nm = long_history ? 1 + s.draw(2) : s.weighted({1, 6, 3}) == 0 ? 0 : 1 + s.draw(s.chance(1, 4) ? 12 : 4);
        for (size_t n = 0; n < nm; ++n) {
            model::Member m;
            m.type = static_cast<int>(s.draw(3));
            m.ref = long_history ? static_cast<int64_t>(1 + (i * 2 + n) % 100000) : pool_id(s, pool);
            if (!long_history && n > 0 && s.chance(1, 6)) m = r.members[s.draw(n)];  // duplicate inside one relation
            if (m.ref == 0) m.ref = 1;
            if (!long_history) m.role = gen::str(s, gen::StrMode::any_utf8, 10);
            r.members.push_back(m);
        }
        p.relations.push_back(r);
        p.keep.push_back(long_history ? true : !s.chance(1, 6));
        std::vector<bool> w;
        for (size_t n = 0; n < nm; ++n) w.push_back(long_history ? true : !s.chance(1, 6));
        p.want_member.push_back(w);
    }
    // pass 2 stream: a subset of the referenced ids plus unrelated ids, distinct per type
    std::set<Key> keys;
    for (const auto& r : p.relations)
        for (const auto& m : r.members)
            if (long_history ? !s.chance(1, 50) : !s.chance(1, 5)) keys.insert(Key{m.type, m.ref});
    size_t extra = long_history ? 50 : s.size(8);
    for (size_t i = 0; i < extra; ++i) keys.insert(Key{static_cast<int>(s.draw(3)), pool_id(s, pool + 5)});
    std::vector<Key> order(keys.begin(), keys.end());
    order.erase(std::remove_if(order.begin(), order.end(), [](const Key& k) { return k.id == 0; }), order.end());
    if (p.check_order) {
        std::sort(order.begin(), order.end(), [](const Key& a, const Key& b) { return a.type != b.type ? a.type < b.type : ref_id_less(a.id, b.id); });
    } else {
        for (size_t i = order.size(); i > 1; --i) std::swap(order[i - 1], order[s.draw(i)]);
    }
    for (const Key& k : order) {
        if (long_history) {
            Obj o;
            o.type = k.type;
            o.id = k.id;
            o.version = 1;
            p.stream.push_back(o);
        } else {
            p.stream.push_back(small_object(s, k.type, k.id));
        }
    }
    p.out_bytes = long_history ? 200 : s.weighted({5, 2, 1}) == 0 ? s.draw(100) : s.chance(1, 2) ? 300000 + s.draw(300000) : 900000 + s.draw(1200000);
    p.use_read = s.chance(1, 3);
    if (vp::want_desc()) vp::describe(show_plan(p));
    dispatch(p);
    if (long_history) vp::count("long_histories");
    vp::count(std::string{"manager_"} + (p.tn ? "N" : "-") + (p.tw ? "W" : "-") + (p.tr ? "R" : "-"));
}

// ---------------------------------------------------------------- multipolygon manager
// Disjoint axis-parallel squares, each cut into 1..3 ways; relations of type multipolygon/boundary reference 1..3 squares (all
// their ways), some ways are missing from the input on purpose; closed tagged ways become areas of their own.
struct Square {
    int64_t first_node;
    int32_t x, y, size;
    std::vector<int64_t> way_ids;  // ways this square is cut into
};

static void prop_multipolygon(Src& s) {
    size_t nsq = 1 + s.draw(8);
    std::vector<Square> squares;
    std::map<int64_t, Obj> ways;  // way id -> way
    int64_t next_way = 1 + static_cast<int64_t>(s.draw(5));
    for (size_t i = 0; i < nsq; ++i) {
        Square q;
        q.first_node = static_cast<int64_t>(i) * 10 + 1;
        q.x = static_cast<int32_t>(i) * 1000;
        q.y = static_cast<int32_t>(s.draw(5)) * 100;
        q.size = 10 + static_cast<int32_t>(s.draw(500));
        model::NodeRef c[5] = {{q.first_node, {q.x, q.y}}, {q.first_node + 1, {q.x + q.size, q.y}}, {q.first_node + 2, {q.x + q.size, q.y + q.size}}, {q.first_node + 3, {q.x, q.y + q.size}}, {q.first_node, {q.x, q.y}}};
        size_t cuts = s.weighted({3, 3, 2});  // 0: one closed way, 1: two ways, 2: three ways
        std::vector<std::vector<model::NodeRef>> parts;
        // a way in one piece is closed by its last node being the first one -- or (one time in three) by a second node at the same
        // place: the manager goes by the location of the two ends, not by their ids
        if (cuts == 0 && s.chance(1, 3)) {
            c[4].ref = q.first_node + 4;
            vp::count("mp_way_closed_by_location_only");
        }
        if (cuts == 0) parts = {{c[0], c[1], c[2], c[3], c[4]}};
        else if (cuts == 1) parts = {{c[0], c[1], c[2]}, {c[2], c[3], c[4]}};
        else parts = {{c[0], c[1]}, {c[1], c[2], c[3]}, {c[3], c[4]}};
        for (auto& part : parts) {
            Obj w;
            w.type = model::WAY;
            w.id = next_way;
            next_way += 1 + static_cast<int64_t>(s.draw(3));
            w.version = 1;
            w.refs = part;
            if (s.boolean()) std::reverse(w.refs.begin(), w.refs.end());
            if (cuts == 0 && s.chance(1, 2)) w.tags.push_back(model::Tag{"landuse", "forest"});
            if (cuts == 0 && s.chance(1, 6)) w.tags.push_back(model::Tag{"area", "no"});
            q.way_ids.push_back(w.id);
            ways[w.id] = w;
        }
        squares.push_back(q);
    }
    // relations
    size_t nrel = s.draw(6);
    std::vector<Obj> rels;
    std::set<int64_t> rel_ids;
    for (size_t i = 0; i < nrel; ++i) {
        Obj r;
        r.type = model::RELATION;
        r.id = 1 + static_cast<int64_t>(s.draw(40));
        if (!rel_ids.insert(r.id).second) continue;
        r.version = 1;
        switch (s.weighted({5, 2, 1, 1})) {
            case 0: r.tags.push_back(model::Tag{"type", "multipolygon"}); break;
            case 1: r.tags.push_back(model::Tag{"type", "boundary"}); break;
            case 2: r.tags.push_back(model::Tag{"type", "route"}); break;
            default: break;
        }
        r.tags.push_back(model::Tag{"name", "r" + std::to_string(r.id)});
        size_t k = 1 + s.draw(std::min<size_t>(3, nsq));
        std::set<size_t> used;
        for (size_t j = 0; j < k; ++j) {
            size_t qi = s.draw(nsq);
            if (!used.insert(qi).second) continue;
            for (int64_t wid : squares[qi].way_ids) r.members.push_back(model::Member{1, wid, s.boolean() ? "outer" : "", {}});
        }
        if (s.chance(1, 3)) r.members.push_back(model::Member{0, 1 + static_cast<int64_t>(s.draw(20)), "admin_centre", {}});
        for (size_t j = r.members.size(); j > 1; --j) std::swap(r.members[j - 1], r.members[s.draw(j)]);
        rels.push_back(r);
    }
    std::sort(rels.begin(), rels.end(), [](const Obj& a, const Obj& b) { return a.id < b.id; });
    // which ways are in the input
    std::set<int64_t> present;
    for (const auto& kv : ways)
        if (!s.chance(1, 8)) present.insert(kv.first);

    osmium::area::Assembler::config_type cfg;
    osmium::area::MultipolygonManager<osmium::area::Assembler> mgr{cfg};
    {
        osmium::memory::Buffer buf{4096, osmium::memory::Buffer::auto_grow::yes};
        for (const auto& r : rels) model::add_to_buffer(buf, r);
        osmium::apply(buf, mgr);
    }
    mgr.prepare_for_lookup();
    std::vector<Obj> areas;
    {
        osmium::memory::Buffer buf{4096, osmium::memory::Buffer::auto_grow::yes};
        for (const auto& kv : ways)
            if (present.count(kv.first)) model::add_to_buffer(buf, kv.second);
        osmium::apply(buf, mgr.handler([&](osmium::memory::Buffer&& b) {
            for (const auto& a : b.select<osmium::Area>()) areas.push_back(model::from_entity(a));
        }));
    }
    std::string d = "squares=" + std::to_string(nsq) + " ways=" + std::to_string(ways.size()) + " present=" + std::to_string(present.size()) + " relations:";
    for (const auto& r : rels) {
        d += " r" + std::to_string(r.id) + "(" + (r.tags.size() > 1 ? r.tags[0].v : "-") + ")[";
        for (const auto& m : r.members) d += std::string{"nwr"[m.type]} + std::to_string(m.ref) + " ";
        d += "]";
    }
    if (vp::want_desc()) vp::describe("multipolygon manager: " + d);
    // expected areas
    std::map<int64_t, size_t> want;  // area id -> number of outer rings
    for (const auto& kv : ways) {
        const Obj& w = kv.second;
        if (!present.count(w.id) || w.refs.size() <= 3 || !(w.refs.front().loc == w.refs.back().loc)) continue;
        bool area_no = false;
        for (const auto& t : w.tags) area_no |= (t.k == "area" && t.v == "no");
        if (area_no) continue;
        if (w.tags.empty()) continue;  // default filter 'true' matches any tag; a way without tags matches none
        want[w.id * 2] = 1;
    }
    size_t expected_incomplete = 0;
    for (const auto& r : rels) {
        bool mp = r.tags.size() > 1 && (r.tags[0].v == "multipolygon" || r.tags[0].v == "boundary");
        if (!mp) continue;
        bool all = true;
        std::set<int64_t> wids;
        for (const auto& m : r.members)
            if (m.type == 1) {
                wids.insert(m.ref);
                all &= present.count(m.ref) != 0;
            }
        if (wids.empty()) continue;
        if (!all) {
            ++expected_incomplete;
            continue;
        }
        size_t rings = 0;
        for (const auto& q : squares)
            if (wids.count(q.way_ids[0])) ++rings;
        want[r.id * 2 + 1] = rings;
    }
    std::map<int64_t, size_t> got;
    for (const auto& a : areas) {
        VP_CHECK(got.emplace(a.id, 0).second, "area-twice", "area " << a.id << " produced twice | " << d);
        size_t outers = 0;
        for (const auto& r : a.rings) {
            if (r.outer) ++outers;
            VP_CHECK(r.refs.size() == 5 && r.refs.front().loc == r.refs.back().loc, "area-ring", "ring of area " << a.id << " is not a closed square | " << d);
        }
        got[a.id] = outers;
    }
    for (const auto& kv : want) {
        VP_CHECK(got.count(kv.first), "area-missing", "no area " << kv.first << " (from " << (kv.first % 2 ? "relation " : "way ") << kv.first / 2 << ") although all its ways are in the input | " << d);
        VP_CHECK(got[kv.first] == kv.second, "area-rings", "area " << kv.first << " has " << got[kv.first] << " outer rings, expected " << kv.second << " | " << d);
    }
    for (const auto& kv : got) VP_CHECK(want.count(kv.first), "area-unexpected", "area " << kv.first << " produced although its relation is incomplete/not a multipolygon or the way is not an area | " << d);
    size_t listed = 0;
    mgr.for_each_incomplete_relation([&](const osmium::relations::RelationHandle&) { ++listed; });
    VP_CHECK(listed == expected_incomplete, "incomplete-list", "multipolygon manager lists " << listed << " incomplete relations, expected " << expected_incomplete << " | " << d);
    vp::count("multipolygon_manager");
    vp::count("mp_areas", got.size());
    if (got.size() >= 2 && expected_incomplete > 0) vp::nontrivial(vp::hash_str(d));
}

static void prop(Src& s) {
    if (s.chance(1, 4)) prop_multipolygon(s);
    else prop_manager(s);
}

// ---------------------------------------------------------------- regression scenarios

VP_BUILTIN(F13_lookup_of_released_member) {
    Plan p;
    Obj r;
    r.type = model::RELATION;
    r.id = 1;
    r.version = 1;
    r.members.push_back(model::Member{1, 10, "a", {}});
    r.members.push_back(model::Member{1, 11, "b", {}});
    Obj r2 = r;
    r2.id = 2;
    r2.members.pop_back();
    p.relations = {r, r2};
    p.keep = {true, true};
    p.want_member = {{true, true}, {true}};
    for (int64_t id : {10, 11, 12}) {
        Obj w;
        w.type = model::WAY;
        w.id = id;
        w.version = 1;
        w.refs.push_back(model::NodeRef{1, {}});
        p.stream.push_back(w);
    }
    dispatch(p);
}

VP_MAIN(prop, "generated two-pass histories: 0..14 relations (ids and member ids from small pools so members are shared between relations and repeated inside one; a few 2^31/2^32/INT64 extreme "
              "ids) with generated new_relation()/new_member() interest tables x manager instantiations <N,W,R> in {NWR, W, N, NW, R} x order checking on/off x pass-2 stream (subset of "
              "referenced ids + unrelated ids, sorted as CheckOrder demands or shuffled) x output sizes 0..2 MB per completion (flush thresholds) x callback/read(); 1/60 of cases are long "
              "histories (12k-32k relations) in which the stash must garbage-collect; 1/4 of cases drive the MultipolygonManager with squares cut into ways. Oracle: set-based model of the same "
              "history (completed exactly once at the index of the last wanted member, member objects equal to the input, not_in_any_relation, incomplete list, availability after the run, "
              "member database counters, output items exactly once in order). non-trivial = >= 1 completion, >= 1 incomplete relation and >= 1 shared member; distinct by hash of the plan")
