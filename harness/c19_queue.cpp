// C19: the thread-safe queue is FIFO and loss-free; the pool runs every task exactly once.
// Generated configurations executed under seeded schedule perturbation (hook points in Queue/Pool).
#include "perturb.hpp"

#include <osmium/thread/pool.hpp>
#include <osmium/thread/queue.hpp>

#include <future>
#include <mutex>

using vp::Src;

struct Elem {
    int producer = -1;
    int seq = -1;
};

static bool join_all(std::vector<std::thread>& ts) {
    for (auto& t : ts) t.join();
    return true;
}

// ---------------------------------------------------------------- queue: producers/consumers
static void queue_pc(Src& s) {
    const int P = 1 + static_cast<int>(s.draw(8));
    const int C = 1 + static_cast<int>(s.draw(8));
    const size_t bounds[] = {0, 1, 2, 3, 8, 100};
    const size_t B = bounds[s.draw(6)];
    const int N = 1 + static_cast<int>(s.draw(s.chance(1, 4) ? 2000 : 120));
    std::vector<int> consumer_mode(static_cast<size_t>(C));
    for (auto& m : consumer_mode) m = static_cast<int>(s.draw(3));  // 0 wait_and_pop, 1 try_pop spin, 2 mixed
    std::string desc = "queue P=" + std::to_string(P) + " C=" + std::to_string(C) + " bound=" + std::to_string(B) + " N=" + std::to_string(N);
    if (vp::want_desc()) vp::describe(desc);

    osmium::thread::Queue<Elem> q{B, "test"};
    const long total = static_cast<long>(P) * N;
    std::atomic<long> received{0};
    std::atomic<size_t> max_seen{0};
    std::atomic<bool> done{false};
    std::vector<std::vector<Elem>> got(static_cast<size_t>(C));
    std::vector<std::thread> producers, consumers;
    for (int c = 0; c < C; ++c) {
        consumers.emplace_back([&, c] {
            auto& mine = got[static_cast<size_t>(c)];
            int mode = consumer_mode[static_cast<size_t>(c)];
            unsigned flip = 0;
            while (received.load() < total) {
                Elem e;
                bool have = false;
                bool use_wait = mode == 0 || (mode == 2 && (flip++ & 1));
                if (use_wait) {
                    q.wait_and_pop(e);
                    have = e.producer >= 0;
                    if (!have && !q.in_use()) break;  // woken by shutdown
                } else {
                    have = q.try_pop(e);
                    if (!have) std::this_thread::yield();
                }
                if (have) {
                    mine.push_back(e);
                    received.fetch_add(1);
                }
                size_t sz = q.size();
                size_t m = max_seen.load();
                while (sz > m && !max_seen.compare_exchange_weak(m, sz)) {
                }
            }
        });
    }
    for (int p = 0; p < P; ++p) {
        producers.emplace_back([&, p] {
            for (int i = 0; i < N; ++i) q.push(Elem{p, i});
        });
    }
    join_all(producers);
    // all elements pushed; consumers finish when everything is received, then wake the ones blocked in wait_and_pop
    while (received.load() < total) std::this_thread::yield();
    q.shutdown();
    join_all(consumers);
    done = true;

    // loss-free, duplicate-free, FIFO per producer within each consumer
    std::vector<std::vector<int>> count(static_cast<size_t>(P), std::vector<int>(static_cast<size_t>(N), 0));
    long n_got = 0;
    for (int c = 0; c < C; ++c) {
        std::vector<int> last(static_cast<size_t>(P), -1);
        for (const Elem& e : got[static_cast<size_t>(c)]) {
            VP_CHECK(e.producer >= 0 && e.producer < P && e.seq >= 0 && e.seq < N, "queue-invented", "consumer received an element that was never pushed | " << desc);
            ++count[static_cast<size_t>(e.producer)][static_cast<size_t>(e.seq)];
            VP_CHECK(e.seq > last[static_cast<size_t>(e.producer)], "queue-order", "consumer " << c << " saw producer " << e.producer << "'s element " << e.seq << " after " << last[static_cast<size_t>(e.producer)] << " | " << desc);
            last[static_cast<size_t>(e.producer)] = e.seq;
            ++n_got;
        }
    }
    for (int p = 0; p < P; ++p)
        for (int i = 0; i < N; ++i) {
            VP_CHECK(count[static_cast<size_t>(p)][static_cast<size_t>(i)] >= 1, "queue-lost", "element (" << p << "," << i << ") was pushed but never received | " << desc);
            VP_CHECK(count[static_cast<size_t>(p)][static_cast<size_t>(i)] <= 1, "queue-duplicate", "element (" << p << "," << i << ") was received " << count[static_cast<size_t>(p)][static_cast<size_t>(i)] << " times | " << desc);
        }
    VP_CHECK(n_got == total, "queue-lost", "received " << n_got << " of " << total << " | " << desc);
    // size bound: the full-check happens before the lock is taken, so P producers can overshoot by P-1
    if (B > 0) VP_CHECK(max_seen.load() <= B + static_cast<size_t>(P) - 1, "queue-bound", "observed queue size " << max_seen.load() << " with bound " << B << " and " << P << " producers | " << desc);
    // after shutdown pushes are no-ops
    q.push(Elem{0, 0});
    VP_CHECK(q.empty() && q.size() == 0, "queue-shutdown", "push after shutdown stored an element");
    if (P >= 2 && C >= 2) vp::nontrivial(vp::hash_str(desc) ^ perturb::cfg().seed.load());
    vp::count("queue_pc");
    if (B > 0 && max_seen.load() >= B) vp::count("queue_reached_bound");
}

// ---------------------------------------------------------------- queue: plain consumers (one variable, every return is an element)
// The consumers of the first scenario are defensive: a fresh variable per call, an empty-handed return is ignored. A plain consumer
// re-uses its variable and takes what wait_and_pop() leaves in it for the next element; it stops at its end marker. The queue is
// never shut down here, so wait_and_pop() may only return with an element.
static void queue_plain_consumers(Src& s) {
    const int P = 1 + static_cast<int>(s.draw(6));
    const int C = 2 + static_cast<int>(s.draw(7));
    const size_t bounds[] = {0, 1, 2, 3, 8, 100};
    const size_t B = bounds[s.draw(6)];
    const int N = 1 + static_cast<int>(s.draw(s.chance(1, 4) ? 3000 : 200));
    const std::string desc = "queue with plain consumers P=" + std::to_string(P) + " C=" + std::to_string(C) + " bound=" + std::to_string(B) + " N=" + std::to_string(N);
    if (vp::want_desc()) vp::describe(desc);
    osmium::thread::Queue<Elem> q{B, "plain"};
    std::vector<std::vector<Elem>> got(static_cast<size_t>(C));
    std::vector<std::thread> producers, consumers;
    for (int c = 0; c < C; ++c) {
        consumers.emplace_back([&, c] {
            Elem e;
            for (;;) {
                q.wait_and_pop(e);
                if (e.producer == -2) break;  // end marker
                got[static_cast<size_t>(c)].push_back(e);
            }
        });
    }
    for (int p = 0; p < P; ++p) {
        producers.emplace_back([&, p] {
            for (int i = 0; i < N; ++i) q.push(Elem{p, i});
        });
    }
    join_all(producers);
    for (int c = 0; c < C; ++c) q.push(Elem{-2, c});
    join_all(consumers);  // (a consumer that never gets its end marker: watchdog / deadlock rule)
    std::vector<std::vector<int>> count(static_cast<size_t>(P), std::vector<int>(static_cast<size_t>(N), 0));
    for (int c = 0; c < C; ++c) {
        std::vector<int> last(static_cast<size_t>(P), -1);
        for (const Elem& e : got[static_cast<size_t>(c)]) {
            VP_CHECK(e.producer >= 0 && e.producer < P && e.seq >= 0 && e.seq < N, "queue-invented", "consumer " << c << " took (" << e.producer << "," << e.seq << ") out of the queue, which was never pushed | " << desc);
            ++count[static_cast<size_t>(e.producer)][static_cast<size_t>(e.seq)];
            VP_CHECK(e.seq != last[static_cast<size_t>(e.producer)], "queue-duplicate", "consumer " << c << " got element (" << e.producer << "," << e.seq << ") twice in a row: wait_and_pop() returned without handing out a new element | " << desc);
            VP_CHECK(e.seq > last[static_cast<size_t>(e.producer)], "queue-order", "consumer " << c << " saw producer " << e.producer << "'s element " << e.seq << " after " << last[static_cast<size_t>(e.producer)] << " | " << desc);
            last[static_cast<size_t>(e.producer)] = e.seq;
        }
    }
    for (int p = 0; p < P; ++p)
        for (int i = 0; i < N; ++i) {
            const int n = count[static_cast<size_t>(p)][static_cast<size_t>(i)];
            VP_CHECK(n >= 1, "queue-lost", "element (" << p << "," << i << ") was pushed but never received | " << desc);
            VP_CHECK(n <= 1, "queue-duplicate", "element (" << p << "," << i << ") was received " << n << " times | " << desc);
        }
    VP_CHECK(q.empty(), "queue-lost", "elements left in the queue after every consumer has seen its end marker | " << desc);
    vp::nontrivial(vp::hash_str(desc) ^ perturb::cfg().seed.load());
    vp::count("queue_plain_consumers");
}

// ---------------------------------------------------------------- queue: a producer at a full queue does not return before a pop
static void queue_blocking(Src& s) {
    const size_t B = 1 + s.draw(4);
    osmium::thread::Queue<Elem> q{B, "full"};
    for (size_t i = 0; i < B; ++i) q.push(Elem{0, static_cast<int>(i)});
    std::atomic<bool> returned{false};
    std::thread t{[&] {
        q.push(Elem{0, static_cast<int>(B)});
        returned = true;
    }};
    std::this_thread::sleep_for(std::chrono::milliseconds(15 + s.draw(20)));
    // nobody has popped: a push that has returned did not respect the bound (this can not be a timing artefact)
    bool early = returned.load();
    Elem e;
    bool ok = q.try_pop(e);
    t.join();  // must complete now (watchdog otherwise)
    VP_CHECK(!early, "queue-bound", "push into a full queue (bound " << B << ") returned although nothing was popped");
    VP_CHECK(ok && e.seq == 0, "queue-order", "first element popped is not the first pushed");
    VP_CHECK(q.size() == B, "queue-lost", "queue size after unblocking is " << q.size() << " expected " << B);
    for (size_t i = 1; i <= B; ++i) {
        q.wait_and_pop(e);
        VP_CHECK(e.seq == static_cast<int>(i), "queue-order", "FIFO order broken: got " << e.seq << " expected " << i);
    }
    // second half: the queue is filled again, producers block at it (not more of them than the queue has room for), then the queue is
    // shut down and nobody pops any more. shutdown() empties the queue, so each of these producers finds room and has to come back; one
    // that stays in push() for good keeps its thread (and whoever joins it) waiting forever. No timer of the harness is involved: the
    // producers are simply joined; if one never returns every thread of the process sleeps in a futex wait and the engine reports the
    // deadlock. (Not asserted: what is in the queue afterwards -- a push that was already waiting when shutdown() came does store its
    // element -- and what happens with more blocked producers than the bound: the ones that find the queue full again stay blocked in the
    // unchanged library, which the property's statement, speaking of consumers only, does not cover; see DESIGN, observations.)
    if (s.boolean()) {
        for (size_t i = 0; i < B; ++i) q.push(Elem{1, static_cast<int>(i)});
        const int P = 1 + static_cast<int>(s.draw(B));
        std::atomic<int> back{0};
        std::vector<std::thread> blocked;
        for (int p = 0; p < P; ++p) {
            blocked.emplace_back([&q, &back, p] {
                q.push(Elem{2 + p, 0});
                ++back;
            });
        }
        std::this_thread::sleep_for(std::chrono::milliseconds(10 + s.draw(30)));
        const int early2 = back.load();
        q.shutdown();
        for (auto& th : blocked) th.join();
        VP_CHECK(early2 == 0, "queue-bound", early2 << " of " << P << " pushes into a full queue (bound " << B << ") returned although nothing was popped");
        vp::count("queue_shutdown_with_blocked_producers");
    }
    vp::count("queue_blocking");
    vp::nontrivial(vp::hash_str("blocking") ^ B ^ perturb::cfg().seed.load());
}

// ---------------------------------------------------------------- queue: shutdown wakes every waiting consumer, also mid-stream
static void queue_shutdown(Src& s) {
    const int C = 1 + static_cast<int>(s.draw(8));
    const int P = static_cast<int>(s.draw(4));
    const size_t B = s.draw(4);
    const int N = 50 + static_cast<int>(s.draw(500));
    osmium::thread::Queue<Elem> q{B, "shutdown"};
    std::vector<std::vector<Elem>> got(static_cast<size_t>(C));
    std::vector<std::thread> consumers, producers;
    std::atomic<int> waiting{0};
    for (int c = 0; c < C; ++c) {
        consumers.emplace_back([&, c] {
            for (;;) {
                Elem e;
                ++waiting;
                q.wait_and_pop(e);
                --waiting;
                if (e.producer < 0) {
                    if (!q.in_use()) return;  // woken by shutdown
                    continue;                 // spurious (not expected, but harmless)
                }
                got[static_cast<size_t>(c)].push_back(e);
            }
        });
    }
    for (int p = 0; p < P; ++p) {
        producers.emplace_back([&, p] {
            for (int i = 0; i < N && q.in_use(); ++i) q.push(Elem{p, i});
        });
    }
    std::this_thread::sleep_for(std::chrono::microseconds(s.draw(3000)));
    q.shutdown();
    join_all(consumers);   // every blocked consumer must have been woken; otherwise the watchdog reports the hang
    // Producers that raced with the shutdown may still push (the property says nothing about several producers racing with a
    // shutdown on a bounded queue: one that is already inside push() can refill the queue and block another one). Keep draining
    // until they are done so that the check does not depend on that unspecified behaviour.
    std::atomic<bool> producers_done{false};
    std::thread drainer{[&] {
        Elem e;
        while (!producers_done.load()) {
            if (!q.try_pop(e)) std::this_thread::yield();
        }
    }};
    join_all(producers);
    producers_done = true;
    drainer.join();
    for (int c = 0; c < C; ++c) {
        std::vector<int> last(static_cast<size_t>(std::max(P, 1)), -1);
        for (const Elem& e : got[static_cast<size_t>(c)]) {
            VP_CHECK(e.producer < P && e.seq < N, "queue-invented", "element never pushed");
            VP_CHECK(e.seq > last[static_cast<size_t>(e.producer)], "queue-order", "order broken before shutdown");
            last[static_cast<size_t>(e.producer)] = e.seq;
        }
    }
    VP_CHECK(!q.in_use(), "queue-shutdown", "in_use() still true after shutdown");
    vp::count("queue_shutdown");
    if (C >= 2) vp::nontrivial(vp::hash_str("shutdown") ^ static_cast<uint64_t>(C * 1000 + P * 100 + static_cast<int>(B)) ^ perturb::cfg().seed.load());
}

// Many short rounds in which shutdown() is called at the very moment the consumers enter wait_and_pop(): the window between a
// consumer's last look at the queue and its going to sleep is a few hundred nanoseconds wide, so it has to be tried often. A
// consumer that misses the wake-up sleeps forever; the engine's watchdog then finds every thread asleep (deadlock).
static void queue_shutdown_race(Src& s) {
    const int C = 1 + static_cast<int>(s.draw(4));
    const int rounds = 100 + static_cast<int>(s.draw(300));
    const bool with_elements = s.boolean();
    uint64_t delay_seed = s.draw(1ULL << 32);
    vp::Rng rng{delay_seed};
    for (int r = 0; r < rounds; ++r) {
        osmium::thread::Queue<Elem> q{s.draw(3) == 0 ? 0u : 2u, "race"};
        std::atomic<int> entering{0};
        std::atomic<int> received{0};
        std::vector<std::thread> consumers;
        for (int c = 0; c < C; ++c) {
            consumers.emplace_back([&] {
                for (;;) {
                    Elem e;
                    ++entering;
                    q.wait_and_pop(e);
                    if (e.producer < 0) {
                        if (!q.in_use()) return;
                        continue;
                    }
                    ++received;
                }
            });
        }
        if (with_elements && (r % 3) == 0) q.push(Elem{0, r});
        while (entering.load() < C) {
        }
        volatile unsigned spin = static_cast<unsigned>(rng.below(r % 2 ? 60 : 3000));
        while (spin > 0) spin = spin - 1;
        q.shutdown();
        for (auto& t : consumers) t.join();  // a consumer that was not woken never returns: reported by the watchdog as a deadlock
        VP_CHECK(!q.in_use(), "queue-shutdown", "in_use() still true after shutdown");
    }
    vp::count("queue_shutdown_race_rounds", static_cast<uint64_t>(rounds));
    vp::count("queue_shutdown_race");
    if (C >= 2) vp::nontrivial(vp::hash_str("shutdown-race") ^ static_cast<uint64_t>(C * 1000 + rounds) ^ delay_seed);
}

// ---------------------------------------------------------------- pool
static void pool_tasks(Src& s) {
    const int baseline_threads = perturb::thread_count();
    int workers = 1 + static_cast<int>(s.draw(s.chance(1, 4) ? 32 : 6));
    // one pool in five is asked for its size the other documented ways: 0 (size from OSMIUM_POOL_THREADS, default -2), a negative
    // number (cores plus that number), more than the maximum of 32; at least one thread in every case
    int asked = workers;
    std::string env_text = "(unset)";
    bool env_queue = false;
    if (s.chance(1, 5)) {
        static const int requests[] = {0, 0, 0, -1, -2, -3, -15, -16, -17, -100, -2147483647 - 1, 33, 64, 1000};
        asked = requests[s.draw(sizeof(requests) / sizeof(requests[0]))];
        // (only settings whose meaning the documentation fixes: not set, or a plain positive number; what "0", "-3", " 3" or "4x" in the
        // variable mean is not documented -- the first version of this check asserted "not a number: as if unset" for " 3", which
        // strtoll reads as 3: the check demanded more than the documentation, corrected)
        static const char* const envs[] = {nullptr, nullptr, "1", "2", "5", "31", "32", "33", "100", "1000"};
        const char* env = envs[s.draw(sizeof(envs) / sizeof(envs[0]))];
        if (env) {
            ::setenv("OSMIUM_POOL_THREADS", env, 1);
            env_text = std::string{"'"} + env + "'";
        } else {
            ::unsetenv("OSMIUM_POOL_THREADS");
        }
        // the documented rule, computed here
        const long long setting = env ? std::atoll(env) : 0;
        long long n = asked;
        if (n == 0) n = setting ? setting : -2;
        if (n < 0) n += static_cast<long long>(std::thread::hardware_concurrency());
        workers = static_cast<int>(n < 1 ? 1 : n > 32 ? 32 : n);
        env_queue = s.boolean();
        vp::count("pool_size_by_rule");
    }
    const int M = 1 + static_cast<int>(s.draw(s.chance(1, 5) ? 600 : 60));
    // tasks that submit tasks need a queue that can never be full (otherwise all workers can block in push with nobody left to pop: a
    // property of bounded queues, not a defect), so half of the cases use a queue larger than the total number of tasks
    const size_t qsize = s.boolean() ? 1 + s.draw(12) : static_cast<size_t>(2 * M + 40);
    const bool destroy_with_queue = s.chance(1, 3);
    std::vector<int> kind(static_cast<size_t>(M));
    for (auto& k : kind) {
        k = static_cast<int>(s.weighted({5, 2, 2, 1}));  // 0 value, 1 exception, 2 slow, 3 submits another task
        // a task submitted while the pool is being destroyed can land behind the stop markers (submitting to a dying pool is a
        // caller error), so nested submission is only used when all futures are awaited before destruction
        if (k == 3 && destroy_with_queue) k = 0;
    }
    if (env_queue) ::setenv("OSMIUM_MAX_WORK_QUEUE_SIZE", std::to_string(qsize).c_str(), 1);
    std::string desc = "pool workers=" + std::to_string(workers) + (asked != workers ? " (asked for " + std::to_string(asked) + ", OSMIUM_POOL_THREADS " + env_text + ")" : "") + (env_queue ? " queue from the environment" : "") + " queue=" + std::to_string(qsize) + " tasks=" + std::to_string(M) + (destroy_with_queue ? " destroy-while-queued" : "");
    if (vp::want_desc()) vp::describe(desc);
    std::vector<std::atomic<int>> ran(static_cast<size_t>(2 * M));
    for (auto& r : ran) r = 0;
    std::vector<std::future<int>> futures;
    std::mutex nested_mu;
    std::vector<std::future<int>> nested;
    {
        osmium::thread::Pool pool{asked, env_queue ? 0 : qsize};
        ::unsetenv("OSMIUM_POOL_THREADS");
        ::unsetenv("OSMIUM_MAX_WORK_QUEUE_SIZE");
        VP_CHECK(pool.num_threads() == workers, "pool-size", "pool has " << pool.num_threads() << " threads, the documented rule gives " << workers << " | " << desc);
        for (int i = 0; i < M; ++i) {
            switch (kind[static_cast<size_t>(i)]) {
                case 0:
                    futures.push_back(pool.submit([&ran, i]() -> int {
                        ++ran[static_cast<size_t>(i)];
                        return i;
                    }));
                    break;
                case 1:
                    futures.push_back(pool.submit([&ran, i]() -> int {
                        ++ran[static_cast<size_t>(i)];
                        throw std::runtime_error{"task " + std::to_string(i)};
                    }));
                    break;
                case 2:
                    futures.push_back(pool.submit([&ran, i]() -> int {
                        std::this_thread::sleep_for(std::chrono::microseconds(50 + (i * 37) % 700));
                        ++ran[static_cast<size_t>(i)];
                        return i;
                    }));
                    break;
                default:
                    futures.push_back(pool.submit([&, i]() -> int {
                        ++ran[static_cast<size_t>(i)];
                        // a task submitting a task (does not wait for it: waiting inside a worker could exhaust the workers)
                        if (qsize >= static_cast<size_t>(2 * M + 40)) {
                            auto f = pool.submit([&ran, i, M]() -> int {
                                ++ran[static_cast<size_t>(M + i)];
                                return -i;
                            });
                            std::lock_guard<std::mutex> g{nested_mu};
                            nested.push_back(std::move(f));
                        } else {
                            ++ran[static_cast<size_t>(M + i)];
                        }
                        return i;
                    }));
                    break;
            }
        }
        if (!destroy_with_queue) {
            for (int i = 0; i < M; ++i) {
                if (kind[static_cast<size_t>(i)] == 1) {
                    bool threw = false;
                    try {
                        futures[static_cast<size_t>(i)].get();
                    } catch (const std::runtime_error& e) {
                        threw = std::string{e.what()} == "task " + std::to_string(i);
                    }
                    VP_CHECK(threw, "pool-exception", "the exception of task " << i << " did not arrive in its future | " << desc);
                } else {
                    int v = futures[static_cast<size_t>(i)].get();
                    VP_CHECK(v == i, "pool-result", "future of task " << i << " holds " << v << " | " << desc);
                }
            }
        }
        // pool destroyed here: joins all workers; queued tasks must still run
    }
    if (destroy_with_queue) {
        for (int i = 0; i < M; ++i) {
            VP_CHECK(futures[static_cast<size_t>(i)].wait_for(std::chrono::seconds(0)) == std::future_status::ready, "pool-lost-task", "task " << i << " was still not finished after the pool was destroyed | " << desc);
            if (kind[static_cast<size_t>(i)] == 1) {
                bool threw = false;
                try {
                    futures[static_cast<size_t>(i)].get();
                } catch (const std::runtime_error&) {
                    threw = true;
                }
                VP_CHECK(threw, "pool-exception", "exception of task " << i << " lost | " << desc);
            } else {
                VP_CHECK(futures[static_cast<size_t>(i)].get() == i, "pool-result", "future of task " << i << " wrong after destruction | " << desc);
            }
        }
    }
    for (int i = 0; i < M; ++i) {
        VP_CHECK(ran[static_cast<size_t>(i)] == 1, "pool-exactly-once", "task " << i << " ran " << ran[static_cast<size_t>(i)] << " times | " << desc);
        if (kind[static_cast<size_t>(i)] == 3) VP_CHECK(ran[static_cast<size_t>(M + i)] == 1, "pool-exactly-once", "task submitted by task " << i << " ran " << ran[static_cast<size_t>(M + i)] << " times | " << desc);
    }
    {
        std::lock_guard<std::mutex> g{nested_mu};
        for (auto& f : nested) {
            VP_CHECK(f.wait_for(std::chrono::seconds(0)) == std::future_status::ready, "pool-lost-task", "nested task not finished after pool destruction");
            f.get();
        }
    }
    // all workers joined: thread count back at the baseline
    int now = perturb::thread_count();
    for (int spin = 0; spin < 200 && now > baseline_threads; ++spin) {
        std::this_thread::sleep_for(std::chrono::milliseconds(1));
        now = perturb::thread_count();
    }
    // (fewer threads than before is no leak: a thread of an earlier scenario may still have been on its way out when the baseline was taken)
    VP_CHECK(now <= baseline_threads, "pool-thread-leak", "thread count " << now << " after pool destruction, baseline " << baseline_threads << " | " << desc);
    vp::count("pool");
    if (workers >= 2 && M >= 2) vp::nontrivial(vp::hash_str(desc) ^ perturb::cfg().seed.load());
}

// Pool bookkeeping and task kinds: all workers are held at a gate, K more tasks are submitted: queue_size() is exactly K and
// queue_empty() is K == 0 while nothing can be taken; results of move-only type, tasks returning void, a task that throws something
// that is not derived from std::exception; after the gate opens every task runs once, in submission order per worker pick-up
// (with one worker: in submission order), and the queue is empty again.
static void pool_accounting(Src& s) {
    const int workers = 1 + static_cast<int>(s.draw(s.chance(1, 3) ? 16 : 4));
    const size_t K = s.draw(40);
    const size_t qsize = K + static_cast<size_t>(workers) + 2 + s.draw(5);
    std::string desc = "pool accounting workers=" + std::to_string(workers) + " queued=" + std::to_string(K);
    if (vp::want_desc()) vp::describe(desc);
    std::promise<void> gate;
    std::shared_future<void> open = gate.get_future().share();
    // whatever happens below (a failed check throws), the gate is opened before the pool is destroyed: workers left at a closed gate
    // would make the pool's destructor wait for ever, and the engine would report the harness's own standstill as a deadlock of the
    // library (it did, once, in the thorough tier under heavy load)
    struct OpenGate {
        std::promise<void>& p;
        bool done = false;
        void open_now() {
            if (!done) {
                done = true;
                p.set_value();
            }
        }
        ~OpenGate() { open_now(); }
    };
    std::atomic<int> at_gate{0};
    std::vector<int> order;
    std::mutex order_mu;
    std::vector<std::atomic<int>> ran(K);
    for (auto& r : ran) r = 0;
    {
        osmium::thread::Pool pool{workers, qsize};
        OpenGate gate_guard{gate};  // (declared after the pool: opened before the pool's destructor runs)
        VP_CHECK(pool.queue_empty() && pool.queue_size() == 0, "pool-accounting", "a new pool reports a non-empty queue | " << desc);
        std::vector<std::future<void>> gates;
        for (int i = 0; i < workers; ++i) {
            gates.push_back(pool.submit([&at_gate, open]() {
                ++at_gate;
                open.wait();
            }));
        }
        // (no time limit of the harness: if a worker never picks its task up the engine's watchdog sees the standstill)
        while (at_gate < workers) std::this_thread::sleep_for(std::chrono::microseconds(200));
        VP_CHECK(pool.queue_empty() && pool.queue_size() == 0, "pool-accounting", "all " << workers << " workers hold a task, nothing else was submitted, but queue_size() = " << pool.queue_size() << " | " << desc);
        std::vector<std::future<std::unique_ptr<int>>> values;
        std::vector<std::future<void>> voids;
        std::vector<std::future<int>> odd;
        std::vector<int> kind(K);
        for (size_t i = 0; i < K; ++i) {
            kind[i] = static_cast<int>(s.draw(3));
            const int ii = static_cast<int>(i);
            auto note = [&order, &order_mu, &ran, ii]() {
                ++ran[static_cast<size_t>(ii)];
                std::lock_guard<std::mutex> g{order_mu};
                order.push_back(ii);
            };
            if (kind[i] == 0) {
                values.push_back(pool.submit([note, ii]() {
                    note();
                    return std::make_unique<int>(ii);
                }));
            } else if (kind[i] == 1) {
                voids.push_back(pool.submit([note]() { note(); }));
            } else {
                odd.push_back(pool.submit([note, ii]() -> int {
                    note();
                    throw ii;  // not a std::exception
                }));
            }
            VP_CHECK(pool.queue_size() == i + 1 && !pool.queue_empty(), "pool-accounting", "after " << (i + 1) << " tasks submitted to a pool whose workers are all busy: queue_size() = " << pool.queue_size() << ", queue_empty() = " << pool.queue_empty() << " | " << desc);
        }
        for (size_t i = 0; i < K; ++i) VP_CHECK(ran[i] == 0, "pool-accounting", "task " << i << " ran although every worker was busy | " << desc);
        gate_guard.open_now();
        for (auto& g : gates) g.get();
        size_t vi = 0, oi = 0, di = 0;
        for (size_t i = 0; i < K; ++i) {
            if (kind[i] == 0) {
                std::unique_ptr<int> v = values[vi++].get();
                VP_CHECK(v && *v == static_cast<int>(i), "pool-result", "move-only result of task " << i << " is " << (v ? std::to_string(*v) : std::string{"null"}) << " | " << desc);
            } else if (kind[i] == 1) {
                voids[di++].get();
            } else {
                bool got = false;
                try {
                    odd[oi++].get();
                } catch (int v) {
                    got = v == static_cast<int>(i);
                } catch (...) {
                }
                VP_CHECK(got, "pool-exception", "the int thrown by task " << i << " did not arrive in its future | " << desc);
            }
        }
        for (size_t i = 0; i < K; ++i) VP_CHECK(ran[i] == 1, "pool-exactly-once", "task " << i << " ran " << ran[i] << " times | " << desc);
        VP_CHECK(pool.queue_empty() && pool.queue_size() == 0, "pool-accounting", "all futures are ready but queue_size() = " << pool.queue_size() << " | " << desc);
        if (workers == 1) {
            for (size_t i = 0; i < order.size(); ++i) VP_CHECK(order[i] == static_cast<int>(i), "pool-order", "a pool with one worker ran task " << order[i] << " as number " << i << " | " << desc);
        }
    }
    vp::count("pool_accounting");
    if (K >= 2) vp::nontrivial(vp::hash_str(desc) ^ perturb::cfg().seed.load());
}

static void prop(Src& s) {
    static bool installed = false;
    if (!installed) {
        perturb::install();
        installed = true;
    }
    unsigned intensities[] = {0, 8, 40, 120, 255};
    unsigned inten = intensities[s.draw(5)];
    perturb::configure(s.draw(1ULL << 32), inten);
    int cpus[] = {0, 0, 1, 2, 4};
    perturb::set_cpus(cpus[s.draw(5)]);
    switch (s.weighted({5, 1, 2, 4, 2, 3, 2})) {
        case 6: pool_accounting(s); break;
        case 5: queue_plain_consumers(s); break;
        case 0: queue_pc(s); break;
        case 1: queue_blocking(s); break;
        case 2: queue_shutdown(s); break;
        case 3: pool_tasks(s); break;
        default: queue_shutdown_race(s); break;
    }
    vp::count("perturbation_intensity_" + std::to_string(inten));
    vp::count("sched_points", perturb::cfg().points.exchange(0));
    vp::count("sched_actions", perturb::cfg().actions.exchange(0));
}

VP_MAIN(prop, "generated concurrent executions: queues with 1..8 producers x 1..8 consumers, bound in {0,1,2,3,8,100}, 1..2000 elements per producer, consumers using wait_and_pop / try_pop / "
              "both, or plain consumers (one variable, end markers, no shutdown); shutdown after completion or mid-stream, 100..400 rounds of shutdown racing with consumers that are just entering wait_and_pop; producer at a full queue; pools of 1..32 workers with value / exception / slow / task-submitting tasks, destruction with "
              "a non-empty queue; every execution under a seeded perturbation of the thread schedule (yield / sleep / spin at the OSMIUM_VERIF_SCHED hook points, five intensities) and a "
              "CPU set of 1/2/4/all cores. Oracle: multiset equality, per-producer order per consumer, size bound + P - 1, exactly-once counters, future values/exceptions, thread count "
              "back at baseline, watchdog for wake-ups. non-trivial = >= 2 producers and consumers / >= 2 workers and tasks; distinct by configuration x perturbation seed")
