// C20: handler dispatch and diff iteration visit each object once with the right context.
#include "../engine/vp_enum.hpp"

#include <osmium/builder/osm_object_builder.hpp>
#include <osmium/diff_handler.hpp>
#include <osmium/diff_iterator.hpp>
#include <osmium/diff_visitor.hpp>
#include <osmium/dynamic_handler.hpp>
#include <osmium/handler.hpp>
#include <osmium/handler/chain.hpp>
#include <osmium/io/opl_input.hpp>
#include <osmium/io/reader.hpp>
#include <osmium/io/reader_iterator.hpp>
#include <osmium/memory/buffer.hpp>
#include <osmium/visitor.hpp>

using osmium::memory::Buffer;
using osmium::memory::Item;

enum CB { OSM_OBJECT, NODE, WAY, RELATION, AREA, CHANGESET, TAG_LIST, WAY_NODE_LIST, REL_MEMBER_LIST, OUTER_RING, INNER_RING, DISCUSSION, FLUSH, LAMBDA };
static const char* const CBN[] = {"osm_object", "node", "way", "relation", "area", "changeset", "tag_list", "way_node_list", "relation_member_list",
                                  "outer_ring", "inner_ring", "changeset_discussion", "flush", "lambda"};

struct Entry {
    int h;
    int cb;
    const void* item;
    bool operator==(const Entry& o) const { return h == o.h && cb == o.cb && item == o.item; }
};
static thread_local std::vector<Entry> LOG;
static void lg(int h, int cb, const void* p) { LOG.push_back(Entry{h, cb, p}); }

// static handler with const signatures
struct LogH : public osmium::handler::Handler {
    int h;
    explicit LogH(int i) : h(i) {}
    void osm_object(const osmium::OSMObject& o) const { lg(h, OSM_OBJECT, &o); }
    void node(const osmium::Node& o) const { lg(h, NODE, &o); }
    void way(const osmium::Way& o) const { lg(h, WAY, &o); }
    void relation(const osmium::Relation& o) const { lg(h, RELATION, &o); }
    void area(const osmium::Area& o) const { lg(h, AREA, &o); }
    void changeset(const osmium::Changeset& o) const { lg(h, CHANGESET, &o); }
    void tag_list(const osmium::TagList& o) const { lg(h, TAG_LIST, &o); }
    void way_node_list(const osmium::WayNodeList& o) const { lg(h, WAY_NODE_LIST, &o); }
    void relation_member_list(const osmium::RelationMemberList& o) const { lg(h, REL_MEMBER_LIST, &o); }
    void outer_ring(const osmium::OuterRing& o) const { lg(h, OUTER_RING, &o); }
    void inner_ring(const osmium::InnerRing& o) const { lg(h, INNER_RING, &o); }
    void changeset_discussion(const osmium::ChangesetDiscussion& o) const { lg(h, DISCUSSION, &o); }
    void flush() const { lg(h, FLUSH, nullptr); }
};
// static handler with non-const signatures (only usable on non-const containers)
struct LogHNC : public osmium::handler::Handler {
    int h;
    explicit LogHNC(int i) : h(i) {}
    void osm_object(osmium::OSMObject& o) { lg(h, OSM_OBJECT, &o); }
    void node(osmium::Node& o) { lg(h, NODE, &o); }
    void way(osmium::Way& o) { lg(h, WAY, &o); }
    void relation(osmium::Relation& o) { lg(h, RELATION, &o); }
    void area(osmium::Area& o) { lg(h, AREA, &o); }
    void changeset(osmium::Changeset& o) { lg(h, CHANGESET, &o); }
    void tag_list(osmium::TagList& o) { lg(h, TAG_LIST, &o); }
    void way_node_list(osmium::WayNodeList& o) { lg(h, WAY_NODE_LIST, &o); }
    void relation_member_list(osmium::RelationMemberList& o) { lg(h, REL_MEMBER_LIST, &o); }
    void outer_ring(osmium::OuterRing& o) { lg(h, OUTER_RING, &o); }
    void inner_ring(osmium::InnerRing& o) { lg(h, INNER_RING, &o); }
    void changeset_discussion(osmium::ChangesetDiscussion& o) { lg(h, DISCUSSION, &o); }
    void flush() { lg(h, FLUSH, nullptr); }
};
// inner handler for DynamicHandler: handler-style functions for some types, visitor-style operator() for others
struct DynInner {
    int h;
    explicit DynInner(int i) : h(i) {}
    void node(const osmium::Node& o) { lg(h, NODE, &o); }
    void way(const osmium::Way& o) { lg(h, WAY, &o); }
    void operator()(const osmium::Relation& o) { lg(h, RELATION, &o); }
    void operator()(const osmium::Area& o) { lg(h, AREA, &o); }
    void changeset(const osmium::Changeset& o) { lg(h, CHANGESET, &o); }
    void flush() { lg(h, FLUSH, nullptr); }
};

// ---------------------------------------------------------------- item kinds
enum Kind { K_NODE, K_WAY, K_REL, K_AREA, K_CS, K_REMOVED_NODE, K_TAGS, K_WNL, K_RML, K_RMLF, K_OUTER, K_INNER, K_DISC, NKINDS };
static const char* const KN[] = {"node", "way", "relation", "area", "changeset", "removed-node", "tag_list", "way_node_list", "relation_member_list",
                                 "relation_member_list_with_full_members", "outer_ring", "inner_ring", "changeset_discussion"};

static void set_item_type(Item& item, osmium::item_type t) {
    // Item layout: uint32 size, uint16 type, uint16 flags
    uint16_t v = static_cast<uint16_t>(t);
    std::memcpy(reinterpret_cast<unsigned char*>(&item) + 4, &v, 2);
}

static void add_kind(Buffer& buf, int kind, int64_t id) {
    using namespace osmium::builder;
    const size_t off = buf.committed();
    switch (kind) {
        case K_NODE:
        case K_REMOVED_NODE: {
            NodeBuilder b{buf};
            b.set_id(id).set_version(1).set_user("u");
            b.add_tags({{"k", "v"}});
            break;
        }
        case K_WAY: {
            WayBuilder b{buf};
            b.set_id(id).set_version(1).set_user("user");
            {
                WayNodeListBuilder w{buf, &b};
                w.add_node_ref(1);
                w.add_node_ref(2);
            }
            b.add_tags({{"highway", "x"}});
            break;
        }
        case K_REL: {
            RelationBuilder b{buf};
            b.set_id(id).set_version(1).set_user("");
            {
                RelationMemberListBuilder m{buf, &b};
                m.add_member(osmium::item_type::way, 7, "outer");
            }
            break;
        }
        case K_AREA: {
            AreaBuilder b{buf};
            b.set_id(id).set_version(1).set_user("a");
            {
                OuterRingBuilder r{buf, &b};
                r.add_node_ref(1);
                r.add_node_ref(2);
                r.add_node_ref(3);
                r.add_node_ref(1);
            }
            {
                InnerRingBuilder r{buf, &b};
                r.add_node_ref(5);
            }
            break;
        }
        case K_CS: {
            ChangesetBuilder b{buf};
            b.set_id(static_cast<osmium::changeset_id_type>(id & 0x7fffffff)).set_user("cs");
            {
                ChangesetDiscussionBuilder d{buf, &b};
                d.add_comment(osmium::Timestamp{100}, 1, "who");
                d.add_comment_text("text");
            }
            break;
        }
        case K_TAGS: {
            TagListBuilder b{buf};
            b.add_tag("a", "b");
            break;
        }
        case K_WNL: {
            WayNodeListBuilder b{buf};
            b.add_node_ref(9);
            break;
        }
        case K_RML:
        case K_RMLF: {
            RelationMemberListBuilder b{buf};
            b.add_member(osmium::item_type::node, 3, "r");
            break;
        }
        case K_OUTER: {
            OuterRingBuilder b{buf};
            b.add_node_ref(1);
            break;
        }
        case K_INNER: {
            InnerRingBuilder b{buf};
            b.add_node_ref(1);
            break;
        }
        case K_DISC: {
            ChangesetDiscussionBuilder b{buf};
            b.add_comment(osmium::Timestamp{5}, 2, "x");
            b.add_comment_text("y");
            break;
        }
        default: break;
    }
    buf.commit();
    Item& it = buf.get<Item>(off);
    if (kind == K_REMOVED_NODE) it.set_removed(true);
    if (kind == K_RMLF) set_item_type(it, osmium::item_type::relation_member_list_with_full_members);
}

static bool is_object(int k) { return k == K_NODE || k == K_WAY || k == K_REL || k == K_AREA || k == K_REMOVED_NODE; }
static bool is_entity(int k) { return is_object(k) || k == K_CS; }
static int type_cb(int k) {
    switch (k) {
        case K_NODE: case K_REMOVED_NODE: return NODE;
        case K_WAY: return WAY;
        case K_REL: return RELATION;
        case K_AREA: return AREA;
        case K_CS: return CHANGESET;
        case K_TAGS: return TAG_LIST;
        case K_WNL: return WAY_NODE_LIST;
        case K_RML: case K_RMLF: return REL_MEMBER_LIST;
        case K_OUTER: return OUTER_RING;
        case K_INNER: return INNER_RING;
        default: return DISCUSSION;
    }
}

struct Placed {
    int kind;
    const void* ptr;
};

// ---------------------------------------------------------------- model of handlers
struct HDesc {
    enum T { FULL, DYN, CHAIN2, LAMBDA_SET } t;
    int h;       // log id (CHAIN2: first sub handler id, second is h+1)
    std::set<int> accept;  // LAMBDA_SET: kinds accepted
};

static std::vector<Entry> model(const std::vector<Placed>& yielded, const std::vector<HDesc>& hs, bool flush = true) {
    std::vector<Entry> out;
    for (const auto& p : yielded) {
        for (const auto& h : hs) {
            switch (h.t) {
                case HDesc::FULL:
                    if (is_object(p.kind)) out.push_back({h.h, OSM_OBJECT, p.ptr});
                    out.push_back({h.h, type_cb(p.kind), p.ptr});
                    break;
                case HDesc::DYN:
                    if (is_entity(p.kind)) out.push_back({h.h, type_cb(p.kind), p.ptr});
                    break;
                case HDesc::CHAIN2:
                    if (is_entity(p.kind)) {
                        out.push_back({h.h, type_cb(p.kind), p.ptr});
                        out.push_back({h.h + 1, type_cb(p.kind), p.ptr});
                    }
                    break;
                case HDesc::LAMBDA_SET:
                    if (h.accept.count(p.kind)) out.push_back({h.h, LAMBDA, p.ptr});
                    break;
            }
        }
    }
    if (flush) {
        for (const auto& h : hs) {
            if (h.t == HDesc::FULL || h.t == HDesc::DYN) out.push_back({h.h, FLUSH, nullptr});
            if (h.t == HDesc::CHAIN2) {
                out.push_back({h.h, FLUSH, nullptr});
                out.push_back({h.h + 1, FLUSH, nullptr});
            }
        }
    }
    return out;
}

static std::string show_log(const std::vector<Entry>& l, const std::vector<Placed>& all) {
    std::string s;
    for (const auto& e : l) {
        int idx = -1;
        for (size_t i = 0; i < all.size(); ++i)
            if (all[i].ptr == e.item) idx = static_cast<int>(i);
        s += "h" + std::to_string(e.h) + "." + CBN[e.cb] + "(#" + std::to_string(idx) + ") ";
    }
    return s;
}

static void expect_log(const char* what, const std::vector<Entry>& want, const std::vector<Placed>& all, const std::string& seqdesc) {
    if (!(LOG == want)) {
        vp::fail(std::string{"dispatch-"} + what, std::string{what} + " on [" + seqdesc + "]: got " + show_log(LOG, all) + "| expected " + show_log(want, all));
    }
    LOG.clear();
}

static std::vector<Placed> filter(const std::vector<Placed>& all, bool (*pred)(int)) {
    std::vector<Placed> r;
    for (const auto& p : all)
        if (pred(p.kind)) r.push_back(p);
    return r;
}

static void run_dispatch(const std::vector<int>& kinds, vp::Local& L) {
    Buffer buf{4096, Buffer::auto_grow::yes};
    std::vector<size_t> offs;
    int64_t id = 10;
    for (int k : kinds) {
        offs.push_back(buf.committed());
        add_kind(buf, k, id++);
    }
    std::vector<Placed> all;
    for (size_t i = 0; i < kinds.size(); ++i) all.push_back({kinds[i], &buf.get<Item>(offs[i])});
    std::string sd;
    for (int k : kinds) sd += std::string{KN[k]} + " ";
    const Buffer& cbuf = buf;
    const auto ents = filter(all, is_entity);
    const auto objs = filter(all, is_object);
    LOG.clear();

    // A: one static handler, const buffer
    {
        LogH h0{0};
        osmium::apply(cbuf, h0);
        expect_log("const-buffer-1-handler", model(ents, {{HDesc::FULL, 0, {}}}), all, sd);
    }
    // B: three handlers in argument order on a non-const buffer (non-const and const signatures, rvalue handler)
    {
        LogHNC h0{0};
        LogH h1{1};
        osmium::apply(buf, h0, h1, LogH{2});
        expect_log("buffer-3-handlers", model(ents, {{HDesc::FULL, 0, {}}, {HDesc::FULL, 1, {}}, {HDesc::FULL, 2, {}}}), all, sd);
    }
    // C: dynamic handler between two static ones
    {
        LogH h0{0};
        osmium::handler::DynamicHandler dyn;
        dyn.set<DynInner>(1);
        LogH h2{2};
        osmium::apply(cbuf, h0, dyn, h2);
        expect_log("dynamic-handler", model(ents, {{HDesc::FULL, 0, {}}, {HDesc::DYN, 1, {}}, {HDesc::FULL, 2, {}}}), all, sd);
        osmium::handler::DynamicHandler empty;
        osmium::apply(cbuf, empty);
        expect_log("dynamic-handler-empty", {}, all, sd);
    }
    // D: chained handlers
    {
        LogHNC a{1};
        LogH b{2};
        osmium::handler::ChainHandler<LogHNC, LogH> chain{a, b};
        LogH h0{0};
        LogH h3{3};
        osmium::apply(buf, h0, chain, h3);
        expect_log("chain-handler", model(ents, {{HDesc::FULL, 0, {}}, {HDesc::CHAIN2, 1, {}}, {HDesc::FULL, 3, {}}}), all, sd);
    }
    // E: lambdas on a const buffer (const signatures); a lambda taking a non-const reference can never match here
    {
        LogH h4{4};
        osmium::apply(cbuf,
                      [](const osmium::Node& o) { lg(0, LAMBDA, &o); },
                      [](const osmium::OSMObject& o) { lg(1, LAMBDA, &o); },
                      [](const osmium::OSMEntity& o) { lg(2, LAMBDA, &o); },
                      [](osmium::Way& o) { lg(3, LAMBDA, &o); },
                      h4,
                      [](const osmium::Changeset& o) { lg(5, LAMBDA, &o); });
        expect_log("lambdas-const-buffer",
                   model(ents, {{HDesc::LAMBDA_SET, 0, {K_NODE, K_REMOVED_NODE}}, {HDesc::LAMBDA_SET, 1, {K_NODE, K_REMOVED_NODE, K_WAY, K_REL, K_AREA}},
                                {HDesc::LAMBDA_SET, 2, {K_NODE, K_REMOVED_NODE, K_WAY, K_REL, K_AREA, K_CS}}, {HDesc::LAMBDA_SET, 3, {}}, {HDesc::FULL, 4, {}},
                                {HDesc::LAMBDA_SET, 5, {K_CS}}}),
                   all, sd);
    }
    // F: lambdas on a non-const buffer
    {
        osmium::apply(buf,
                      [](osmium::Way& o) { lg(0, LAMBDA, &o); },
                      [](const osmium::Way& o) { lg(1, LAMBDA, &o); },
                      [](osmium::Area& o) { lg(2, LAMBDA, &o); },
                      [](osmium::OSMObject& o) { lg(3, LAMBDA, &o); },
                      [](const osmium::Relation& o) { lg(4, LAMBDA, &o); });
        expect_log("lambdas-nonconst-buffer",
                   model(ents, {{HDesc::LAMBDA_SET, 0, {K_WAY}}, {HDesc::LAMBDA_SET, 1, {K_WAY}}, {HDesc::LAMBDA_SET, 2, {K_AREA}},
                                {HDesc::LAMBDA_SET, 3, {K_NODE, K_REMOVED_NODE, K_WAY, K_REL, K_AREA}}, {HDesc::LAMBDA_SET, 4, {K_REL}}}),
                   all, sd);
    }
    // G: iterator ranges over all items (non-entity items reach their callbacks), const and non-const
    {
        LogH h0{0};
        LogH h1{1};
        osmium::apply(cbuf.cbegin<Item>(), cbuf.cend<Item>(), h0, h1);
        expect_log("item-range-const", model(all, {{HDesc::FULL, 0, {}}, {HDesc::FULL, 1, {}}}), all, sd);
        LogHNC n0{0};
        osmium::handler::DynamicHandler dyn;
        dyn.set<DynInner>(1);
        osmium::apply(buf.begin<Item>(), buf.end<Item>(), n0, dyn, [](const osmium::Node& o) { lg(2, LAMBDA, &o); });
        expect_log("item-range-nonconst", model(all, {{HDesc::FULL, 0, {}}, {HDesc::DYN, 1, {}}, {HDesc::LAMBDA_SET, 2, {K_NODE, K_REMOVED_NODE}}}), all, sd);
    }
    // H: OSMObject ranges skip changesets and non-entities
    {
        LogH h0{0};
        osmium::apply(cbuf.cbegin<osmium::OSMObject>(), cbuf.cend<osmium::OSMObject>(), h0);
        expect_log("object-range-const", model(objs, {{HDesc::FULL, 0, {}}}), all, sd);
        LogHNC n0{0};
        LogH h1{1};
        osmium::apply(buf.begin<osmium::OSMObject>(), buf.end<osmium::OSMObject>(), n0, h1);
        expect_log("object-range-nonconst", model(objs, {{HDesc::FULL, 0, {}}, {HDesc::FULL, 1, {}}}), all, sd);
    }
    // I: apply_item on single items (no flush); entity-typed references reject non-entities with unknown_type
    {
        LogH h0{0};
        LogH h1{1};
        for (const auto& p : all) {
            const Item& item = *static_cast<const Item*>(p.ptr);
            osmium::apply_item(item, h0, h1);
            expect_log("apply_item", model({p}, {{HDesc::FULL, 0, {}}, {HDesc::FULL, 1, {}}}, false), all, sd);
            if (is_entity(p.kind)) {
                const auto& ent = static_cast<const osmium::OSMEntity&>(item);
                osmium::apply_item(ent, h0);
                expect_log("apply_item-entity", model({p}, {{HDesc::FULL, 0, {}}}, false), all, sd);
            }
            if (is_object(p.kind)) {
                const auto& obj = static_cast<const osmium::OSMObject&>(item);
                osmium::apply_item(obj, h0);
                expect_log("apply_item-object", model({p}, {{HDesc::FULL, 0, {}}}, false), all, sd);
            } else if (p.kind == K_CS) {
                bool threw = false;
                try {
                    osmium::apply_item(reinterpret_cast<const osmium::OSMObject&>(item), h0);
                } catch (const osmium::unknown_type&) {
                    threw = true;
                }
                VP_CHECK(threw && LOG.empty(), "dispatch-unknown-type", "apply_item(OSMObject& of type changeset) must throw unknown_type without calling anything");
            }
        }
    }
    L.count("sequences");
    bool has_nonentity = false, has_removed = false;
    for (int k : kinds) {
        if (!is_entity(k)) has_nonentity = true;
        if (k == K_REMOVED_NODE) has_removed = true;
    }
    if (has_nonentity) L.count("with_non_entity_items");
    if (has_removed) L.count("with_removed_items");
    if (kinds.size() >= 2) ++L.nontrivial;
}

// sequences of length 0..len: index 0 is the empty sequence (flush must still be called once)
static uint64_t n_seq_upto(uint64_t k, unsigned len) {
    uint64_t n = 1, p = 1;
    for (unsigned i = 1; i <= len; ++i) {
        p *= k;
        n += p;
    }
    return n;
}
static std::vector<int> nth_seq(uint64_t idx, uint64_t k) {
    if (idx == 0) return {};
    --idx;
    uint64_t p = k;
    unsigned len = 1;
    while (idx >= p) {
        idx -= p;
        p *= k;
        ++len;
    }
    std::vector<int> s;
    for (unsigned i = 0; i < len; ++i) {
        s.push_back(static_cast<int>(idx % k));
        idx /= k;
    }
    return s;
}
static std::vector<int> long_seq(uint64_t idx) {
    vp::Rng r{vp::mix64(idx + 77)};
    size_t n = 5 + r.below(40);
    std::vector<int> s;
    bool entity_heavy = r.below(2) == 0;
    for (size_t i = 0; i < n; ++i) s.push_back(static_cast<int>(entity_heavy ? r.below(6) : r.below(NKINDS)));
    return s;
}
static std::string show_seq(const std::vector<int>& s) {
    std::string d = "items:";
    for (int k : s) d += std::string{" "} + KN[k];
    return d;
}

// ---------------------------------------------------------------- diff iteration
struct DiffLog {
    int h;
    const void* prev;
    const void* curr;
    const void* next;
    bool first, last;
    int cb;
    bool operator==(const DiffLog& o) const { return h == o.h && prev == o.prev && curr == o.curr && next == o.next && first == o.first && last == o.last && cb == o.cb; }
};
static thread_local std::vector<DiffLog> DLOG;
struct DiffH : public osmium::diff_handler::DiffHandler {
    int h;
    explicit DiffH(int i) : h(i) {}
    void node(const osmium::DiffNode& d) { DLOG.push_back({h, &d.prev(), &d.curr(), &d.next(), d.first(), d.last(), NODE}); }
    void way(const osmium::DiffWay& d) { DLOG.push_back({h, &d.prev(), &d.curr(), &d.next(), d.first(), d.last(), WAY}); }
    void relation(const osmium::DiffRelation& d) { DLOG.push_back({h, &d.prev(), &d.curr(), &d.next(), d.first(), d.last(), RELATION}); }
};

// history pattern: up to 4 objects, each (type in n/w/r, run length 1..4); index enumerates all patterns with k objects
struct Hist {
    std::vector<std::pair<int, int>> objs;  // (type 0..2, run)
    bool same_id_across_types = false;      // use the same id for consecutive objects of different type
    bool with_changeset = false;            // a changeset at the end (skipped by OSMObject iterators)
};
static Hist nth_hist(uint64_t idx) {
    Hist h;
    h.same_id_across_types = idx & 1; idx >>= 1;
    h.with_changeset = idx & 1; idx >>= 1;
    uint64_t k = 1 + idx % 4; idx /= 4;
    for (uint64_t i = 0; i < k; ++i) {
        int t = static_cast<int>(idx % 3); idx /= 3;
        int run = 1 + static_cast<int>(idx % 4); idx /= 4;
        h.objs.emplace_back(t, run);
    }
    std::stable_sort(h.objs.begin(), h.objs.end(), [](const auto& a, const auto& b) { return a.first < b.first; });
    return h;
}
constexpr uint64_t N_HIST = 2 * 2 * 4 * 12 * 12 * 12 * 12;

static void run_diff(uint64_t idx, vp::Local& L) {
    Hist hist = nth_hist(idx);
    Buffer buf{4096, Buffer::auto_grow::yes};
    std::vector<size_t> offs;
    struct O { int t; int64_t id; };
    std::vector<O> meta;
    int64_t id = 100;
    for (size_t i = 0; i < hist.objs.size(); ++i) {
        if (!(hist.same_id_across_types && i > 0 && hist.objs[i - 1].first != hist.objs[i].first)) ++id;
        for (int v = 1; v <= hist.objs[i].second; ++v) {
            offs.push_back(buf.committed());
            int kind = hist.objs[i].first == 0 ? K_NODE : hist.objs[i].first == 1 ? K_WAY : K_REL;
            add_kind(buf, kind, id);
            buf.get<osmium::OSMObject>(offs.back()).set_version(static_cast<osmium::object_version_type>(v));
            meta.push_back({hist.objs[i].first, id});
        }
    }
    if (hist.with_changeset) add_kind(buf, K_CS, 5);
    const size_t n = offs.size();
    std::vector<const osmium::OSMObject*> o;
    for (size_t off : offs) o.push_back(&buf.get<osmium::OSMObject>(off));
    // expected context
    std::vector<DiffLog> want1;
    for (size_t i = 0; i < n; ++i) {
        bool same_prev = i > 0 && meta[i - 1].t == meta[i].t && meta[i - 1].id == meta[i].id;
        bool same_next = i + 1 < n && meta[i + 1].t == meta[i].t && meta[i + 1].id == meta[i].id;
        want1.push_back({0, same_prev ? o[i - 1] : o[i], o[i], same_next ? o[i + 1] : o[i], !same_prev, !same_next, meta[i].t == 0 ? NODE : meta[i].t == 1 ? WAY : RELATION});
    }
    const Buffer& cbuf = buf;
    // raw DiffIterator
    {
        auto it = osmium::make_diff_iterator(cbuf.cbegin<osmium::OSMObject>(), cbuf.cend<osmium::OSMObject>());
        auto end = osmium::make_diff_iterator(cbuf.cend<osmium::OSMObject>(), cbuf.cend<osmium::OSMObject>());
        size_t i = 0;
        for (; it != end; ++it, ++i) {
            VP_CHECK(i < n, "diff-count", "diff iterator yields more than " << n << " versions");
            const osmium::DiffObject& d = *it;
            VP_CHECK(&d.curr() == want1[i].curr, "diff-curr", "version #" << i << " out of order");
            VP_CHECK(&d.prev() == want1[i].prev, "diff-prev", "wrong previous version at #" << i << " of history " << idx);
            VP_CHECK(&d.next() == want1[i].next, "diff-next", "wrong next version at #" << i << " of history " << idx);
            VP_CHECK(d.first() == want1[i].first && d.last() == want1[i].last, "diff-flags", "first/last flags wrong at #" << i << " of history " << idx);
            VP_CHECK(it->id() == meta[i].id && it->version() == o[i]->version(), "diff-attrs", "DiffObject accessors wrong");
        }
        VP_CHECK(i == n, "diff-count", "diff iterator yields " << i << " of " << n << " versions");
    }
    // dereferencing only some of the positions (an input iterator may be advanced past positions nobody looks at), dereferencing a
    // position twice, post-increment and copies: what a position presents must not depend on what was looked at before
    if (n >= 2) {
        const uint64_t nmasks = n <= 8 ? (1ULL << n) : 64;
        for (uint64_t k = 0; k < nmasks; ++k) {
            const uint64_t mask = n <= 8 ? k : vp::mix64(idx * 131 + k);
            auto it = osmium::make_diff_iterator(cbuf.cbegin<osmium::OSMObject>(), cbuf.cend<osmium::OSMObject>());
            for (size_t i = 0; i < n; ++i) {
                if ((mask >> (i % 64)) & 1U) {
                    const int reps = ((mask >> ((i + 7) % 64)) & 1U) ? 2 : 1;
                    for (int rep = 0; rep < reps; ++rep) {
                        const osmium::DiffObject& d = *it;
                        if (&d.curr() != want1[i].curr || &d.prev() != want1[i].prev || &d.next() != want1[i].next || d.first() != want1[i].first || d.last() != want1[i].last) {
                            vp::fail("diff-skip", "history " + std::to_string(idx) + ": position #" + std::to_string(i) + " presents wrong prev/curr/next or first/last flags when only the positions of mask " +
                                                      std::to_string(mask & ((1ULL << std::min<size_t>(n, 63)) - 1)) + " (bit i = position i) are dereferenced" + (rep ? " (second look at the same position)" : ""));
                        }
                    }
                }
                if ((mask >> ((i + 13) % 64)) & 1U) {
                    auto copy = it++;
                    if (((mask >> (i % 64)) & 1U) && &copy->curr() != want1[i].curr) vp::fail("diff-skip", "history " + std::to_string(idx) + ": the copy returned by post-increment at #" + std::to_string(i) + " presents another version");
                } else {
                    ++it;
                }
            }
            auto end = osmium::make_diff_iterator(cbuf.cend<osmium::OSMObject>(), cbuf.cend<osmium::OSMObject>());
            VP_CHECK(it == end, "diff-count", "diff iterator is not at the end after " << n << " increments (history " << idx << ")");
        }
        L.count("diff_histories_with_skipping_iteration");
    }
    // apply_diff with 1..3 handlers
    {
        DLOG.clear();
        DiffH h0{0};
        osmium::apply_diff(cbuf.cbegin<osmium::OSMObject>(), cbuf.cend<osmium::OSMObject>(), h0);
        VP_CHECK(DLOG == want1, "diff-apply", "apply_diff with one handler: wrong call sequence for history " << idx);
        DLOG.clear();
        DiffH h1{1}, h2{2};
        osmium::apply_diff(buf.begin<osmium::OSMObject>(), buf.end<osmium::OSMObject>(), h0, h1, h2);
        std::vector<DiffLog> want3;
        for (const auto& w : want1)
            for (int h = 0; h < 3; ++h) {
                DiffLog x = w;
                x.h = h;
                want3.push_back(x);
            }
        VP_CHECK(DLOG == want3, "diff-apply", "apply_diff with three handlers: wrong call sequence for history " << idx);
        DLOG.clear();
    }
    if (n >= 2) ++L.nontrivial;
    L.count(hist.same_id_across_types ? "same_id_across_types" : "distinct_ids");
}

// ---------------------------------------------------------------- reader as container
static std::string opl_file(uint64_t idx, std::vector<std::pair<int, int64_t>>* objs) {
    vp::Rng r{vp::mix64(idx + 4711)};
    std::string s;
    int nn = static_cast<int>(r.below(6)), nw = static_cast<int>(r.below(5)), nr = static_cast<int>(r.below(4));
    int64_t id = 1;
    for (int i = 0; i < nn; ++i) {
        s += "n" + std::to_string(id) + " v1 dV c1 t2015-01-01T00:00:00Z i1 uu T x1 y2\n";
        if (objs) objs->emplace_back(K_NODE, id);
        id += 1 + static_cast<int64_t>(r.below(3));
    }
    for (int i = 0; i < nw; ++i) {
        s += "w" + std::to_string(id) + " v1 dV c1 t2015-01-01T00:00:00Z i1 uu Thighway=x Nn1,n2\n";
        if (objs) objs->emplace_back(K_WAY, id);
        id += 1 + static_cast<int64_t>(r.below(3));
    }
    for (int i = 0; i < nr; ++i) {
        s += "r" + std::to_string(id) + " v1 dV c1 t2015-01-01T00:00:00Z i1 uu T Mw1@outer\n";
        if (objs) objs->emplace_back(K_REL, id);
        id += 1 + static_cast<int64_t>(r.below(3));
    }
    return s;
}

static void run_reader(uint64_t idx, vp::Local& L) {
    std::vector<std::pair<int, int64_t>> objs;
    std::string data = opl_file(idx, &objs);
    struct IdLog : public osmium::handler::Handler {
        int h;
        std::vector<std::tuple<int, int, int64_t>>* out;
        IdLog(int i, std::vector<std::tuple<int, int, int64_t>>* o) : h(i), out(o) {}
        void osm_object(const osmium::OSMObject& o) { out->emplace_back(h, OSM_OBJECT, o.id()); }
        void node(const osmium::Node& o) { out->emplace_back(h, NODE, o.id()); }
        void way(const osmium::Way& o) { out->emplace_back(h, WAY, o.id()); }
        void relation(const osmium::Relation& o) { out->emplace_back(h, RELATION, o.id()); }
        void flush() { out->emplace_back(h, FLUSH, 0); }
    };
    std::vector<std::tuple<int, int, int64_t>> got, want;
    for (const auto& o : objs)
        for (int h = 0; h < 2; ++h) {
            want.emplace_back(h, OSM_OBJECT, o.second);
            want.emplace_back(h, type_cb(o.first), o.second);
        }
    want.emplace_back(0, FLUSH, 0);
    want.emplace_back(1, FLUSH, 0);
    {
        osmium::io::File file{data.data(), data.size(), "opl"};
        osmium::io::Reader reader{file};
        IdLog h0{0, &got}, h1{1, &got};
        osmium::apply(reader, h0, h1);
        reader.close();
    }
    VP_CHECK(got == want, "dispatch-reader", "apply(reader, h0, h1) call sequence differs from the file's objects (" << objs.size() << " objects, file #" << idx << ")");
    // InputIterator range restricted to ways
    {
        osmium::io::File file{data.data(), data.size(), "opl"};
        osmium::io::Reader reader{file};
        auto range = osmium::io::make_input_iterator_range<const osmium::Way>(reader);
        std::vector<int64_t> ids, wantids;
        for (const osmium::Way& w : range) ids.push_back(w.id());
        for (const auto& o : objs)
            if (o.first == K_WAY) wantids.push_back(o.second);
        reader.close();
        VP_CHECK(ids == wantids, "dispatch-reader", "InputIterator<Reader, Way> yields wrong ways for file #" << idx);
    }
    if (objs.size() >= 2) ++L.nontrivial;
}


// ---------------------------------------------------------------- sources that deliver several buffers (InputIterator<TSource, TItem>)
// alphabet: node, way, relation, changeset, tag_list, CUT (a new buffer starts; two cuts in a row give a valid buffer without items)
struct MockSource {
    std::vector<Buffer> buffers;
    size_t next = 0;
    size_t reads = 0;
    Buffer read() {
        ++reads;
        if (next < buffers.size()) return std::move(buffers[next++]);
        return Buffer{};
    }
};
static const int SRC_SYM[] = {K_NODE, K_WAY, K_REL, K_CS, K_TAGS, -1};
static std::string show_src_seq(const std::vector<int>& q) {
    std::string d = "source buffers: [";
    for (int x : q) d += SRC_SYM[x] < 0 ? std::string{"] ["} : std::string{KN[SRC_SYM[x]]} + " ";
    return d + "]";
}
struct Seen {
    int type;
    int64_t id;
    bool operator==(const Seen& o) const { return type == o.type && id == o.id; }
};
static std::string show_seen(const std::vector<Seen>& v) {
    std::string d;
    for (const auto& x : v) d += std::string{osmium::item_type_to_name(static_cast<osmium::item_type>(x.type))} + "#" + std::to_string(x.id) + " ";
    return d.empty() ? "(nothing)" : d;
}
static int64_t id_of(const Item& it) {
    switch (it.type()) {
        case osmium::item_type::node:
        case osmium::item_type::way:
        case osmium::item_type::relation: return static_cast<const osmium::OSMObject&>(it).id();
        case osmium::item_type::changeset: return static_cast<const osmium::Changeset&>(it).id();
        default: return 0;
    }
}
static MockSource make_source(const std::vector<int>& q, std::vector<Seen>* all) {
    MockSource src;
    src.buffers.emplace_back(1024, Buffer::auto_grow::yes);
    int64_t id = 10;
    for (int x : q) {
        if (SRC_SYM[x] < 0) {
            src.buffers.emplace_back(1024, Buffer::auto_grow::yes);
            continue;
        }
        add_kind(src.buffers.back(), SRC_SYM[x], id);
        if (all) {
            const int k = SRC_SYM[x];
            const osmium::item_type t = k == K_NODE ? osmium::item_type::node : k == K_WAY ? osmium::item_type::way : k == K_REL ? osmium::item_type::relation : k == K_CS ? osmium::item_type::changeset : osmium::item_type::tag_list;
            all->push_back(Seen{static_cast<int>(t), k == K_TAGS ? 0 : id});
        }
        ++id;
    }
    return src;
}
template <typename T>
static void source_typed(const std::vector<int>& q, const std::vector<Seen>& all, bool (*pred)(osmium::item_type), const char* tname) {
    MockSource src = make_source(q, nullptr);
    std::vector<Seen> got, want;
    for (const auto& x : all)
        if (pred(static_cast<osmium::item_type>(x.type))) want.push_back(x);
    osmium::io::InputIterator<MockSource, T> it{src};
    const osmium::io::InputIterator<MockSource, T> end{};
    for (; it != end; ++it) {
        const Item& item = reinterpret_cast<const Item&>(*it);
        got.push_back(Seen{static_cast<int>(item.type()), id_of(item)});
        if (got.size() > all.size() + 2) break;
    }
    if (!(got == want)) vp::fail("dispatch-source", std::string{"InputIterator<source, "} + tname + "> over " + show_src_seq(q) + " yields " + show_seen(got) + "| expected " + show_seen(want));
    VP_CHECK(src.reads == src.buffers.size() + 1, "dispatch-source", "InputIterator<source, " << tname << "> over " << show_src_seq(q) << " called read() " << src.reads << " times for " << src.buffers.size() << " buffers (expected every buffer and the end marker exactly once)");
}
static void run_source(const std::vector<int>& q, vp::Local& L) {
    std::vector<Seen> all;
    (void)make_source(q, &all);
    using it = osmium::item_type;
    source_typed<Item>(q, all, [](it) { return true; }, "Item");
    source_typed<osmium::OSMEntity>(q, all, [](it t) { return t != it::tag_list; }, "OSMEntity");
    source_typed<osmium::OSMObject>(q, all, [](it t) { return t == it::node || t == it::way || t == it::relation; }, "OSMObject");
    source_typed<osmium::Node>(q, all, [](it t) { return t == it::node; }, "Node");
    source_typed<osmium::Way>(q, all, [](it t) { return t == it::way; }, "Way");
    source_typed<osmium::Relation>(q, all, [](it t) { return t == it::relation; }, "Relation");
    source_typed<osmium::Changeset>(q, all, [](it t) { return t == it::changeset; }, "Changeset");
    source_typed<const osmium::Way>(q, all, [](it t) { return t == it::way; }, "const Way");
    // handlers applied to an iterator range over the source: every item, in order, flush once
    {
        struct IdH : public osmium::handler::Handler {
            std::vector<Seen>* out;
            int* flushes;
            void node(const osmium::Node& o) { out->push_back(Seen{static_cast<int>(it::node), o.id()}); }
            void way(const osmium::Way& o) { out->push_back(Seen{static_cast<int>(it::way), o.id()}); }
            void relation(const osmium::Relation& o) { out->push_back(Seen{static_cast<int>(it::relation), o.id()}); }
            void changeset(const osmium::Changeset& o) { out->push_back(Seen{static_cast<int>(it::changeset), o.id()}); }
            void tag_list(const osmium::TagList&) { out->push_back(Seen{static_cast<int>(it::tag_list), 0}); }
            void flush() { ++*flushes; }
        };
        MockSource src = make_source(q, nullptr);
        std::vector<Seen> got;
        int flushes = 0;
        IdH h;
        h.out = &got;
        h.flushes = &flushes;
        osmium::apply(osmium::io::InputIterator<MockSource, Item>{src}, osmium::io::InputIterator<MockSource, Item>{}, h);
        if (!(got == all) || flushes != 1) vp::fail("dispatch-source", "apply(InputIterator range) over " + show_src_seq(q) + " visits " + show_seen(got) + "(" + std::to_string(flushes) + " x flush) | expected " + show_seen(all) + "(1 x flush)");
    }
    // apply_diff on a source (needs objects sorted by type): every object once; all ids differ, so each one is first and last
    {
        std::vector<Seen> objs;
        for (const auto& x : all)
            if (x.type == static_cast<int>(it::node) || x.type == static_cast<int>(it::way) || x.type == static_cast<int>(it::relation)) objs.push_back(x);
        bool sorted = true;
        for (size_t i = 1; i < objs.size(); ++i)
            if (objs[i - 1].type > objs[i].type) sorted = false;
        if (sorted) {
            struct DH : public osmium::diff_handler::DiffHandler {
                std::vector<Seen>* out;
                bool* flags_ok;
                void node(const osmium::DiffNode& d) { out->push_back(Seen{static_cast<int>(it::node), d.curr().id()}); if (!d.first() || !d.last() || &d.prev() != &d.curr() || &d.next() != &d.curr()) *flags_ok = false; }
                void way(const osmium::DiffWay& d) { out->push_back(Seen{static_cast<int>(it::way), d.curr().id()}); if (!d.first() || !d.last() || &d.prev() != &d.curr() || &d.next() != &d.curr()) *flags_ok = false; }
                void relation(const osmium::DiffRelation& d) { out->push_back(Seen{static_cast<int>(it::relation), d.curr().id()}); if (!d.first() || !d.last() || &d.prev() != &d.curr() || &d.next() != &d.curr()) *flags_ok = false; }
            };
            MockSource src = make_source(q, nullptr);
            std::vector<Seen> got;
            bool flags_ok = true;
            DH h;
            h.out = &got;
            h.flags_ok = &flags_ok;
            osmium::apply_diff(src, h);
            if (!(got == objs) || !flags_ok) vp::fail("diff-source", "apply_diff(source) over " + show_src_seq(q) + " presents " + show_seen(got) + (flags_ok ? "" : "(with wrong first/last/prev/next) ") + "| expected " + show_seen(objs));
            L.count("source_with_apply_diff");
        }
    }
    size_t nbuf = 1, empties = 0, cur = 0;
    for (int x : q) {
        if (SRC_SYM[x] < 0) {
            ++nbuf;
            if (cur == 0) ++empties;
            cur = 0;
        } else ++cur;
    }
    if (nbuf >= 2) {
        ++L.nontrivial;
        L.count("source_with_several_buffers");
    }
    if (empties) L.count("source_with_buffer_without_items");
}

int main(int argc, char** argv) {
    vp::parse_args(argc, argv);
    std::vector<vp::Sub> subs;
    {
        vp::Sub s;
        s.name = "dispatch";
        s.domain = n_seq_upto(NKINDS, 4);
        s.fn = [](uint64_t i, vp::Local& L) { run_dispatch(nth_seq(i, NKINDS), L); };
        s.show = [](uint64_t i) { return show_seq(nth_seq(i, NKINDS)); };
        s.block = 64;
        subs.push_back(s);
    }
    {
        vp::Sub s;
        s.name = "dispatch_long";
        s.domain = 200000;
        s.quick_stride = 20;
        s.fn = [](uint64_t i, vp::Local& L) { run_dispatch(long_seq(i), L); };
        s.show = [](uint64_t i) { return show_seq(long_seq(i)); };
        s.block = 32;
        subs.push_back(s);
    }
    {
        vp::Sub s;
        s.name = "diff";
        s.domain = N_HIST;
        s.quick_stride = 3;
        s.fn = run_diff;
        s.show = [](uint64_t i) {
            Hist h = nth_hist(i);
            std::string d = "history:";
            for (auto& o : h.objs) d += std::string{" "} + "nwr"[o.first] + "x" + std::to_string(o.second);
            if (h.same_id_across_types) d += " same-id-across-types";
            if (h.with_changeset) d += " +changeset";
            return d;
        };
        s.block = 256;
        subs.push_back(s);
    }
    {
        vp::Sub s;
        s.name = "source";
        s.domain = n_seq_upto(6, 6);
        s.quick_stride = 3;
        s.fn = [](uint64_t i, vp::Local& L) { run_source(nth_seq(i, 6), L); };
        s.show = [](uint64_t i) { return show_src_seq(nth_seq(i, 6)); };
        s.block = 64;
        subs.push_back(s);
    }
    {
        vp::Sub s;
        s.name = "reader";
        s.domain = 20000;
        s.quick_stride = 10;
        s.fn = run_reader;
        s.show = [](uint64_t i) { return "opl file #" + std::to_string(i) + ": " + opl_file(i, nullptr).substr(0, 120); };
        s.block = 8;
        subs.push_back(s);
    }
    return vp::run_enum(subs,
                        "enumeration: all item sequences of length 0..4 over 13 item kinds (node, way, relation, area, changeset, removed node, and the seven non-entity "
                        "item types) plus seeded sequences of length 5..44, each run through 9 apply()/apply_item() forms (const/non-const buffer, Item/OSMObject/Way "
                        "iterator ranges, 1-6 handlers: static const and non-const handlers, DynamicHandler, ChainHandler, lambdas with const/non-const parameters); all "
                        "version histories of <=4 objects x runs 1..4 x types (with and without equal ids across types) through DiffIterator (every position, and every subset of positions dereferenced, positions looked at twice, post-increment copies) and apply_diff with 1 and 3 "
                        "handlers; all sequences of length 0..6 over {node, way, relation, changeset, tag_list, buffer boundary} delivered by a multi-buffer source and read through InputIterator<source, T> for eight item types, apply() on the iterator range and apply_diff(source); seeded OPL files through apply(Reader) and InputIterator. Oracle: ordered call-log model. non-trivial = sequence/history with >= 2 items");
}
