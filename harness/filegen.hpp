// filegen.hpp -- small valid files in all four formats (through the harness encoders) and a mutation program on their bytes.
#pragma once

#include "enc.hpp"

namespace filegen {

using model::Obj;
using vp::Src;

static const char* const FMT[] = {"pbf", "o5m", "osm", "opl"};

struct Made {
    int fmt = 0;
    std::string format;  // format string for osmium::io::File
    std::string bytes;
    std::vector<Obj> data;
    enc::Header hdr;
    std::string what;
    std::string what_extra;  // (hostile modes: what was made inconsistent)
};

// 0..max_objects objects in the domain the formats share (see C02), encoded under generated encoding choices
// one inconsistency for the PBF encoder's hostile mode (see enc::PbfEncoder::Hostile)
inline enc::PbfEncoder::Hostile gen_hostile(Src& s) {
    enc::PbfEncoder::Hostile h;
    static const uint64_t sids[] = {1000, 100000, 0x7fffffffULL, 0x80000000ULL, 0xffffffffULL, 0x100000000ULL, ~0ULL, ~0ULL - 1, ~0ULL - 2, static_cast<uint64_t>(INT32_MIN), 1ULL << 63, 0};
    switch (s.weighted({5, 4, 2, 1, 1})) {
        case 0:
            h.sid_at = static_cast<int>(s.draw(16));
            h.sid_value = sids[s.draw(sizeof(sids) / sizeof(sids[0]))];
            break;
        case 1:
            h.packed_at = static_cast<int>(s.draw(16));
            h.packed_how = static_cast<int>(s.draw(4));
            break;
        case 2: {
            h.rawsize_at = static_cast<int>(s.draw(3));
            static const int64_t deltas[] = {-1, 1, -100, 100, 65536, 1 << 20};
            static const int64_t abss[] = {0, 1, 0x7fffffff, 32 * 1024 * 1024, 32 * 1024 * 1024 + 1, 0xffffffffLL, INT64_MAX};
            if (s.boolean()) h.rawsize_delta = deltas[s.draw(6)];
            else h.rawsize_abs = abss[s.draw(7)];
            break;
        }
        case 3: {
            static const int64_t gr[] = {0, -1, -100, 1, INT32_MAX, INT64_MAX, INT64_MIN, 1LL << 40};
            h.set_granularity = true;
            h.granularity = gr[s.draw(8)];
            break;
        }
        default: {
            static const int64_t gr[] = {0, -1, -1000, 1, INT32_MAX, INT64_MAX, INT64_MIN, 1LL << 40};
            h.set_date_granularity = true;
            h.date_granularity = gr[s.draw(8)];
            break;
        }
    }
    return h;
}

// one or two inconsistencies for the o5m encoder's hostile mode (see enc::O5mEncoder::Hostile)
inline enc::O5mEncoder::Hostile gen_hostile_o5m(Src& s, size_t n_objects) {
    enc::O5mEncoder::Hostile h;
    h.target = n_objects ? s.draw(n_objects) : 0;
    static const int64_t deltas[] = {-1, -2, -3, 1, 2, 3, 100, 70000, 1LL << 32, 1LL << 62};
    static const uint64_t refs[] = {1, 2, 3, 100, 14999, 15000, 15001, 15002, 65536, 1ULL << 32, ~0ULL};
    // one thing, or two things together (a wrong reference section length and a body that ends early need each other to reach
    // the code behind the first check)
    const unsigned what = static_cast<unsigned>(s.weighted({4, 3, 2, 2, 4, 2, 2}));
    h.bad_box = what == 6;
    h.box_pick = s.draw(1ULL << 16);
    h.alter_reflen = what == 0 || what == 4 || what == 5;
    h.cut_body = what == 1 || what == 4;
    h.alter_length = what == 2 || what == 5;
    h.bad_reference = what == 3;
    h.reflen_mode = static_cast<unsigned>(s.draw(6));
    h.extra = 1 + s.draw(s.boolean() ? 8 : 100000);
    h.cut_pick = s.draw(64);
    h.length_delta = deltas[s.draw(sizeof(deltas) / sizeof(deltas[0]))];
    h.reference = refs[s.draw(sizeof(refs) / sizeof(refs[0]))];
    return h;
}

inline Made small_file(Src& s, int fmt, size_t max_objects = 8, bool changesets = true, size_t min_objects = 0, enc::PbfEncoder::Hostile* hostile = nullptr, bool hostile_o5m = false) {
    Made m;
    m.fmt = fmt;
    enc::PbfPlan plan;
    const bool history = s.chance(1, 4);
    gen::ObjOpts go;
    go.strmode = gen::StrMode::xml10;
    go.allow_invisible = false;
    go.valid_locations_only = true;
    go.max_list = 4;
    go.max_str = s.chance(1, 8) ? 300 : 24;
    size_t n = std::max(min_objects, s.size(max_objects));
    for (size_t i = 0; i < n; ++i) {
        Obj x = gen::object(s, static_cast<int>(s.draw(3)), go);
        if (x.version == 0 || s.chance(1, 4)) {
            if (x.version == 0) x.version = s.chance(1, 2) ? 0 : 1;
            x.ts = x.cs = x.uid = 0;
            x.user.clear();
        } else {
            if (x.ts == 0) x.ts = 1000;
            if (x.uid == 0) x.uid = 7;
        }
        if (x.type == model::NODE && x.loc.undefined()) x.loc = model::Loc{1, 2};
        if (history && s.chance(1, 4)) {
            x.visible = false;
            x.loc = model::Loc{};
            x.refs.clear();
            x.members.clear();
            x.tags.clear();
        }
        m.data.push_back(std::move(x));
    }
    std::stable_sort(m.data.begin(), m.data.end(), [](const Obj& a, const Obj& b) { return a.type < b.type; });
    m.hdr.generator = "gen" + gen::str(s, gen::StrMode::xml10, 12);
    if (s.boolean()) {
        m.hdr.has_box = true;
        m.hdr.bl = model::Loc{-100, -200};
        m.hdr.tr = model::Loc{300, 400};
    }
    enc::Choices ch;
    switch (fmt) {
        case 0: {
            enc::PbfEncoder e{s, ch, plan, history};
            e.hostile = hostile;
            m.bytes = e.encode(m.hdr, m.data);
            m.format = "pbf";
            break;
        }
        case 1: {
            enc::O5mEncoder e{s, ch};
            enc::O5mEncoder::Hostile h;
            if (hostile_o5m) {
                h = gen_hostile_o5m(s, m.data.size());
                e.hostile = &h;
            }
            m.bytes = e.encode(m.hdr, m.data, history);
            m.format = history ? "o5c" : "o5m";
            if (hostile_o5m) m.what_extra = h.fired ? " inconsistent in object #" + std::to_string(h.target) + ":" + h.what : " (no inconsistency placed)";
            break;
        }
        case 2: {
            enc::XmlEncoder e{s, ch};
            if (changesets && s.chance(1, 3)) {
                gen::ObjOpts co = go;
                co.allow_changesets = true;
                co.allow_discussions = true;
                m.data.push_back(gen::object(s, model::CHANGESET, co));
            }
            m.bytes = e.encode(m.hdr, m.data, false);
            m.format = "osm";
            break;
        }
        default: {
            enc::OplEncoder e{s, ch};
            if (changesets && s.chance(1, 3)) {
                gen::ObjOpts co = go;
                co.allow_changesets = true;
                Obj c = gen::object(s, model::CHANGESET, co);
                m.data.push_back(c);
            }
            m.bytes = e.encode(m.data);
            m.format = "opl";
            break;
        }
    }
    m.what = std::string{FMT[fmt]} + " file with " + std::to_string(m.data.size()) + " objects, " + std::to_string(m.bytes.size()) + " bytes" + m.what_extra;
    return m;
}

// One mutation step on the bytes; returns a short description.
inline std::string mutate(Src& s, std::string& b) {
    static const size_t big[] = {255, 256, 1023, 1024, 1025, 4096, 65534, 65535, 65536, 70000};
    if (b.empty()) {
        b += static_cast<char>(s.draw(256));
        return "append to empty";
    }
    switch (s.weighted({4, 3, 3, 2, 2, 2, 2, 2, 1, 3})) {
        case 9: {  // insert or overwrite with a token that is special in one of the formats
            static const char* const tokens[] = {"%00%", "%0%", "%%", "%ffffffff%", "%110000%", "%d800%", "%80%", "%20%", "&#0;", "&#x0;", "&#xD800;", "&#1114112;", "&#xFFFE;", "]]>", "<!DOCTYPE osm [<!ENTITY a \"b\">]>", "&a;",
                                                 "<text>", "</text>", "<comment/>", "<tag k='' v=''/>", "visible='maybe'", "lat='91'", "lon='1e99'", "timestamp='2000-02-30T00:00:00Z'", "\xff", "\xfe", "\xff\xe0\x04o5m2", "\x00\x00\x00",
                                                 "\xff\xff\xff\xff\xff\xff\xff\xff\xff\x01", "\x80\x80\x80\x80\x80\x80\x80\x80\x80\x80\x80", "n0", "w-1 N", "r1 Mx1@", "dX", "t2000-13-01T00:00:00Z", "x999", "\r\n", "\n\n", " \t "};
            const char* tok = tokens[s.draw(sizeof(tokens) / sizeof(tokens[0]))];
            size_t tl = std::strlen(tok);
            if (tl == 0) tl = 3;  // the token of three NUL bytes
            std::string t(tok, tok[0] == 0 ? 3 : tl);
            size_t p = s.draw(b.size() + 1);
            if (s.boolean() && p + t.size() <= b.size()) b.replace(p, t.size(), t);
            else b.insert(p, t);
            return "token at " + std::to_string(p);
        }
        case 0: {
            size_t n = s.draw(b.size());
            b.resize(n);
            return "truncate to " + std::to_string(n);
        }
        case 1: {
            size_t p = s.draw(b.size());
            b[p] = static_cast<char>(b[p] ^ (1u << s.draw(8)));
            return "flip a bit of byte " + std::to_string(p);
        }
        case 2: {
            size_t p = s.draw(b.size());
            static const unsigned char vals[] = {0x00, 0xff, 0x7f, 0x80, 0x01, '<', '>', '"', '%', ',', '=', ' ', '\n', '\r', 0xfe, 0xe0, 0x10, 0x0a};
            b[p] = static_cast<char>(s.boolean() ? vals[s.draw(sizeof(vals))] : s.draw(256));
            return "overwrite byte " + std::to_string(p);
        }
        case 3: {
            size_t p = s.draw(b.size() + 1), n = 1 + s.draw(8);
            std::string ins;
            for (size_t i = 0; i < n; ++i) ins += static_cast<char>(s.draw(256));
            b.insert(p, ins);
            return "insert " + std::to_string(n) + " bytes at " + std::to_string(p);
        }
        case 4: {
            size_t p = s.draw(b.size()), n = 1 + s.draw(std::min<size_t>(b.size() - p, 40));
            b.erase(p, n);
            return "delete " + std::to_string(n) + " bytes at " + std::to_string(p);
        }
        case 5: {  // blow up one byte into a long run (string length limits: 1024, 65535, ...)
            size_t p = s.draw(b.size()), n = big[s.draw(sizeof(big) / sizeof(big[0]))];
            char c = b[p];
            if (static_cast<unsigned char>(c) < 0x21 || static_cast<unsigned char>(c) > 0x7e || c == '<' || c == '&' || c == '"' || c == '\'' || c == '%' || c == ',' || c == '=') c = 'a';
            b.insert(p, std::string(n, c));
            return "insert a run of " + std::to_string(n) + " x '" + std::string(1, c) + "' at " + std::to_string(p);
        }
        case 6: {  // duplicate a range
            size_t p = s.draw(b.size()), n = 1 + s.draw(std::min<size_t>(b.size() - p, 200));
            std::string r = b.substr(p, n);
            b.insert(s.draw(b.size() + 1), r);
            return "duplicate " + std::to_string(n) + " bytes from " + std::to_string(p);
        }
        case 7: {  // overwrite a varint/length-like field with a boundary value
            size_t p = s.draw(b.size());
            static const unsigned char pats[][5] = {{0xff, 0xff, 0xff, 0xff, 0x0f}, {0x80, 0x80, 0x80, 0x80, 0x10}, {0xff, 0xff, 0x03, 0, 0}, {0x80, 0x80, 0x04, 0, 0}, {0xff, 0x7f, 0, 0, 0}, {0x80, 0x08, 0, 0, 0}, {0xff, 0xff, 0xff, 0xff, 0xff}};
            size_t k = s.draw(7), len = 1 + s.draw(5);
            for (size_t i = 0; i < len && p + i < b.size(); ++i) b[p + i] = static_cast<char>(pats[k][i]);
            return "overwrite " + std::to_string(len) + " bytes at " + std::to_string(p) + " with a boundary varint";
        }
        default: {  // remove an XML element body or an OPL field: cut between two structural characters
            size_t p = s.draw(b.size());
            size_t q = b.find_first_of(">\n ,", p);
            size_t r = q == std::string::npos ? std::string::npos : b.find_first_of("<\n ,", q + 1);
            if (q != std::string::npos && r != std::string::npos && r > q + 1) {
                b.erase(q + 1, r - q - 1);
                return "remove the text between offsets " + std::to_string(q) + " and " + std::to_string(r);
            }
            b.resize(p);
            return "truncate to " + std::to_string(p);
        }
    }
}

}  // namespace filegen
