// enc.hpp -- independent encoders for the four input formats (PBF, o5m/o5c, OSM XML, OPL), written from the published format
// descriptions with their own varint/zigzag/escaping code (nothing from libosmium or protozero is used here). Every legal encoding
// choice is drawn from the vp::Src so that cases shrink and replay; the names of the non-default choices taken are recorded.
#pragma once

#include "gen.hpp"

#include <zlib.h>
#ifdef OSMIUM_WITH_LZ4
#include <lz4.h>
#endif

#include <deque>
#include <map>
#include <set>

namespace enc {

using model::Obj;
using vp::Src;

struct Header {
    std::string generator;
    bool has_box = false;
    model::Loc bl, tr;
};

struct Choices {
    std::map<std::string, uint64_t> used;
    void note(const std::string& c) { ++used[c]; }
    size_t distinct() const { return used.size(); }
    std::string str() const {
        std::string s;
        for (const auto& kv : used) s += (s.empty() ? "" : ",") + kv.first;
        return s;
    }
};

// ------------------------------------------------------------------------------------------------ protobuf wire format
namespace pb {

inline void varint(std::string& o, uint64_t v) {
    while (v >= 0x80) {
        o += static_cast<char>((v & 0x7f) | 0x80);
        v >>= 7;
    }
    o += static_cast<char>(v);
}
inline uint64_t zz(int64_t v) { return (static_cast<uint64_t>(v) << 1) ^ static_cast<uint64_t>(v >> 63); }
inline void key(std::string& o, uint32_t field, uint32_t wire) { varint(o, (static_cast<uint64_t>(field) << 3) | wire); }

inline std::string f_varint(uint32_t field, uint64_t v) {
    std::string o;
    key(o, field, 0);
    varint(o, v);
    return o;
}
inline std::string f_int64(uint32_t field, int64_t v) { return f_varint(field, static_cast<uint64_t>(v)); }  // int32/int64: two's complement, 10 bytes if negative
inline std::string f_sint64(uint32_t field, int64_t v) { return f_varint(field, zz(v)); }
inline std::string f_bytes(uint32_t field, const std::string& b) {
    std::string o;
    key(o, field, 2);
    varint(o, b.size());
    o += b;
    return o;
}
inline std::string packed_varint(const std::vector<uint64_t>& v) {
    std::string o;
    for (uint64_t x : v) varint(o, x);
    return o;
}

// an unknown field (numbers that no message of the OSM PBF schema uses) of any wire type
inline std::string unknown_field(Src& s) {
    static const uint32_t nums[] = {15, 99, 1000};
    uint32_t f = nums[s.draw(3)];
    std::string o;
    switch (s.draw(4)) {
        case 0:
            key(o, f, 0);
            varint(o, s.draw64() >> s.draw(64));
            break;
        case 1:
            key(o, f, 1);
            for (int i = 0; i < 8; ++i) o += static_cast<char>(s.draw(256));
            break;
        case 2: {
            key(o, f, 2);
            size_t n = s.size(40);
            varint(o, n);
            for (size_t i = 0; i < n; ++i) o += static_cast<char>(s.draw(256));
            break;
        }
        default:
            key(o, f, 5);
            for (int i = 0; i < 4; ++i) o += static_cast<char>(s.draw(256));
            break;
    }
    return o;
}

// A message is a list of (field number, encoded field). Fields of different numbers may come in any order; the relative order of
// the entries of one (repeated) field is kept.
struct Msg {
    std::vector<std::pair<uint32_t, std::string>> f;
    void add(uint32_t field, std::string bytes) { f.emplace_back(field, std::move(bytes)); }
    std::string finish(Src& s, Choices& ch, bool allow_permute, bool allow_unknown) {
        std::vector<std::pair<uint32_t, std::string>> v = f;
        if (allow_permute && v.size() > 1 && s.chance(1, 3)) {
            std::vector<std::pair<uint32_t, std::string>> p = v;
            for (size_t i = p.size(); i > 1; --i) std::swap(p[i - 1], p[s.draw(i)]);
            // restore the relative order within each field number
            std::map<uint32_t, std::vector<std::string>> by;
            for (const auto& e : v) by[e.first].push_back(e.second);
            std::map<uint32_t, size_t> next;
            for (auto& e : p) e.second = by[e.first][next[e.first]++];
            if (p != v) ch.note("pbf-field-order");
            v = p;
        }
        std::string o;
        for (size_t i = 0; i <= v.size(); ++i) {
            if (allow_unknown && s.chance(1, 12)) {
                o += unknown_field(s);
                ch.note("pbf-unknown-field");
            }
            if (i < v.size()) o += v[i].second;
        }
        return o;
    }
};

}  // namespace pb

inline std::string zlib_compress(const std::string& in, int level) {
    uLongf n = compressBound(static_cast<uLong>(in.size()));
    std::string out(n, '\0');
    if (compress2(reinterpret_cast<Bytef*>(&out[0]), &n, reinterpret_cast<const Bytef*>(in.data()), static_cast<uLong>(in.size()), level) != Z_OK) std::abort();
    out.resize(n);
    return out;
}

// ------------------------------------------------------------------------------------------------ PBF
struct PbfPlan {
    int coord_mult = 1;  // all coordinates of the data are congruent to coord_rem modulo coord_mult (so that coarse granularities are exact)
    int coord_rem = 0;
    int ts_mult = 1;     // all timestamps are multiples of this (so that date_granularity 60000 is exact)
};

class PbfEncoder {
    Src& s;
    Choices& ch;
    const PbfPlan& plan;
    bool m_history;
    bool m_used_dense = false;

    struct StringTable {
        std::vector<std::string> entries{""};  // index 0 is reserved (delimiter in dense nodes)
        std::map<std::string, std::vector<uint32_t>> index;
        uint32_t get(Src& s, const std::string& str) {
            auto& v = index[str];
            if (v.empty() || s.chance(1, 10)) {  // duplicates in the table are legal
                entries.push_back(str);
                v.push_back(static_cast<uint32_t>(entries.size() - 1));
                return v.back();
            }
            return v[s.draw(v.size())];
        }
    };

    struct BlockParams {
        int64_t granularity = 100, lat_off = 0, lon_off = 0, date_gran = 1000;
    };

  public:
    // Hostile mode (C03): a file that is well-formed protobuf but inconsistent in one chosen place. Inactive unless set.
    struct Hostile {
        int sid_at = -1;            // the n-th string table lookup yields sid_value instead of the real index
        uint64_t sid_value = 0;
        int packed_at = -1;         // the n-th packed array is changed: 0 last element dropped, 1 one appended, 2 emptied, 3 doubled
        int packed_how = 0;
        int rawsize_at = -1;        // the n-th blob declares rawsize_delta more (or less) than it holds, or rawsize_abs if >= 0
        int64_t rawsize_delta = 0;
        int64_t rawsize_abs = -1;
        bool set_granularity = false, set_date_granularity = false;
        int64_t granularity = 0, date_granularity = 0;
        int sid_calls = 0, packed_calls = 0, blob_calls = 0;
        bool fired = false;
        std::string what;
    };
    Hostile* hostile = nullptr;

  private:
    uint64_t sid(StringTable& st, const std::string& str) {
        uint64_t v = st.get(s, str);
        if (hostile && hostile->sid_calls++ == hostile->sid_at) {
            hostile->fired = true;
            hostile->what += " [string index " + std::to_string(static_cast<int64_t>(hostile->sid_value)) + " instead of " + std::to_string(v) + "]";
            return hostile->sid_value;
        }
        return v;
    }
    std::string pk(std::vector<uint64_t> v) {
        if (hostile && hostile->packed_calls++ == hostile->packed_at) {
            hostile->fired = true;
            hostile->what += " [packed array of " + std::to_string(v.size()) + " elements: " + (hostile->packed_how == 0 ? "last dropped" : hostile->packed_how == 1 ? "one appended" : hostile->packed_how == 2 ? "emptied" : "doubled") + "]";
            switch (hostile->packed_how) {
                case 0: if (!v.empty()) v.pop_back(); break;
                case 1: v.push_back(v.empty() ? 1 : v.back()); break;
                case 2: v.clear(); break;
                default: { auto c = v; v.insert(v.end(), c.begin(), c.end()); break; }
            }
        }
        return pb::packed_varint(v);
    }

    int64_t enc_coord(int32_t v, int64_t off, int64_t gran) const { return (static_cast<int64_t>(v) * 100 - off) / gran; }

    std::string info_msg(const Obj& o, StringTable& st, const BlockParams& bp, uint32_t* user_sid_out = nullptr) {
        (void)user_sid_out;
        pb::Msg m;
        bool any = false;
        if (o.version != 0 || s.chance(1, 4)) {
            m.add(1, pb::f_int64(1, o.version == 0 && s.boolean() ? -1 : static_cast<int64_t>(o.version)));
            any = true;
        }
        if (o.ts != 0 || s.chance(1, 4)) {
            m.add(2, pb::f_int64(2, static_cast<int64_t>(o.ts) * 1000 / bp.date_gran));
            any = true;
        }
        if (o.cs != 0 || s.chance(1, 4)) {
            m.add(3, pb::f_int64(3, o.cs == 0 && s.chance(1, 3) ? -1 : static_cast<int64_t>(o.cs)));
            any = true;
        }
        if (o.uid != 0 || s.chance(1, 4)) {
            m.add(4, pb::f_int64(4, static_cast<int64_t>(o.uid)));
            any = true;
        }
        if (!o.user.empty() || s.chance(1, 4)) {
            m.add(5, pb::f_varint(5, sid(st, o.user)));
            any = true;
        }
        if (!o.visible || (m_history && s.chance(1, 2))) {
            m.add(6, pb::f_varint(6, o.visible ? 1 : 0));
            any = true;
        }
        if (!any) {
            ch.note("pbf-info-absent");
            return "";
        }
        if (m.f.size() < 6) ch.note("pbf-info-partial");
        return m.finish(s, ch, true, true);
    }

    void add_tags(pb::Msg& m, const Obj& o, StringTable& st) {
        if (o.tags.empty() && !s.chance(1, 8)) return;
        std::vector<uint64_t> k, v;
        for (const auto& t : o.tags) {
            k.push_back(sid(st, t.k));
            v.push_back(sid(st, t.v));
        }
        m.add(2, pb::f_bytes(2, pk(k)));
        m.add(3, pb::f_bytes(3, pk(v)));
    }

    std::string node_msg(const Obj& o, StringTable& st, const BlockParams& bp) {
        pb::Msg m;
        m.add(1, pb::f_sint64(1, o.id));
        add_tags(m, o, st);
        std::string info = info_msg(o, st, bp);
        if (!info.empty()) m.add(4, pb::f_bytes(4, info));
        if (o.visible) {
            m.add(8, pb::f_sint64(8, enc_coord(o.loc.y, bp.lat_off, bp.granularity)));
            m.add(9, pb::f_sint64(9, enc_coord(o.loc.x, bp.lon_off, bp.granularity)));
        } else if (s.boolean()) {
            // lat/lon are "required" in the schema: writers put 0 (or anything) there for deleted nodes
            m.add(8, pb::f_sint64(8, 0));
            m.add(9, pb::f_sint64(9, 0));
        }
        return m.finish(s, ch, true, true);
    }

    std::string way_msg(const Obj& o, StringTable& st, const BlockParams& bp) {
        pb::Msg m;
        m.add(1, pb::f_int64(1, o.id));
        add_tags(m, o, st);
        std::string info = info_msg(o, st, bp);
        if (!info.empty()) m.add(4, pb::f_bytes(4, info));
        if (!o.refs.empty() || s.chance(1, 8)) {
            std::vector<uint64_t> r, la, lo;
            int64_t prev = 0, plat = 0, plon = 0;
            bool with_loc = !o.refs.empty();
            for (const auto& nr : o.refs) with_loc = with_loc && !nr.loc.undefined();
            for (const auto& nr : o.refs) {
                r.push_back(pb::zz(static_cast<int64_t>(static_cast<uint64_t>(nr.ref) - static_cast<uint64_t>(prev))));
                prev = nr.ref;
                if (with_loc) {
                    int64_t y = enc_coord(nr.loc.y, bp.lat_off, bp.granularity), x = enc_coord(nr.loc.x, bp.lon_off, bp.granularity);
                    la.push_back(pb::zz(y - plat));
                    lo.push_back(pb::zz(x - plon));
                    plat = y;
                    plon = x;
                }
            }
            m.add(8, pb::f_bytes(8, pk(r)));
            if (with_loc) {
                m.add(9, pb::f_bytes(9, pk(la)));
                m.add(10, pb::f_bytes(10, pk(lo)));
                ch.note("pbf-locations-on-ways");
            }
        }
        return m.finish(s, ch, true, true);
    }

    std::string relation_msg(const Obj& o, StringTable& st, const BlockParams& bp) {
        pb::Msg m;
        m.add(1, pb::f_int64(1, o.id));
        add_tags(m, o, st);
        std::string info = info_msg(o, st, bp);
        if (!info.empty()) m.add(4, pb::f_bytes(4, info));
        if (!o.members.empty() || s.chance(1, 8)) {
            std::vector<uint64_t> roles, ids, types;
            int64_t prev = 0;
            for (const auto& mm : o.members) {
                roles.push_back(sid(st, mm.role));
                ids.push_back(pb::zz(static_cast<int64_t>(static_cast<uint64_t>(mm.ref) - static_cast<uint64_t>(prev))));
                prev = mm.ref;
                types.push_back(static_cast<uint64_t>(mm.type));
            }
            m.add(8, pb::f_bytes(8, pk(roles)));
            m.add(9, pb::f_bytes(9, pk(ids)));
            m.add(10, pb::f_bytes(10, pk(types)));
        }
        return m.finish(s, ch, true, true);
    }

    std::string dense_msg(const std::vector<const Obj*>& nodes, StringTable& st, const BlockParams& bp) {
        std::vector<uint64_t> ids, lats, lons, kv, vers, tss, css, uids, sids, vis;
        int64_t pid = 0, plat = 0, plon = 0, pts = 0, pcs = 0, puid = 0, psid = 0;
        bool any_tags = false, any_ver = false, any_ts = false, any_cs = false, any_uid = false, any_user = false, any_invisible = false;
        for (const Obj* o : nodes) {
            any_tags |= !o->tags.empty();
            any_ver |= o->version != 0;
            any_ts |= o->ts != 0;
            any_cs |= o->cs != 0;
            any_uid |= o->uid != 0;
            any_user |= !o->user.empty();
            any_invisible |= !o->visible;
        }
        for (const Obj* o : nodes) {
            ids.push_back(pb::zz(static_cast<int64_t>(static_cast<uint64_t>(o->id) - static_cast<uint64_t>(pid))));
            pid = o->id;
            // deleted nodes still have an entry in the lat/lon arrays (any value; writers repeat the previous one, i.e. delta 0)
            int64_t y = o->visible ? enc_coord(o->loc.y, bp.lat_off, bp.granularity) : plat + (s.boolean() ? 0 : static_cast<int64_t>(s.draw(1000)));
            int64_t x = o->visible ? enc_coord(o->loc.x, bp.lon_off, bp.granularity) : plon;
            lats.push_back(pb::zz(y - plat));
            lons.push_back(pb::zz(x - plon));
            plat = y;
            plon = x;
            for (const auto& t : o->tags) {
                uint64_t k = sid(st, t.k), v = sid(st, t.v);
                kv.push_back(k);
                kv.push_back(v);
            }
            kv.push_back(0);
            vers.push_back(static_cast<uint64_t>(static_cast<int64_t>(o->version)));
            int64_t ts = static_cast<int64_t>(o->ts) * 1000 / bp.date_gran;
            tss.push_back(pb::zz(ts - pts));
            pts = ts;
            css.push_back(pb::zz(static_cast<int64_t>(o->cs) - pcs));
            pcs = o->cs;
            uids.push_back(pb::zz(static_cast<int64_t>(o->uid) - puid));
            puid = o->uid;
            int64_t sid = static_cast<int64_t>(this->sid(st, o->user));
            sids.push_back(pb::zz(sid - psid));
            psid = sid;
            vis.push_back(o->visible ? 1 : 0);
        }
        pb::Msg m;
        m.add(1, pb::f_bytes(1, pk(ids)));
        const bool need_info = any_ver || any_ts || any_cs || any_uid || any_user || any_invisible;
        if (need_info || s.chance(1, 3)) {
            pb::Msg di;
            // an array may be left out only if all of its values are the default
            auto maybe = [&](bool needed, uint32_t field, const std::vector<uint64_t>& arr) {
                if (needed || s.chance(1, 2)) di.add(field, pb::f_bytes(field, pk(arr)));
                else ch.note("pbf-denseinfo-array-absent");
            };
            maybe(any_ver, 1, vers);
            maybe(any_ts, 2, tss);
            maybe(any_cs, 3, css);
            maybe(any_uid, 4, uids);
            maybe(any_user, 5, sids);
            if (any_invisible || (m_history && s.boolean())) di.add(6, pb::f_bytes(6, pk(vis)));
            m.add(5, pb::f_bytes(5, di.finish(s, ch, true, true)));
        } else {
            ch.note("pbf-denseinfo-absent");
        }
        m.add(8, pb::f_bytes(8, pk(lats)));
        m.add(9, pb::f_bytes(9, pk(lons)));
        if (any_tags || s.chance(1, 2)) m.add(10, pb::f_bytes(10, pk(kv)));
        else ch.note("pbf-dense-keys_vals-absent");
        m_used_dense = true;
        return m.finish(s, ch, true, true);
    }

    std::string primitive_block(const std::vector<const Obj*>& objs) {
        BlockParams bp;
        // granularity: nanodegrees per unit; must divide (coordinate*100 - offset) for every coordinate in the block
        {
            std::vector<int64_t> g{100, 1, 10};
            if (plan.coord_mult % 10 == 0) g.push_back(1000);
            if (plan.coord_mult % 25 == 0) g.push_back(2500);
            if (plan.coord_mult % 100 == 0) g.push_back(10000);
            bp.granularity = s.chance(1, 2) ? 100 : g[s.draw(g.size())];
            if (bp.granularity != 100) ch.note("pbf-granularity-" + std::to_string(bp.granularity));
            if (s.chance(1, 3)) {
                int64_t base = bp.granularity > 100 ? static_cast<int64_t>(plan.coord_rem) * 100 : 0;
                // offsets of any size up to the whole coordinate range (+-180 degrees = +-1.8e11 nanodegrees), small ones more often
                const int64_t span = s.chance(1, 2) ? 2000000 : 180000000000LL / bp.granularity;
                bp.lat_off = base + bp.granularity * s.range(-span, span);
                bp.lon_off = base + bp.granularity * s.range(-span, span);
                if (span > 2000000) ch.note("pbf-latlon-offset-large");
                ch.note("pbf-latlon-offset");
            } else if (bp.granularity > 100) {
                bp.lat_off = bp.lon_off = static_cast<int64_t>(plan.coord_rem) * 100;
                if (bp.lat_off) ch.note("pbf-latlon-offset");
            }
            std::vector<int64_t> dg{1000, 1, 250, 500};
            if (plan.ts_mult % 60 == 0) dg.push_back(60000);
            bp.date_gran = s.chance(1, 2) ? 1000 : dg[s.draw(dg.size())];
            if (bp.date_gran != 1000) ch.note("pbf-date-granularity-" + std::to_string(bp.date_gran));
        }
        StringTable st;
        if (s.chance(1, 4)) {
            size_t n = 1 + s.draw(5);
            for (size_t i = 0; i < n; ++i) st.entries.push_back("unused" + std::to_string(s.draw(1000)));
            ch.note("pbf-unused-strings");
        }
        // groups: runs of the same type; plain nodes and dense nodes never share a group
        std::vector<std::string> groups;
        size_t i = 0;
        while (i < objs.size()) {
            int type = objs[i]->type;
            size_t maxrun = 1 + s.draw(s.chance(1, 3) ? 300 : 8);
            size_t j = i;
            while (j < objs.size() && objs[j]->type == type && j - i < maxrun) ++j;
            pb::Msg g;
            if (type == model::NODE) {
                if (s.chance(2, 3)) {
                    std::vector<const Obj*> run(objs.begin() + static_cast<std::ptrdiff_t>(i), objs.begin() + static_cast<std::ptrdiff_t>(j));
                    g.add(2, pb::f_bytes(2, dense_msg(run, st, bp)));
                } else {
                    for (size_t k = i; k < j; ++k) g.add(1, pb::f_bytes(1, node_msg(*objs[k], st, bp)));
                    ch.note("pbf-plain-nodes");
                }
            } else if (type == model::WAY) {
                for (size_t k = i; k < j; ++k) g.add(3, pb::f_bytes(3, way_msg(*objs[k], st, bp)));
            } else {
                for (size_t k = i; k < j; ++k) g.add(4, pb::f_bytes(4, relation_msg(*objs[k], st, bp)));
            }
            groups.push_back(g.finish(s, ch, false, true));
            i = j;
        }
        if (groups.size() > 1) ch.note("pbf-several-groups");
        if (s.chance(1, 10)) {
            groups.insert(groups.begin() + static_cast<std::ptrdiff_t>(s.draw(groups.size() + 1)), std::string{});  // an empty group
            ch.note("pbf-empty-group");
        }
        pb::Msg blk;
        {
            std::string stm;
            for (const auto& e : st.entries) stm += pb::f_bytes(1, e);
            blk.add(1, pb::f_bytes(1, stm));
        }
        for (const auto& g : groups) blk.add(2, pb::f_bytes(2, g));
        if (hostile && hostile->set_granularity) {
            blk.add(17, pb::f_int64(17, hostile->granularity));
            hostile->fired = true;
            hostile->what += " [granularity " + std::to_string(hostile->granularity) + "]";
        } else if (bp.granularity != 100 || s.chance(1, 4)) blk.add(17, pb::f_int64(17, bp.granularity));
        if (hostile && hostile->set_date_granularity) {
            blk.add(18, pb::f_int64(18, hostile->date_granularity));
            hostile->fired = true;
            hostile->what += " [date_granularity " + std::to_string(hostile->date_granularity) + "]";
        } else if (bp.date_gran != 1000 || s.chance(1, 4)) blk.add(18, pb::f_int64(18, bp.date_gran));
        if (bp.lat_off != 0 || s.chance(1, 4)) blk.add(19, pb::f_int64(19, bp.lat_off));
        if (bp.lon_off != 0 || s.chance(1, 4)) blk.add(20, pb::f_int64(20, bp.lon_off));
        return blk.finish(s, ch, true, true);
    }

    std::string blob(const std::string& raw) {
        pb::Msg m;
        size_t comp = s.weighted({2, 3,
#ifdef OSMIUM_WITH_LZ4
                                  2
#else
                                  0
#endif
        });
        int64_t declared = static_cast<int64_t>(raw.size());
        bool hostile_size = false;
        if (hostile && hostile->blob_calls++ == hostile->rawsize_at) {
            declared = hostile->rawsize_abs >= 0 ? hostile->rawsize_abs : declared + hostile->rawsize_delta;
            hostile->fired = hostile_size = true;
            hostile->what += " [blob of " + std::to_string(raw.size()) + " bytes declares raw_size " + std::to_string(declared) + "]";
        }
        std::string size_field = pb::f_int64(2, declared);
        std::string data_field;
        if (comp == 0) {
            data_field = pb::f_bytes(1, raw);
            ch.note("pbf-blob-raw");
            if (s.boolean() && !hostile_size) size_field.clear();  // raw_size is only needed for compressed blobs
        } else if (comp == 1) {
            data_field = pb::f_bytes(3, zlib_compress(raw, static_cast<int>(s.draw(10))));
        } else {
#ifdef OSMIUM_WITH_LZ4
            std::string out(static_cast<size_t>(LZ4_compressBound(static_cast<int>(raw.size()))), '\0');
            int n = LZ4_compress_default(raw.data(), &out[0], static_cast<int>(raw.size()), static_cast<int>(out.size()));
            if (n <= 0) std::abort();
            out.resize(static_cast<size_t>(n));
            data_field = pb::f_bytes(6, out);
            ch.note("pbf-blob-lz4");
#endif
        }
        if (s.chance(1, 3)) {
            m.add(99, data_field);  // (field number only used as ordering key by finish(): data first)
            if (!size_field.empty()) m.add(98, size_field);
            ch.note("pbf-raw_size-after-data");
        } else {
            if (!size_field.empty()) m.add(98, size_field);
            m.add(99, data_field);
        }
        return m.finish(s, ch, false, true);
    }

    std::string framed(const std::string& type, const std::string& blob_bytes) {
        pb::Msg h;
        h.add(1, pb::f_bytes(1, type));
        if (s.chance(1, 4)) {
            static const size_t sizes[] = {1, 90, 100, 110, 118, 119, 120, 121, 125, 126, 127, 128, 200, 250, 255, 256, 1000, 16000, 32700, 32760, 32768, 60000};
            size_t n = s.chance(1, 2) ? sizes[s.draw(sizeof(sizes) / sizeof(sizes[0]))] : s.draw(300);
            std::string idx(n, '\0');
            for (size_t i = 0; i < n && i < 64; ++i) idx[i] = static_cast<char>(s.draw(256));
            h.add(2, pb::f_bytes(2, idx));
            ch.note("pbf-indexdata");
        }
        h.add(3, pb::f_int64(3, static_cast<int64_t>(blob_bytes.size())));
        std::string hb = h.finish(s, ch, true, true);
        if (hb.size() >= 128) ch.note("pbf-blobheader>=128");
        if (hb.size() >= 32768) ch.note("pbf-blobheader>=32768");
        std::string o;
        o += static_cast<char>((hb.size() >> 24) & 0xff);
        o += static_cast<char>((hb.size() >> 16) & 0xff);
        o += static_cast<char>((hb.size() >> 8) & 0xff);
        o += static_cast<char>(hb.size() & 0xff);
        o += hb;
        o += blob_bytes;
        return o;
    }

  public:
    PbfEncoder(Src& src, Choices& c, const PbfPlan& p, bool history) : s(src), ch(c), plan(p), m_history(history) {}

    std::string encode(const Header& hdr, const std::vector<Obj>& data) {
        // data blocks first (to know whether dense nodes were used)
        std::string body;
        size_t i = 0;
        size_t nblocks = 0;
        while (i < data.size()) {
            size_t n = 1 + s.draw(s.chance(1, 4) ? 300 : 12);
            std::vector<const Obj*> objs;
            for (size_t k = i; k < data.size() && k < i + n; ++k) objs.push_back(&data[k]);
            i += objs.size();
            body += framed("OSMData", blob(primitive_block(objs)));
            ++nblocks;
        }
        if (nblocks > 1) ch.note("pbf-several-blocks");
        if (data.empty() && s.boolean()) {
            body += framed("OSMData", blob(primitive_block({})));  // a block without objects
            ch.note("pbf-empty-block");
        }
        pb::Msg hb;
        if (hdr.has_box) {
            pb::Msg bb;
            bb.add(1, pb::f_sint64(1, static_cast<int64_t>(hdr.bl.x) * 100));
            bb.add(2, pb::f_sint64(2, static_cast<int64_t>(hdr.tr.x) * 100));
            bb.add(3, pb::f_sint64(3, static_cast<int64_t>(hdr.tr.y) * 100));
            bb.add(4, pb::f_sint64(4, static_cast<int64_t>(hdr.bl.y) * 100));
            hb.add(1, pb::f_bytes(1, bb.finish(s, ch, true, true)));
        }
        hb.add(4, pb::f_bytes(4, "OsmSchema-V0.6"));
        if (m_used_dense || s.boolean()) hb.add(4, pb::f_bytes(4, "DenseNodes"));
        if (m_history) hb.add(4, pb::f_bytes(4, "HistoricalInformation"));
        if (s.chance(1, 3)) hb.add(5, pb::f_bytes(5, s.boolean() ? "Sort.Type_then_ID" : "Has_Metadata"));
        hb.add(16, pb::f_bytes(16, hdr.generator));
        if (s.chance(1, 4)) hb.add(17, pb::f_bytes(17, "http://www.openstreetmap.org/api/0.6"));
        if (s.chance(1, 4)) {
            hb.add(32, pb::f_int64(32, static_cast<int64_t>(s.draw(2000000000))));
            hb.add(33, pb::f_int64(33, static_cast<int64_t>(s.draw(100000))));
            hb.add(34, pb::f_bytes(34, "https://planet.osm.org/replication/minute"));
        }
        return framed("OSMHeader", blob(hb.finish(s, ch, true, true))) + body;
    }
};

// ------------------------------------------------------------------------------------------------ o5m / o5c
class O5mEncoder {
    Src& s;
    Choices& ch;
    std::deque<std::string> table;  // front = most recently stored
    int64_t d_id = 0, d_ts = 0, d_cs = 0, d_lon = 0, d_lat = 0, d_wn = 0, d_mem[3] = {0, 0, 0};
    size_t stored = 0;

    static void uvar(std::string& o, uint64_t v) { pb::varint(o, v); }
    static void svar(std::string& o, int64_t v) { pb::varint(o, pb::zz(v)); }

    void reset(std::string& o) {
        o += static_cast<char>(0xff);
        table.clear();
        d_id = d_ts = d_cs = d_lon = d_lat = d_wn = 0;
        d_mem[0] = d_mem[1] = d_mem[2] = 0;
    }

    // `content` is the body after the leading zero byte (one or two zero-terminated strings); `chars` is its length for the
    // 250-character rule. Strings whose length is close to the limit are never generated (the descriptions differ in how they count).
    void put_string(std::string& o, const std::string& content, size_t chars) {
        if (bad_reference_pending) {
            bad_reference_pending = false;
            uvar(o, hostile->reference);
            hostile->fired = true;
            hostile->what += " string reference " + std::to_string(hostile->reference) + " with " + std::to_string(table.size()) + " strings in the table;";
            return;
        }
        const bool storable = chars <= 250;
        if (storable) {
            for (size_t i = 0; i < table.size(); ++i) {
                if (table[i] == content) {
                    if (s.chance(9, 10)) {
                        uvar(o, i + 1);
                        ch.note("o5m-string-reference");
                        if (i + 1 > 127) ch.note("o5m-reference>127");
                        if (i + 1 >= 14990) ch.note("o5m-reference>=14990");
                        if (i + 1 == 15000) ch.note("o5m-reference==15000");
                        return;
                    }
                    break;
                }
            }
        } else {
            ch.note("o5m-long-string-not-stored");
        }
        o += '\0';
        o += content;
        if (storable) {
            table.push_front(content);
            ++stored;
            if (table.size() > 15000) {
                table.pop_back();
                ch.note("o5m-table-wrap");
            }
        }
    }

    void put_pair(std::string& o, const std::string& a, const std::string& b) {
        std::string c = a;
        c += '\0';
        c += b;
        c += '\0';
        put_string(o, c, a.size() + b.size());
    }

    void put_info(std::string& o, const Obj& x) {
        if (x.version == 0) {
            o += '\0';
            ch.note("o5m-no-version-info");
            return;
        }
        uvar(o, x.version);
        svar(o, static_cast<int64_t>(x.ts) - d_ts);
        d_ts = x.ts;
        if (x.ts == 0) {
            ch.note("o5m-no-author-info");
            return;
        }
        svar(o, static_cast<int64_t>(x.cs) - d_cs);
        d_cs = x.cs;
        if (x.uid == 0 && x.user.empty()) {
            // anonymous: the reference implementation (osmconvert, wo__author) writes the pair ("", "") through the string table
            ch.note("o5m-anonymous-user-pair");
            put_pair(o, "", "");
            return;
        }
        std::string uid;
        uvar(uid, x.uid);
        put_pair(o, uid, x.user);
    }

    void put_tags(std::string& o, const Obj& x) {
        for (const auto& t : x.tags) put_pair(o, t.k, t.v);
    }

    void dataset(std::string& out, unsigned char type, const std::string& body, int64_t length_delta = 0) {
        out += static_cast<char>(type);
        uvar(out, static_cast<uint64_t>(static_cast<int64_t>(body.size()) + length_delta));
        out += body;
    }

  public:
    // Hostile mode (C03): a file whose datasets are well-formed varints and strings, but one object (the `target`-th) is inconsistent in
    // one or two generated places: the declared length of its reference section (way nodes / relation members) is wrong, its body ends
    // early at a field boundary (with a dataset length that says so, or not), its dataset length is wrong, or one of its string
    // references points outside the table. Inactive unless set.
    struct Hostile {
        size_t target = 0;
        bool alter_reflen = false;
        unsigned reflen_mode = 0;   // 0: 0, 1: 1, 2: 2, 3: actual-1, 4: actual+1, 5: actual+extra
        uint64_t extra = 0;
        bool cut_body = false;
        uint64_t cut_pick = 0;      // which field boundary (modulo their number)
        bool alter_length = false;
        int64_t length_delta = 0;
        bool bad_reference = false;
        uint64_t reference = 0;     // what is written instead of the first string reference or inline string of the object
        bool bad_box = false;       // the file's bounding box dataset gets hostile corner values
        uint64_t box_pick = 0;
        bool fired = false;
        std::string what;
    };
    Hostile* hostile = nullptr;

  private:
    bool bad_reference_pending = false;

  public:
    O5mEncoder(Src& src, Choices& c) : s(src), ch(c) {}

    std::string encode(const Header& hdr, const std::vector<Obj>& data, bool change_file) {
        std::string o;
        o += static_cast<char>(0xff);
        o += static_cast<char>(0xe0);
        o += static_cast<char>(0x04);
        o += change_file ? "o5c2" : "o5m2";
        if (s.chance(1, 3)) {
            std::string b;
            svar(b, static_cast<int64_t>(s.draw(2000000000)));
            dataset(o, 0xdc, b);
            ch.note("o5m-timestamp-dataset");
        }
        if (hostile && hostile->bad_box) {
            // (hostile mode: a bounding box whose corners are the "undefined" marker, reversed, out of range, beyond 32 bits)
            static const int64_t vals[] = {2147483647LL, -2147483648LL, 0, 5, -5, 1800000001LL, -1800000001LL, 900000001LL, 4294967296LL + 7, 9223372036854775807LL, -9223372036854775807LL - 1};
            std::string b;
            for (int i = 0; i < 4; ++i) svar(b, vals[(hostile->box_pick >> (4 * i)) % (sizeof(vals) / sizeof(vals[0]))]);
            dataset(o, 0xdb, b);
            hostile->fired = true;
            hostile->what += " hostile bounding box;";
        } else if (hdr.has_box) {
            std::string b;
            svar(b, hdr.bl.x);
            svar(b, hdr.bl.y);
            svar(b, hdr.tr.x);
            svar(b, hdr.tr.y);
            dataset(o, 0xdb, b);
        }
        int last_type = -1;
        for (const Obj& x : data) {
            // the id delta chain restarts whenever the object type changes: writers emit a reset there
            if (x.type != last_type) {
                reset(o);
                last_type = x.type;
            } else if (data.size() < 5000 && s.chance(1, 15)) {  // (large files are there to fill the 15000-entry table: no extra resets)
                reset(o);
                ch.note("o5m-extra-reset");
            }
            if (s.chance(1, 25)) {
                std::string junk;
                size_t n = s.size(30);
                for (size_t i = 0; i < n; ++i) junk += static_cast<char>(s.draw(256));
                static const unsigned char kinds[] = {0xee, 0xef, 0x20, 0xe5, 0x13};
                dataset(o, kinds[s.draw(5)], junk);
                ch.note("o5m-skippable-dataset");
            }
            const bool hit = hostile && static_cast<size_t>(&x - data.data()) == hostile->target;
            if (hit && hostile->bad_reference) bad_reference_pending = true;
            std::vector<size_t> marks;  // field boundaries inside the body (for the hostile mode's early end)
            auto reflen = [&](size_t actual) -> uint64_t {
                if (!hit || !hostile->alter_reflen) return actual;
                uint64_t v = actual;
                switch (hostile->reflen_mode % 6) {
                    case 0: v = 0; break;
                    case 1: v = 1; break;
                    case 2: v = 2; break;
                    case 3: v = actual ? actual - 1 : 7; break;
                    case 4: v = actual + 1; break;
                    default: v = actual + hostile->extra; break;
                }
                if (v != actual) {
                    hostile->fired = true;
                    hostile->what += " reference section of " + std::to_string(actual) + " bytes declared as " + std::to_string(v) + ";";
                }
                return v;
            };
            std::string b;
            svar(b, static_cast<int64_t>(static_cast<uint64_t>(x.id) - static_cast<uint64_t>(d_id)));
            d_id = x.id;
            marks.push_back(b.size());
            put_info(b, x);
            marks.push_back(b.size());
            if (!x.visible) {
                ch.note("o5m-deleted-object");
            } else if (x.type == model::NODE) {
                svar(b, static_cast<int64_t>(x.loc.x) - d_lon);
                marks.push_back(b.size());
                svar(b, static_cast<int64_t>(x.loc.y) - d_lat);
                marks.push_back(b.size());
                d_lon = x.loc.x;
                d_lat = x.loc.y;
                put_tags(b, x);
            } else if (x.type == model::WAY) {
                std::string r;
                std::vector<size_t> rmarks;
                for (const auto& nr : x.refs) {
                    svar(r, static_cast<int64_t>(static_cast<uint64_t>(nr.ref) - static_cast<uint64_t>(d_wn)));
                    d_wn = nr.ref;
                    rmarks.push_back(r.size());
                }
                uvar(b, reflen(r.size()));
                marks.push_back(b.size());
                for (size_t m : rmarks) marks.push_back(b.size() + m);
                b += r;
                put_tags(b, x);
            } else {
                std::string r;
                std::vector<size_t> rmarks;
                for (const auto& m : x.members) {
                    svar(r, static_cast<int64_t>(static_cast<uint64_t>(m.ref) - static_cast<uint64_t>(d_mem[m.type])));
                    d_mem[m.type] = m.ref;
                    rmarks.push_back(r.size());
                    std::string c(1, static_cast<char>('0' + m.type));
                    c += m.role;
                    c += '\0';
                    put_string(r, c, 1 + m.role.size());
                    rmarks.push_back(r.size());
                }
                uvar(b, reflen(r.size()));
                marks.push_back(b.size());
                for (size_t m : rmarks) marks.push_back(b.size() + m);
                b += r;
                put_tags(b, x);
            }
            bad_reference_pending = false;
            int64_t length_delta = 0;
            if (hit && hostile->cut_body && !marks.empty()) {
                const size_t at = marks[hostile->cut_pick % marks.size()];
                if (at < b.size()) {
                    hostile->fired = true;
                    hostile->what += " body of " + std::to_string(b.size()) + " bytes ends after " + std::to_string(at) + ";";
                    b.resize(at);
                }
            }
            if (hit && hostile->alter_length && static_cast<int64_t>(b.size()) + hostile->length_delta >= 0) {
                length_delta = hostile->length_delta;
                hostile->fired = true;
                hostile->what += " dataset of " + std::to_string(b.size()) + " bytes declared as " + std::to_string(static_cast<int64_t>(b.size()) + length_delta) + ";";
            }
            dataset(o, x.type == model::NODE ? 0x10 : x.type == model::WAY ? 0x11 : 0x12, b, length_delta);
        }
        if (s.chance(2, 3)) o += static_cast<char>(0xfe);
        else ch.note("o5m-no-end-marker");
        return o;
    }
};

// ------------------------------------------------------------------------------------------------ text helpers
inline std::string iso_time(uint32_t t) {
    // civil-from-days (proleptic Gregorian), independent of gmtime
    int64_t z = static_cast<int64_t>(t / 86400) + 719468;
    int64_t era = z / 146097;
    int64_t doe = z - era * 146097;
    int64_t yoe = (doe - doe / 1460 + doe / 36524 - doe / 146096) / 365;
    int64_t y = yoe + era * 400;
    int64_t doy = doe - (365 * yoe + yoe / 4 - yoe / 100);
    int64_t mp = (5 * doy + 2) / 153;
    int64_t d = doy - (153 * mp + 2) / 5 + 1;
    int64_t m = mp + (mp < 10 ? 3 : -9);
    if (m <= 2) ++y;
    uint32_t sec = t % 86400;
    char buf[40];
    std::snprintf(buf, sizeof(buf), "%04lld-%02lld-%02lldT%02u:%02u:%02uZ", static_cast<long long>(y), static_cast<long long>(m), static_cast<long long>(d), sec / 3600, (sec / 60) % 60, sec % 60);
    return buf;
}

// decimal text of a 1e-7 fixed-point coordinate in one of several equivalent spellings
inline std::string coord_text(Src& s, Choices& ch, int32_t v, bool allow_exponent) {
    const bool neg = v < 0;
    uint64_t a = neg ? static_cast<uint64_t>(-static_cast<int64_t>(v)) : static_cast<uint64_t>(v);
    std::string ip = std::to_string(a / 10000000), fp = std::to_string(a % 10000000);
    fp = std::string(7 - fp.size(), '0') + fp;
    switch (s.weighted({6, 2, 1, 1})) {
        case 0: {  // shortest form
            while (!fp.empty() && fp.back() == '0') fp.pop_back();
            return std::string{neg ? "-" : ""} + ip + (fp.empty() ? "" : "." + fp);
        }
        case 1:  // all seven digits
            ch.note("coord-trailing-zeros");
            return std::string{neg ? "-" : ""} + ip + "." + fp;
        case 2:
            if (allow_exponent) {
                ch.note("coord-exponent");
                return std::string{neg ? "-" : ""} + std::to_string(a) + "e-7";
            }
            return std::string{neg ? "-" : ""} + ip + "." + fp;
        default: {  // more digits than needed
            ch.note("coord-extra-zero-digits");
            return std::string{neg ? "-" : ""} + ip + "." + fp + "00";
        }
    }
}

// decode UTF-8 (valid input) into scalars
inline std::vector<uint32_t> scalars(const std::string& str) {
    std::vector<uint32_t> out;
    for (size_t i = 0; i < str.size();) {
        unsigned char c = static_cast<unsigned char>(str[i]);
        uint32_t cp;
        size_t n;
        if (c < 0x80) { cp = c; n = 1; }
        else if (c < 0xe0) { cp = c & 0x1f; n = 2; }
        else if (c < 0xf0) { cp = c & 0x0f; n = 3; }
        else { cp = c & 0x07; n = 4; }
        for (size_t k = 1; k < n && i + k < str.size(); ++k) cp = (cp << 6) | (static_cast<unsigned char>(str[i + k]) & 0x3f);
        out.push_back(cp);
        i += n;
    }
    return out;
}

// ------------------------------------------------------------------------------------------------ XML
class XmlEncoder {
    Src& s;
    Choices& ch;

    std::string escape(const std::string& str, char quote) {
        std::string o;
        char buf[24];
        for (uint32_t cp : scalars(str)) {
            bool must_numeric = cp == 0x9 || cp == 0xa || cp == 0xd;  // would be normalised to a space inside an attribute
            if (cp == '&') o += s.chance(1, 6) ? "&#38;" : "&amp;";
            else if (cp == '<') o += s.chance(1, 6) ? "&#x3c;" : "&lt;";
            else if (cp == '>') o += s.boolean() ? "&gt;" : ">";
            else if (cp == static_cast<uint32_t>(quote)) o += quote == '"' ? "&quot;" : "&apos;";
            else if (cp == '"' && s.boolean()) o += "&quot;";
            else if (cp == '\'' && s.boolean()) o += "&apos;";
            else if (must_numeric || (cp >= 0x80 && s.chance(1, 5)) || (cp > 0x20 && cp < 0x7f && s.chance(1, 40))) {
                if (s.boolean()) std::snprintf(buf, sizeof(buf), "&#%u;", cp);
                else std::snprintf(buf, sizeof(buf), s.boolean() ? "&#x%x;" : "&#x%X;", cp);
                o += buf;
                if (!must_numeric) ch.note("xml-numeric-char-ref");
            } else {
                o += gen::utf8(cp);
            }
        }
        return o;
    }

    std::string attr(const std::string& name, const std::string& value) {
        char q = s.chance(1, 3) ? '\'' : '"';
        if (q == '\'') ch.note("xml-single-quotes");
        return name + (s.chance(1, 20) ? " = " : "=") + q + escape(value, q) + q;
    }

    std::string ws() {
        switch (s.weighted({6, 2, 1, 1})) {
            case 0: return "\n";
            case 1: return "\n  ";
            case 2: ch.note("xml-crlf"); return "\r\n";
            default: ch.note("xml-no-whitespace"); return "";
        }
    }

    std::string element(const std::string& name, std::vector<std::string> attrs, const std::string& children) {
        if (attrs.size() > 1 && s.chance(1, 2)) {
            std::vector<std::string> p = attrs;
            for (size_t i = p.size(); i > 1; --i) std::swap(p[i - 1], p[s.draw(i)]);
            if (p != attrs) ch.note("xml-attribute-order");
            attrs = p;
        }
        std::string o = "<" + name;
        for (const auto& a : attrs) o += (s.chance(1, 15) ? "\n    " : " ") + a;
        if (children.empty()) {
            if (s.chance(1, 5)) {
                ch.note("xml-paired-empty-element");
                return o + "></" + name + ">";
            }
            return o + (s.boolean() ? "/>" : " />");
        }
        return o + ">" + children + "</" + name + ">";
    }

    std::string tags(const Obj& x) {
        std::string c;
        for (const auto& t : x.tags) c += ws() + element("tag", {attr("k", t.k), attr("v", t.v)}, "");
        return c;
    }

    std::vector<std::string> object_attrs(const Obj& x, bool in_delete_section) {
        std::vector<std::string> a{attr("id", std::to_string(x.id))};
        if (x.version != 0 || s.chance(1, 3)) a.push_back(attr("version", std::to_string(x.version)));
        if (x.ts != 0 || s.chance(1, 4)) a.push_back(attr("timestamp", iso_time(x.ts)));
        if (x.cs != 0 || s.chance(1, 3)) a.push_back(attr("changeset", std::to_string(x.cs)));
        if (x.uid != 0 || s.chance(1, 3)) a.push_back(attr("uid", std::to_string(x.uid)));
        if (!x.user.empty() || s.chance(1, 3)) a.push_back(attr("user", x.user));
        if ((!x.visible && !in_delete_section) || s.chance(1, 3)) a.push_back(attr("visible", x.visible ? "true" : "false"));
        return a;
    }

    std::string object(const Obj& x, bool in_delete_section) {
        if (x.type == model::NODE) {
            auto a = object_attrs(x, in_delete_section);
            if (!x.loc.undefined()) {
                a.push_back(attr("lat", coord_text(s, ch, x.loc.y, true)));
                a.push_back(attr("lon", coord_text(s, ch, x.loc.x, true)));
            }
            std::string c = tags(x);
            return element("node", a, c.empty() ? c : c + ws());
        }
        if (x.type == model::WAY) {
            std::string c;
            for (const auto& nr : x.refs) {
                std::vector<std::string> a{attr("ref", std::to_string(nr.ref))};
                if (!nr.loc.undefined()) {
                    a.push_back(attr("lat", coord_text(s, ch, nr.loc.y, true)));
                    a.push_back(attr("lon", coord_text(s, ch, nr.loc.x, true)));
                }
                c += ws() + element("nd", a, "");
            }
            c += tags(x);
            return element("way", object_attrs(x, in_delete_section), c.empty() ? c : c + ws());
        }
        if (x.type == model::RELATION) {
            std::string c;
            static const char* tn[] = {"node", "way", "relation"};
            for (const auto& m : x.members) c += ws() + element("member", {attr("type", tn[m.type]), attr("ref", std::to_string(m.ref)), attr("role", m.role)}, "");
            c += tags(x);
            return element("relation", object_attrs(x, in_delete_section), c.empty() ? c : c + ws());
        }
        // changeset
        std::vector<std::string> a{attr("id", std::to_string(x.id))};
        if (x.created != 0 || s.chance(1, 3)) a.push_back(attr("created_at", iso_time(x.created)));
        if (x.closed != 0) a.push_back(attr("closed_at", iso_time(x.closed)));
        a.push_back(attr("open", x.closed == 0 ? "true" : "false"));
        if (x.num_changes != 0 || s.chance(1, 3)) a.push_back(attr("num_changes", std::to_string(x.num_changes)));
        if (x.num_comments != 0 || s.chance(1, 3)) a.push_back(attr("comments_count", std::to_string(x.num_comments)));
        if (x.uid != 0 || s.chance(1, 3)) a.push_back(attr("uid", std::to_string(x.uid)));
        if (!x.user.empty() || s.chance(1, 3)) a.push_back(attr("user", x.user));
        if (!x.bl.undefined()) {
            a.push_back(attr("min_lon", coord_text(s, ch, x.bl.x, true)));
            a.push_back(attr("min_lat", coord_text(s, ch, x.bl.y, true)));
            a.push_back(attr("max_lon", coord_text(s, ch, x.tr.x, true)));
            a.push_back(attr("max_lat", coord_text(s, ch, x.tr.y, true)));
        }
        std::string c = tags(x);
        if (!x.comments.empty()) {
            std::string dc;
            for (const auto& cm : x.comments) {
                std::string text;
                // element content: & and < must be escaped; CDATA is an equivalent spelling
                if (cm.text.find("]]>") == std::string::npos && cm.text.find('\r') == std::string::npos && !cm.text.empty() && s.chance(1, 5)) {
                    text = "<![CDATA[" + cm.text + "]]>";
                    ch.note("xml-cdata");
                } else {
                    for (uint32_t cp : scalars(cm.text)) {
                        char buf[16];
                        if (cp == '&') text += "&amp;";
                        else if (cp == '<') text += "&lt;";
                        else if (cp == '>') text += "&gt;";
                        else if (cp == '\r') text += "&#13;";  // a literal CR would be normalised to LF
                        else if (cp >= 0x80 && s.chance(1, 6)) {
                            std::snprintf(buf, sizeof(buf), "&#x%x;", cp);
                            text += buf;
                        } else text += gen::utf8(cp);
                    }
                }
                dc += ws() + element("comment", {attr("date", iso_time(cm.date)), attr("uid", std::to_string(cm.uid)), attr("user", cm.user)}, ws() + "<text>" + text + "</text>" + ws());
            }
            c += ws() + "<discussion>" + dc + ws() + "</discussion>";
        }
        return element("changeset", a, c.empty() ? c : c + ws());
    }

  public:
    XmlEncoder(Src& src, Choices& c) : s(src), ch(c) {}

    std::string encode(const Header& hdr, const std::vector<Obj>& data, bool change_file) {
        std::string o;
        switch (s.weighted({4, 2, 2, 1})) {
            case 0: o = "<?xml version='1.0' encoding='UTF-8'?>\n"; break;
            case 1: o = "<?xml version=\"1.0\" encoding=\"UTF-8\" standalone=\"yes\"?>\n"; break;
            case 2: o = "<?xml version=\"1.0\"?>"; break;
            default: ch.note("xml-no-declaration"); break;
        }
        if (s.chance(1, 6)) {
            o += "<!-- produced by the verification encoder -->\n";
            ch.note("xml-comment");
        }
        std::vector<std::string> ra{attr("version", "0.6"), attr("generator", hdr.generator)};
        if (s.chance(1, 4)) ra.push_back(attr("copyright", "OpenStreetMap and contributors"));
        if (s.chance(1, 4)) ra.push_back(attr("attribution", "http://www.openstreetmap.org/copyright"));
        if (s.chance(1, 8)) ra.push_back(attr("upload", "false"));
        std::string c;
        if (hdr.has_box) {
            c += ws() + element("bounds", {attr("minlat", coord_text(s, ch, hdr.bl.y, true)), attr("minlon", coord_text(s, ch, hdr.bl.x, true)), attr("maxlat", coord_text(s, ch, hdr.tr.y, true)), attr("maxlon", coord_text(s, ch, hdr.tr.x, true))}, "");
        }
        if (!change_file) {
            for (const Obj& x : data) {
                c += ws() + object(x, false);
                if (s.chance(1, 30)) {
                    c += "<!-- x -->";
                    ch.note("xml-comment");
                }
            }
        } else {
            // sections: runs of objects; deleted objects go to <delete>, visible ones to <create> or <modify>
            size_t i = 0;
            while (i < data.size()) {
                const bool del = !data[i].visible && data[i].type != model::CHANGESET;
                size_t j = i;
                size_t maxrun = 1 + s.draw(5);
                while (j < data.size() && (!data[j].visible) == del && j - i < maxrun) ++j;
                std::string sec;
                for (size_t k = i; k < j; ++k) sec += ws() + object(data[k], del);
                const char* name = del ? "delete" : (s.boolean() ? "create" : "modify");
                c += ws() + "<" + name + ">" + sec + ws() + "</" + name + ">";
                i = j;
            }
            if (s.chance(1, 6)) c += ws() + "<create/>";
        }
        o += element(change_file ? "osmChange" : "osm", ra, c + ws());
        if (s.boolean()) o += "\n";
        return o;
    }
};

// ------------------------------------------------------------------------------------------------ OPL
class OplEncoder {
    Src& s;
    Choices& ch;

    std::string escape(const std::string& str) {
        std::string o;
        char buf[16];
        for (uint32_t cp : scalars(str)) {
            const bool must = cp <= 0x20 || cp == ',' || cp == '=' || cp == '@' || cp == '%' || cp == 0x7f;
            if (must || s.chance(1, 12)) {
                if (!must) ch.note("opl-optional-escape");
                const bool upper = s.chance(1, 3);
                if (upper) ch.note("opl-uppercase-hex");
                std::snprintf(buf, sizeof(buf), upper ? "%%%X%%" : "%%%x%%", cp);
                if (s.chance(1, 10)) {
                    std::snprintf(buf, sizeof(buf), upper ? "%%%06X%%" : "%%%06x%%", cp);
                    ch.note("opl-hex-leading-zeros");
                }
                o += buf;
            } else {
                o += gen::utf8(cp);
            }
        }
        return o;
    }

    std::string sep() {
        switch (s.weighted({8, 1, 1})) {
            case 0: return " ";
            case 1: ch.note("opl-tab"); return "\t";
            default: ch.note("opl-space-run"); return s.boolean() ? "  " : " \t ";
        }
    }

    std::string tagstr(const Obj& x) {
        std::string t;
        for (const auto& kv : x.tags) t += (t.empty() ? "" : ",") + escape(kv.k) + "=" + escape(kv.v);
        return t;
    }

    std::string line(const Obj& x) {
        std::vector<std::string> f;
        std::string head;
        if (x.type == model::CHANGESET) {
            head = "c" + std::to_string(x.id);
            if (x.num_changes != 0 || s.chance(2, 3)) f.push_back("k" + std::to_string(x.num_changes));
            if (x.created != 0 || s.chance(2, 3)) f.push_back("s" + (x.created ? iso_time(x.created) : std::string{}));
            if (x.closed != 0 || s.chance(2, 3)) f.push_back("e" + (x.closed ? iso_time(x.closed) : std::string{}));
            if (x.num_comments != 0 || s.chance(2, 3)) f.push_back("d" + std::to_string(x.num_comments));
            if (x.uid != 0 || s.chance(2, 3)) f.push_back("i" + std::to_string(x.uid));
            if (!x.user.empty() || s.chance(2, 3)) f.push_back("u" + escape(x.user));
            if (!x.bl.undefined()) {
                f.push_back("x" + coord_text(s, ch, x.bl.x, false));
                f.push_back("y" + coord_text(s, ch, x.bl.y, false));
                f.push_back("X" + coord_text(s, ch, x.tr.x, false));
                f.push_back("Y" + coord_text(s, ch, x.tr.y, false));
            } else if (s.boolean()) {
                f.push_back("x");
                f.push_back("y");
                f.push_back("X");
                f.push_back("Y");
            }
            if (!x.tags.empty() || s.chance(2, 3)) f.push_back("T" + tagstr(x));
        } else {
            head = std::string{"nwr"[x.type]} + std::to_string(x.id);
            if (x.version != 0 || s.chance(2, 3)) f.push_back("v" + std::to_string(x.version));
            if (!x.visible || s.chance(2, 3)) f.push_back(std::string{"d"} + (x.visible ? "V" : "D"));
            if (x.cs != 0 || s.chance(2, 3)) f.push_back("c" + std::to_string(x.cs));
            if (x.ts != 0 || s.chance(2, 3)) f.push_back("t" + (x.ts ? iso_time(x.ts) : std::string{}));
            if (x.uid != 0 || s.chance(2, 3)) f.push_back("i" + std::to_string(x.uid));
            if (!x.user.empty() || s.chance(2, 3)) f.push_back("u" + escape(x.user));
            if (!x.tags.empty() || s.chance(2, 3)) f.push_back("T" + tagstr(x));
            if (x.type == model::NODE) {
                if (!x.loc.undefined()) {
                    f.push_back("x" + coord_text(s, ch, x.loc.x, false));
                    f.push_back("y" + coord_text(s, ch, x.loc.y, false));
                } else if (s.boolean()) {
                    f.push_back("x");
                    f.push_back("y");
                }
            } else if (x.type == model::WAY) {
                std::string n;
                for (const auto& nr : x.refs) {
                    n += (n.empty() ? "" : ",") + std::string{"n"} + std::to_string(nr.ref);
                    if (!nr.loc.undefined()) n += "x" + coord_text(s, ch, nr.loc.x, false) + "y" + coord_text(s, ch, nr.loc.y, false);
                }
                if (!n.empty() || s.chance(2, 3)) f.push_back("N" + n);
            } else {
                std::string m;
                for (const auto& mm : x.members) m += (m.empty() ? "" : ",") + std::string{"nwr"[mm.type]} + std::to_string(mm.ref) + "@" + escape(mm.role);
                if (!m.empty() || s.chance(2, 3)) f.push_back("M" + m);
            }
        }
        if (f.size() > 1 && s.chance(1, 3)) {
            std::vector<std::string> p = f;
            for (size_t i = p.size(); i > 1; --i) std::swap(p[i - 1], p[s.draw(i)]);
            if (p != f) ch.note("opl-field-order");
            f = p;
        }
        std::string l = head;
        for (const auto& x2 : f) l += sep() + x2;
        if (f.size() < 8) ch.note("opl-omitted-fields");
        return l;
    }

  public:
    OplEncoder(Src& src, Choices& c) : s(src), ch(c) {}

    std::string encode(const std::vector<Obj>& data) {
        std::string o;
        int eol = static_cast<int>(s.weighted({6, 2, 1}));  // LF, CRLF, mixed
        if (eol) ch.note(eol == 1 ? "opl-crlf" : "opl-mixed-eol");
        auto nl = [&]() { return eol == 0 ? std::string{"\n"} : eol == 1 ? std::string{"\r\n"} : (s.boolean() ? std::string{"\n"} : std::string{"\r\n"}); };
        for (size_t i = 0; i < data.size(); ++i) {
            if (s.chance(1, 15)) {
                o += s.boolean() ? "# a comment line" + nl() : nl();
                ch.note("opl-comment-or-empty-line");
            }
            o += line(data[i]);
            if (i + 1 < data.size() || !s.chance(1, 6)) o += nl();
            else ch.note("opl-no-final-newline");
        }
        return o;
    }
};

}  // namespace enc
