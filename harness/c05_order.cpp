// C05: the Reader delivers each selected object exactly once and in file order, whatever the pipeline configuration.
#include "readerlab.hpp"

using lab::Pipeline;
using model::Obj;
using vp::Src;

static osmium::osm_entity_bits::type mask_bits(unsigned m) {
    osmium::osm_entity_bits::type t = osmium::osm_entity_bits::nothing;
    if (m & 1) t |= osmium::osm_entity_bits::node;
    if (m & 2) t |= osmium::osm_entity_bits::way;
    if (m & 4) t |= osmium::osm_entity_bits::relation;
    if (m & 8) t |= osmium::osm_entity_bits::changeset;
    return t;
}
static bool selected(unsigned m, int type) { return type == model::NODE ? (m & 1) : type == model::WAY ? (m & 2) : type == model::RELATION ? (m & 4) : (m & 8); }

static std::string type_seq(const std::vector<Obj>& v, size_t max = 40) {
    std::string s;
    for (size_t i = 0; i < v.size() && i < max; ++i) s += std::string{i ? " " : ""} + "nwrc"[v[i].type] + std::to_string(v[i].id) + "v" + std::to_string(v[i].version);
    if (v.size() > max) s += " ...";
    return s;
}

static void prop(Src& s) {
    static bool installed = false;
    if (!installed) {
        perturb::install();
        installed = true;
    }
    const int fmt = static_cast<int>(s.draw(4));
    const size_t max_objects = s.weighted({4, 3, 1}) == 0 ? 8 : s.chance(3, 4) ? 60 : 400;
    filegen::Made m = filegen::small_file(s, fmt, max_objects);
    Pipeline p = lab::gen_pipeline(s);
    const unsigned mask = s.chance(1, 2) ? 15 : static_cast<unsigned>(s.draw(16));
    const bool no_meta = s.chance(1, 4);
    const bool single = s.chance(1, 3);
    const size_t piece = s.chance(1, 2) ? 0 : 1 + s.draw(s.boolean() ? 64 : 5000);
    // consumer pacing: 0 as fast as possible, 1 a pause before the first read (queues fill up, producers block), 2 pauses between reads
    const int pacing = static_cast<int>(s.weighted({3, 1, 2}));
    const uint64_t pace_seed = s.draw(1ULL << 32);
    bool history = false;
    for (const auto& x : m.data) history |= !x.visible;
    std::string format = m.format;
    if (fmt == 0 && (history || s.chance(1, 5))) {
        format = "osh.pbf";  // read_meta::no is ignored for history files (visibility would be lost), by design
        history = true;
    }
    if (fmt == 1 && m.format == "o5c") history = true;
    const std::string what = m.what + " format=" + format + " mask=" + std::to_string(mask) + (no_meta ? " read_meta=no" : "") + (single ? " buffers=single" : "") + " piece=" + std::to_string(piece) + " pacing=" + std::to_string(pacing) + " " + p.str();
    if (vp::want_desc()) vp::describe(what + " objects: " + type_seq(m.data, 12));

    // --- expectation 1: the model (the file came from the harness encoder)
    std::vector<Obj> want;
    for (const auto& x : m.data)
        if (selected(mask, x.type)) {
            Obj y = x;
            if (fmt == 1)
                for (auto& r : y.refs) r.loc = model::Loc{};
            if (fmt == 3) y.comments.clear();
            want.push_back(y);
        }
    // --- expectation 2: the reference decode (pool 1, defaults, no perturbation)
    std::string ref_error;
    std::vector<Obj> ref_all = lab::reference_decode(m.bytes, format, &ref_error);
    VP_CHECK(ref_error.empty(), "reference-decode-failed", "single-threaded reference decode failed: " << ref_error << " | " << what);
    std::vector<Obj> ref;
    for (const auto& x : ref_all)
        if (selected(mask, x.type)) ref.push_back(x);

    // --- the run under test
    p.apply();
    lab::reset_faults();
    lab::fault().piece = piece;
    std::vector<Obj> got;
    size_t buffers = 0, mixed_buffers = 0;
    bool eof_before_end = false, eof_after = false, read_after_end_threw = false, read_after_end_data = false;
    std::string failure;
    {
        osmium::thread::Pool pool{p.pool_threads, static_cast<size_t>(p.work_queue)};
        const std::string fs = piece ? format + ".gz" : format;
        try {
            osmium::io::Reader reader{osmium::io::File{m.bytes.data(), m.bytes.size(), fs}, pool, mask_bits(mask), no_meta ? osmium::io::read_meta::no : osmium::io::read_meta::yes,
                                      single ? osmium::io::buffers_type::single : osmium::io::buffers_type::any};
            if (s.boolean()) (void)reader.header();
            vp::Rng pace{pace_seed};
            if (pacing == 1) std::this_thread::sleep_for(std::chrono::microseconds(500 + pace.below(4000)));
            while (osmium::memory::Buffer b = reader.read()) {
                ++buffers;
                if (pacing == 2 && pace.below(3) == 0) std::this_thread::sleep_for(std::chrono::microseconds(pace.below(600)));
                if (reader.eof()) eof_before_end = true;
                int first_type = -1;
                bool mixed = false;
                for (auto& x : model::from_buffer(b)) {
                    if (first_type < 0) first_type = x.type;
                    else if (x.type != first_type) mixed = true;
                    got.push_back(std::move(x));
                }
                if (mixed) ++mixed_buffers;
            }
            eof_after = reader.eof();
            for (int k = 0; k < 2; ++k) {
                try {
                    osmium::memory::Buffer b = reader.read();
                    if (b && b.committed() > 0) read_after_end_data = true;
                } catch (const osmium::io_error&) {
                    read_after_end_threw = true;
                }
            }
            reader.close();
        } catch (const std::exception& e) {
            failure = e.what();
        }
    }
    perturb::configure(0, 0);
    perturb::set_cpus(0);
    VP_CHECK(failure.empty(), "reader-failed", "reading a valid file failed under this configuration: " << failure << " | " << what);

    auto compare = [&](const std::vector<Obj>& expect, const char* against, const char* sig) {
        if (no_meta && !history) {
            // only metadata may differ: each metadata field identical or default
            VP_CHECK(got.size() == expect.size(), sig, "delivered " << got.size() << " objects, " << against << " has " << expect.size() << " | " << what << "\n  got:  " << type_seq(got) << "\n  want: " << type_seq(expect));
            for (size_t i = 0; i < got.size(); ++i) {
                Obj a = got[i], b = expect[i];
                auto meta_ok = [&](auto av, auto bv, auto dflt) { return av == bv || av == dflt; };
                bool ok = meta_ok(a.version, b.version, 0u) && meta_ok(a.ts, b.ts, 0u) && meta_ok(a.cs, b.cs, 0u) && meta_ok(a.uid, b.uid, 0u) && meta_ok(a.user, b.user, std::string{});
                a.version = b.version;
                a.ts = b.ts;
                a.cs = b.cs;
                a.uid = b.uid;
                a.user = b.user;
                VP_CHECK(ok && a == b, sig, "with read_meta::no object #" << i << " differs from " << against << " in more than its metadata: " << model::diff(b, got[i]) << " | " << what);
            }
            return;
        }
        if (got != expect) {
            size_t i = 0;
            while (i < got.size() && i < expect.size() && got[i] == expect[i]) ++i;
            std::string detail = i < got.size() && i < expect.size() ? ("first difference at #" + std::to_string(i) + ": " + model::diff(expect[i], got[i])) : ("delivered " + std::to_string(got.size()) + " objects, expected " + std::to_string(expect.size()));
            vp::fail(sig, std::string{"object sequence differs from "} + against + ": " + detail + " | " + what + "\n  got:  " + type_seq(got) + "\n  want: " + type_seq(expect));
        }
    };
    compare(ref, "the single-threaded decode", "sequence-differs-from-single-threaded");
    compare(want, "the data the file was encoded from", "sequence-differs-from-model");
    // buffers_type::single is a configuration dimension only: the property does not say anything about the types inside one buffer
    // (observed, not asserted: PBF blocks with groups of several types and OPL changesets after ways give mixed buffers).
    if (single && mixed_buffers) vp::count("observed_mixed_buffers_with_buffers_type_single");
    VP_CHECK(!eof_before_end, "eof-early", "eof() reported true while data was still being delivered | " << what);
    VP_CHECK(eof_after, "eof-late", "eof() is false after the end-of-data marker | " << what);
    VP_CHECK(!read_after_end_data, "data-after-end", "read() after the end-of-data marker delivered data | " << what);
    VP_CHECK(read_after_end_threw || mask == 0, "read-after-end", "read() after the end-of-data marker did not fail | " << what);

    vp::count(std::string{"fmt_"} + filegen::FMT[fmt]);
    vp::count("buffers_delivered", buffers);
    if (mask != 15) vp::count("restricted_entity_mask");
    if (no_meta && !history) vp::count("read_meta_no");
    if (single) vp::count("buffers_single");
    if (p.pool_threads >= 2) vp::count("pool_ge_2");
    if (p.perturb_intensity) vp::count("perturbed");
    vp::count("sched_points", perturb::cfg().points.exchange(0));
    if (buffers >= 3 && p.pool_threads >= 2) vp::nontrivial(vp::hash_str(m.bytes) ^ vp::hash_str(what));
}

VP_MAIN(prop, "files from the harness encoders (0..8, 0..60 or 0..400 objects; PBF with 1..12 objects per block so that many futures are in flight; parser buffers of 256 bytes through the hook so that "
              "nested buffers occur all the time) x pipeline configuration (private pool of 1..32 threads, work/input/osmdata queue sizes 2..20, PBF decoding in pool or parser thread, seeded schedule "
              "perturbation at the Queue/Pool hook points with three intensities, 1/2/all CPUs) x entity mask (all 16) x read_meta x buffers_type x input piece size. Oracle: delivered sequence == "
              "model filtered by the mask == single-threaded reference decode; read_meta::no changes only metadata; buffers_type::single gives one type per buffer; eof() and read() after the end. "
              "non-trivial = >= 3 buffers delivered with a pool of >= 2 threads; distinct by hash of file and configuration")
