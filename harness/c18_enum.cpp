// C18: Web-Mercator projection and tile numbers are accurate, in range and monotone.
#include "../engine/vp_enum.hpp"

#include <osmium/geom/mercator_projection.hpp>
#include <osmium/geom/tile.hpp>
#include <osmium/osm/location.hpp>

#include <cmath>

using namespace osmium::geom;

constexpr int64_t LAT_MAX = 900000000;
constexpr int64_t LON_MAX = 1800000000;

static long double ref_lat_to_y(int64_t phi) {
    const long double PIl = 3.141592653589793238462643383279502884L;
    long double lat = static_cast<long double>(phi) / 10000000.0L;
    return 6378137.0L * logl(tanl(PIl / 4 + (lat * (PIl / 180.0L)) / 2));
}

static std::string show_lat(uint64_t i) {
    char b[64];
    std::snprintf(b, sizeof(b), "lat_fix=%lld (%.7f deg)", static_cast<long long>(i) - LAT_MAX, (static_cast<double>(i) - LAT_MAX) / 1e7);
    return b;
}
static std::string show_lon(uint64_t i) {
    char b[64];
    std::snprintf(b, sizeof(b), "lon_fix=%lld (%.7f deg)", static_cast<long long>(i) - LON_MAX, (static_cast<double>(i) - LON_MAX) / 1e7);
    return b;
}

static void lat_check(uint64_t idx, vp::Local& L) {
    const int64_t phi = static_cast<int64_t>(idx) - LAT_MAX;
    const double lat = osmium::Location::fix_to_double(static_cast<int32_t>(phi));
    const double y = detail::lat_to_y(lat);
    // --- round trip
    const double back = detail::y_to_lat(y);
    const long long r = llround(back * 1e7);
    VP_CHECK(r == phi, "merc-roundtrip", "y_to_lat(lat_to_y(" << phi << ")) rounds to " << r << " (y=" << y << ")");
    // --- accuracy of the fast formula against the canonical tangent formula.
    // Outside +-78 degrees the library evaluates the tangent formula itself; the reference there is the library's own
    // double evaluation (the formula is ill-conditioned in double next to the poles, which is not the fast formula's doing).
    // Inside +-78 degrees (polynomial) the reference is additionally an 80-bit long double evaluation.
    if (phi > -LAT_MAX && phi < LAT_MAX - 1) {
        const long double ref = ref_lat_to_y(phi);
        const long double step = ref_lat_to_y(phi + 1) - ref;
        const double ytan = detail::lat_to_y_with_tan(lat);
        const long double err_tan = fabsl(static_cast<long double>(y) - static_cast<long double>(ytan));
        VP_CHECK(err_tan <= 0.01L, "merc-accuracy", "lat_to_y(" << phi << ") differs from lat_to_y_with_tan by " << static_cast<double>(err_tan) << " m");
        VP_CHECK(err_tan <= step / 4, "merc-accuracy-step", "lat_to_y(" << phi << ") differs from lat_to_y_with_tan by " << static_cast<double>(err_tan) << " m, more than a quarter of the local step " << static_cast<double>(step));
        if (phi >= -780000000 && phi <= 780000000) {
            const long double err = fabsl(static_cast<long double>(y) - ref);
            VP_CHECK(err <= 0.01L, "merc-accuracy", "lat_to_y(" << phi << ") differs from the tangent formula (long double) by " << static_cast<double>(err) << " m");
            VP_CHECK(err <= step / 4, "merc-accuracy-step", "lat_to_y(" << phi << ") error " << static_cast<double>(err) << " m exceeds a quarter of the local step " << static_cast<double>(step));
        }
    }
    // --- strict monotonicity towards the next latitude (also across the +-78 degree switch)
    double ynext = y;
    if (phi < LAT_MAX) {
        ynext = detail::lat_to_y(osmium::Location::fix_to_double(static_cast<int32_t>(phi + 1)));
        VP_CHECK(ynext > y, "merc-monotone", "lat_to_y not strictly increasing at " << phi << ": " << y << " then " << ynext);
    }
    // --- tiles: in range, monotone towards the south, nested across zoom levels
    uint32_t prev_ty = 0;
    for (uint32_t z = 0; z <= 30; ++z) {
        const uint32_t ty = mercy_to_tiley(z, y);
        const uint32_t n = num_tiles_in_zoom(z);
        VP_CHECK(ty < n, "tile-range", "tile y " << ty << " out of range at zoom " << z << " for lat " << phi);
        if (phi < LAT_MAX) {
            const uint32_t ty_north = mercy_to_tiley(z, ynext);
            VP_CHECK(ty_north <= ty, "tile-monotone", "tile y decreases when moving south at zoom " << z << ": lat " << (phi + 1) << " -> " << ty_north << ", lat " << phi << " -> " << ty);
        }
        if (z > 0) {
            VP_CHECK((ty >> 1) == prev_ty, "tile-nesting", "tile y at zoom " << z << " (" << ty << ") is not inside tile at zoom " << (z - 1) << " (" << prev_ty << ") for lat " << phi);
        }
        prev_ty = ty;
    }
    if (phi == -LAT_MAX) {
        for (uint32_t z = 0; z <= 30; ++z) {
            VP_CHECK(mercy_to_tiley(z, y) == num_tiles_in_zoom(z) - 1, "tile-pole", "south pole must be in the southernmost tile at zoom " << z << ", got " << mercy_to_tiley(z, y));
        }
    }
    if (phi == LAT_MAX) {
        for (uint32_t z = 0; z <= 30; ++z) {
            VP_CHECK(mercy_to_tiley(z, y) == 0, "tile-pole", "north pole must be in the northernmost tile at zoom " << z);
        }
    }
    const int64_t a = phi < 0 ? -phi : phi;
    L.count(a > 780000000 ? "tan_branch" : "polynomial_branch");
    if (a > 850511288) L.count("beyond_web_mercator_square");
    ++L.nontrivial;
}

static void lon_check(uint64_t idx, vp::Local& L) {
    const int64_t lam = static_cast<int64_t>(idx) - LON_MAX;
    const double lon = osmium::Location::fix_to_double(static_cast<int32_t>(lam));
    const double x = detail::lon_to_x(lon);
    const long long r = llround(detail::x_to_lon(x) * 1e7);
    VP_CHECK(r == lam, "merc-roundtrip", "x_to_lon(lon_to_x(" << lam << ")) rounds to " << r);
    double xnext = x;
    if (lam < LON_MAX) {
        xnext = detail::lon_to_x(osmium::Location::fix_to_double(static_cast<int32_t>(lam + 1)));
        VP_CHECK(xnext > x, "merc-monotone", "lon_to_x not strictly increasing at " << lam);
    }
    uint32_t prev = 0;
    for (uint32_t z = 0; z <= 30; ++z) {
        const uint32_t tx = mercx_to_tilex(z, x);
        VP_CHECK(tx < num_tiles_in_zoom(z), "tile-range", "tile x " << tx << " out of range at zoom " << z << " for lon " << lam);
        if (lam < LON_MAX) {
            VP_CHECK(mercx_to_tilex(z, xnext) >= tx, "tile-monotone", "tile x decreases when moving east at zoom " << z << " lon " << lam);
        }
        if (z > 0) VP_CHECK((tx >> 1) == prev, "tile-nesting", "tile x at zoom " << z << " not inside coarser tile for lon " << lam);
        prev = tx;
    }
    if (lam == -LON_MAX) {
        for (uint32_t z = 0; z <= 30; ++z) VP_CHECK(mercx_to_tilex(z, x) == 0, "tile-edge", "lon -180 must be in tile x 0 at zoom " << z);
    }
    if (lam == LON_MAX) {
        for (uint32_t z = 0; z <= 30; ++z) VP_CHECK(mercx_to_tilex(z, x) == num_tiles_in_zoom(z) - 1, "tile-edge", "lon 180 must be in the easternmost tile at zoom " << z);
    }
    ++L.nontrivial;
}

// Tile / projection public API on (lon, lat) pairs
static const int64_t LATS[] = {-900000000, -899999999, -899906000, -899000000, -850511288, -850511287, -780000001, -780000000, -779999999, -1, 0, 1,
                               779999999, 780000000, 780000001, 850511287, 850511288, 850511289, 899000000, 899999999, 900000000, 123456789, -456789012};
static const int64_t LONS[] = {-1800000000, -1799999999, -900000000, -1, 0, 1, 900000000, 1799999999, 1800000000, 1234567890, -987654321};
constexpr uint64_t NLATS = sizeof(LATS) / sizeof(LATS[0]);
constexpr uint64_t NLONS = sizeof(LONS) / sizeof(LONS[0]);

static void api_check(uint64_t idx, vp::Local& L) {
    uint64_t i = idx;
    uint32_t z = static_cast<uint32_t>(i % 31); i /= 31;
    int64_t lam = LONS[i % NLONS]; i /= NLONS;
    int64_t phi = LATS[i % NLATS];
    osmium::Location loc{static_cast<int32_t>(lam), static_cast<int32_t>(phi)};
    MercatorProjection proj;
    Coordinates c = proj(loc);
    Coordinates c2 = lonlat_to_mercator(Coordinates{loc.lon(), loc.lat()});
    VP_CHECK(c.x == c2.x && c.y == c2.y, "merc-api", "MercatorProjection and lonlat_to_mercator disagree");
    Coordinates backc = mercator_to_lonlat(c);
    VP_CHECK(llround(backc.x * 1e7) == lam && llround(backc.y * 1e7) == phi, "merc-roundtrip", "mercator_to_lonlat(lonlat_to_mercator(" << lam << "," << phi << ")) = " << backc.x << "," << backc.y);
    Tile t{z, loc};
    VP_CHECK(t.valid(), "tile-range", "Tile(" << z << ", " << lam << "/" << phi << ") = " << t.x << "/" << t.y << " is not valid");
    Tile t2{z, c};
    VP_CHECK(t == t2, "tile-api", "Tile from location and from coordinates differ");
    if (z < 30) {
        Tile f{z + 1, loc};
        VP_CHECK((f.x >> 1) == t.x && (f.y >> 1) == t.y, "tile-nesting", "Tile at zoom " << (z + 1) << " not inside tile at zoom " << z << " for " << lam << "/" << phi);
    }
    ++L.nontrivial;
}

// Tile as a value: valid(), ==, !=, < on explicitly constructed tiles (also invalid ones); helper functions per zoom level
struct TileSpec {
    uint32_t z, x, y;
};
static const std::vector<TileSpec>& tile_grid() {
    static const std::vector<TileSpec> g = [] {
        std::vector<TileSpec> v;
        for (uint32_t z : {0U, 1U, 2U, 15U, 29U, 30U, 31U, 32U, 4294967295U}) {
            const uint64_t n = z <= 31 ? (1ULL << z) : 0;
            std::set<uint32_t> cs{0U, 1U, 2U, 4294967295U, 2147483648U, 2147483647U};
            if (z <= 31) {
                for (int64_t d = -1; d <= 1; ++d) {
                    const int64_t c = static_cast<int64_t>(n) + d;
                    if (c >= 0 && c <= 4294967295LL) cs.insert(static_cast<uint32_t>(c));
                }
            }
            for (uint32_t x : cs)
                for (uint32_t y : cs) v.push_back(TileSpec{z, x, y});
        }
        return v;
    }();
    return g;
}
// (the three-argument constructor has the precondition "valid"; the members are public, so any tile can be made by assignment)
static Tile make_tile(const TileSpec& t) {
    Tile r{0, 0, 0};
    r.z = t.z;
    r.x = t.x;
    r.y = t.y;
    return r;
}
static void tile_ops(uint64_t idx, vp::Local& L) {
    const auto& g = tile_grid();
    const TileSpec& A = g[idx / g.size()];
    const TileSpec& B = g[idx % g.size()];
    const Tile a = make_tile(A), b = make_tile(B);
    const bool want_valid = A.z <= 30 && static_cast<uint64_t>(A.x) < (1ULL << A.z) && static_cast<uint64_t>(A.y) < (1ULL << A.z);
    if (want_valid) {
        const Tile made{A.z, A.x, A.y};
        VP_CHECK(made.z == A.z && made.x == A.x && made.y == A.y && made == a, "tile-value", "Tile(z,x,y) does not store what it was given");
    }
    VP_CHECK(a.valid() == want_valid, "tile-valid", "Tile(" << A.z << "," << A.x << "," << A.y << ").valid() = " << a.valid());
    const bool same = A.z == B.z && A.x == B.x && A.y == B.y;
    VP_CHECK((a == b) == same && (a != b) == !same, "tile-equality", "Tile(" << A.z << "," << A.x << "," << A.y << ") ==/!= Tile(" << B.z << "," << B.x << "," << B.y << ") gives " << (a == b) << "/" << (a != b));
    // "an arbitrary order for use in std::map": a strict total order that agrees with ==
    VP_CHECK(!(a < a), "tile-order", "Tile < is not irreflexive");
    VP_CHECK(same ? (!(a < b) && !(b < a)) : ((a < b) != (b < a)), "tile-order", "Tile(" << A.z << "," << A.x << "," << A.y << ") < Tile(" << B.z << "," << B.x << "," << B.y << "): " << (a < b) << ", reverse: " << (b < a));
    if (a < b) {
        for (const TileSpec& C : g) {
            const Tile c = make_tile(C);
            if (b < c) VP_CHECK(a < c, "tile-order", "Tile < is not transitive: (" << A.z << "," << A.x << "," << A.y << ") < (" << B.z << "," << B.x << "," << B.y << ") < (" << C.z << "," << C.x << "," << C.y << ")");
        }
    }
    if (idx < 31) {
        const uint32_t z = static_cast<uint32_t>(idx);
        VP_CHECK(num_tiles_in_zoom(z) == (1ULL << z), "tile-count", "num_tiles_in_zoom(" << z << ") = " << num_tiles_in_zoom(z));
        const long double extent = 2.0L * 20037508.34L / static_cast<long double>(1ULL << z);
        VP_CHECK(std::fabs(static_cast<long double>(tile_extent_in_zoom(z)) - extent) <= extent * 1e-12L, "tile-extent", "tile_extent_in_zoom(" << z << ") = " << tile_extent_in_zoom(z));
        // the middle of the k-th tile lies in the k-th tile, in x and (counted from the top) in y
        for (uint64_t k : {0ULL, 1ULL, (1ULL << z) / 2, (1ULL << z) - 2, (1ULL << z) - 1}) {
            if (k >= (1ULL << z)) continue;
            const long double mid = -20037508.34L + (static_cast<long double>(k) + 0.5L) * extent;
            VP_CHECK(mercx_to_tilex(z, static_cast<double>(mid)) == k, "tile-index", "mercx_to_tilex(" << z << ", middle of tile " << k << ") = " << mercx_to_tilex(z, static_cast<double>(mid)));
            VP_CHECK(mercy_to_tiley(z, static_cast<double>(-mid)) == k, "tile-index", "mercy_to_tiley(" << z << ", middle of tile " << k << " from the top) = " << mercy_to_tiley(z, static_cast<double>(-mid)));
        }
    }
    L.count(want_valid ? "valid_tile" : "invalid_tile");
    ++L.nontrivial;
}

static void add_window(std::vector<uint64_t>& v, int64_t centre, int64_t offset, int64_t max, int64_t w) {
    for (int64_t d = -w; d <= w; ++d) {
        int64_t p = centre + d;
        if (p < -max || p > max) continue;
        v.push_back(static_cast<uint64_t>(p + offset));
    }
}

int main(int argc, char** argv) {
    vp::parse_args(argc, argv);
    std::vector<vp::Sub> subs;
    {
        vp::Sub s;
        s.name = "lat";
        s.domain = 2 * LAT_MAX + 1;
        s.quick_stride = 997;
        for (int64_t c : {0LL, 780000000LL, -780000000LL, 850511288LL, -850511288LL, 899900000LL, -899900000LL, 899906000LL, -899906000LL, 900000000LL, -900000000LL, 450000000LL, -450000000LL}) {
            add_window(s.always, c, LAT_MAX, LAT_MAX, 2000);
        }
        s.fn = lat_check;
        s.show = show_lat;
        s.block = 1 << 14;
        subs.push_back(s);
    }
    {
        vp::Sub s;
        s.name = "lon";
        s.domain = 2 * LON_MAX + 1;
        s.quick_stride = 4999;
        for (int64_t c : {0LL, 1800000000LL, -1800000000LL, 900000000LL, -900000000LL}) add_window(s.always, c, LON_MAX, LON_MAX, 2000);
        s.fn = lon_check;
        s.show = show_lon;
        s.block = 1 << 14;
        subs.push_back(s);
    }
    {
        vp::Sub s;
        s.name = "api";
        s.domain = NLATS * NLONS * 31;
        s.fn = api_check;
        s.show = [](uint64_t i) {
            uint64_t k = i;
            uint32_t z = static_cast<uint32_t>(k % 31); k /= 31;
            int64_t lam = LONS[k % NLONS]; k /= NLONS;
            return "zoom=" + std::to_string(z) + " lon_fix=" + std::to_string(lam) + " lat_fix=" + std::to_string(LATS[k % NLATS]);
        };
        s.block = 64;
        subs.push_back(s);
    }
    {
        vp::Sub s;
        s.name = "tile_ops";
        s.domain = tile_grid().size() * tile_grid().size();
        s.fn = tile_ops;
        s.show = [](uint64_t i) {
            const auto& g = tile_grid();
            const TileSpec& A = g[i / g.size()];
            const TileSpec& B = g[i % g.size()];
            return "Tile(" + std::to_string(A.z) + "," + std::to_string(A.x) + "," + std::to_string(A.y) + ") and Tile(" + std::to_string(B.z) + "," + std::to_string(B.x) + "," + std::to_string(B.y) + ")";
        };
        s.block = 256;
        subs.push_back(s);
    }
    return vp::run_enum(subs,
                        "enumeration: every fixed-point latitude in [-90,90] (1.8e9+1 values; quick: stride 997 + windows of +-2000 steps around 0, +-45, +-78, "
                        "+-85.0511288, +-89.99, +-90) and every fixed-point longitude in [-180,180] (quick: stride 4999 + windows), each at zoom 0..30; "
                        "public Tile/MercatorProjection API on a boundary grid; Tile as a value (valid(), ==, !=, < as a strict total order) on all pairs and triples of a grid of valid and invalid tiles, num_tiles_in_zoom/tile_extent_in_zoom/tile index of tile centres per zoom. Oracle: long double tangent formula, exact neighbour comparison. "
                        "non-trivial = every enumerated coordinate (distinct by construction)");
}
