// pbfcheck.hpp -- independent check of a PBF file against the format's limits (no libosmium, no protozero):
// BlobHeader <= 64 KiB, Blob message and raw_size <= 32 MiB, declared raw_size == inflated size, <= 8000 entities per block,
// first blob OSMHeader, all others OSMData, nothing left over at the end of the file.
#pragma once

#include <cstdint>
#include <cstring>
#include <string>
#include <vector>
#include <zlib.h>
#ifdef OSMIUM_WITH_LZ4
#include <lz4.h>
#endif

namespace pbfcheck {

struct Rd {
    const unsigned char* p;
    const unsigned char* e;
    bool ok = true;
    Rd(const char* d, size_t n) : p(reinterpret_cast<const unsigned char*>(d)), e(p + n) {}
    bool done() const { return p >= e || !ok; }
    uint64_t varint() {
        uint64_t v = 0;
        int sh = 0;
        while (p < e && sh < 70) {
            unsigned char c = *p++;
            v |= static_cast<uint64_t>(c & 0x7f) << sh;
            sh += 7;
            if (!(c & 0x80)) return v;
        }
        ok = false;
        return 0;
    }
    // reads one field; for length-delimited fields `sub` is the payload
    bool field(uint32_t& num, uint32_t& wt, uint64_t& val, std::pair<const char*, size_t>& sub) {
        uint64_t key = varint();
        if (!ok) return false;
        num = static_cast<uint32_t>(key >> 3);
        wt = static_cast<uint32_t>(key & 7);
        switch (wt) {
            case 0: val = varint(); return ok;
            case 1: if (e - p < 8) { ok = false; return false; } p += 8; return true;
            case 5: if (e - p < 4) { ok = false; return false; } p += 4; return true;
            case 2: {
                uint64_t n = varint();
                if (!ok || n > static_cast<uint64_t>(e - p)) { ok = false; return false; }
                sub = {reinterpret_cast<const char*>(p), static_cast<size_t>(n)};
                p += n;
                return true;
            }
            default: ok = false; return false;
        }
    }
};

struct Report {
    size_t blobs = 0, max_header = 0, max_blob = 0, max_raw = 0, max_entities = 0;
    std::string error;  // empty = within the limits
};

inline size_t count_varints(const char* d, size_t n) {
    size_t c = 0;
    for (size_t i = 0; i < n; ++i)
        if (!(static_cast<unsigned char>(d[i]) & 0x80)) ++c;
    return c;
}

inline Report check(const std::string& file) {
    Report r;
    size_t pos = 0;
    auto fail = [&](const std::string& m) {
        if (r.error.empty()) r.error = m + " (blob #" + std::to_string(r.blobs) + " at offset " + std::to_string(pos) + ")";
        return r;
    };
    while (pos < file.size()) {
        if (file.size() - pos < 4) return fail("trailing bytes at the end of the file");
        size_t hl = (static_cast<unsigned char>(file[pos]) << 24) | (static_cast<unsigned char>(file[pos + 1]) << 16) | (static_cast<unsigned char>(file[pos + 2]) << 8) | static_cast<unsigned char>(file[pos + 3]);
        pos += 4;
        if (hl > 64 * 1024) return fail("BlobHeader of " + std::to_string(hl) + " bytes exceeds 64 KiB");
        if (hl > file.size() - pos) return fail("BlobHeader runs past the end of the file");
        r.max_header = std::max(r.max_header, hl);
        std::string type;
        uint64_t datasize = 0;
        {
            Rd h{file.data() + pos, hl};
            while (!h.done()) {
                uint32_t num, wt;
                uint64_t val = 0;
                std::pair<const char*, size_t> sub{nullptr, 0};
                if (!h.field(num, wt, val, sub)) return fail("BlobHeader is not a valid message");
                if (num == 1 && wt == 2) type.assign(sub.first, sub.second);
                if (num == 3 && wt == 0) datasize = val;
            }
        }
        pos += hl;
        if (type != (r.blobs == 0 ? "OSMHeader" : "OSMData")) return fail("blob type '" + type + "'");
        if (datasize == 0 || datasize > 32ULL * 1024 * 1024) return fail("Blob of " + std::to_string(datasize) + " bytes exceeds 32 MiB (or is empty)");
        if (datasize > file.size() - pos) return fail("Blob runs past the end of the file");
        r.max_blob = std::max<size_t>(r.max_blob, datasize);
        std::string raw;
        {
            Rd b{file.data() + pos, static_cast<size_t>(datasize)};
            uint64_t raw_size = 0;
            std::pair<const char*, size_t> zdata{nullptr, 0}, lzdata{nullptr, 0}, rawdata{nullptr, 0};
            bool has_raw = false;
            while (!b.done()) {
                uint32_t num, wt;
                uint64_t val = 0;
                std::pair<const char*, size_t> sub{nullptr, 0};
                if (!b.field(num, wt, val, sub)) return fail("Blob is not a valid message");
                if (num == 1 && wt == 2) { rawdata = sub; has_raw = true; }
                if (num == 2 && wt == 0) raw_size = val;
                if (num == 3 && wt == 2) zdata = sub;
                if (num == 6 && wt == 2) lzdata = sub;
            }
            if (has_raw) {
                raw.assign(rawdata.first, rawdata.second);
                if (raw_size != 0 && raw_size != raw.size()) return fail("raw_size " + std::to_string(raw_size) + " but " + std::to_string(raw.size()) + " raw bytes");
            } else {
                if (raw_size == 0 || raw_size > 32ULL * 1024 * 1024) return fail("raw_size " + std::to_string(raw_size) + " exceeds 32 MiB (or is missing)");
                raw.resize(static_cast<size_t>(raw_size));
                if (zdata.first) {
                    uLongf n = static_cast<uLongf>(raw.size());
                    int rc = uncompress(reinterpret_cast<Bytef*>(&raw[0]), &n, reinterpret_cast<const Bytef*>(zdata.first), static_cast<uLong>(zdata.second));
                    if (rc != Z_OK || n != raw.size()) return fail("zlib data does not inflate to the declared raw_size " + std::to_string(raw_size));
#ifdef OSMIUM_WITH_LZ4
                } else if (lzdata.first) {
                    int n = LZ4_decompress_safe(lzdata.first, &raw[0], static_cast<int>(lzdata.second), static_cast<int>(raw.size()));
                    if (n < 0 || static_cast<size_t>(n) != raw.size()) return fail("lz4 data does not decompress to the declared raw_size " + std::to_string(raw_size));
#endif
                } else {
                    return fail("blob without data");
                }
            }
        }
        r.max_raw = std::max(r.max_raw, raw.size());
        if (raw.size() > 32ULL * 1024 * 1024) return fail("uncompressed block of " + std::to_string(raw.size()) + " bytes exceeds 32 MiB");
        if (r.blobs > 0) {
            size_t entities = 0;
            Rd blk{raw.data(), raw.size()};
            while (!blk.done()) {
                uint32_t num, wt;
                uint64_t val = 0;
                std::pair<const char*, size_t> sub{nullptr, 0};
                if (!blk.field(num, wt, val, sub)) return fail("PrimitiveBlock is not a valid message");
                if (num == 2 && wt == 2) {
                    Rd g{sub.first, sub.second};
                    while (!g.done()) {
                        uint32_t n2, w2;
                        uint64_t v2 = 0;
                        std::pair<const char*, size_t> s2{nullptr, 0};
                        if (!g.field(n2, w2, v2, s2)) return fail("PrimitiveGroup is not a valid message");
                        if (w2 != 2) continue;
                        if (n2 == 1 || n2 == 3 || n2 == 4) ++entities;
                        if (n2 == 2) {
                            Rd dn{s2.first, s2.second};
                            while (!dn.done()) {
                                uint32_t n3, w3;
                                uint64_t v3 = 0;
                                std::pair<const char*, size_t> s3{nullptr, 0};
                                if (!dn.field(n3, w3, v3, s3)) return fail("DenseNodes is not a valid message");
                                if (n3 == 1 && w3 == 2) entities += count_varints(s3.first, s3.second);
                            }
                        }
                    }
                }
            }
            r.max_entities = std::max(r.max_entities, entities);
            if (entities > 8000) return fail("block with " + std::to_string(entities) + " entities (limit 8000)");
        }
        pos += static_cast<size_t>(datasize);
        ++r.blobs;
    }
    if (r.blobs == 0) return fail("no blobs");
    return r;
}

}  // namespace pbfcheck
