// pipefeed.hpp -- deliver a byte string through a pipe in planned pieces: the writer thread writes one piece, waits until the reader
// has taken it out of the pipe, then writes the next one. A reader that calls read(2) with a larger buffer therefore sees exactly the
// planned short reads (what happens with stdin, FIFOs and sockets), and end of file only when the writer has closed its end.
#pragma once

#include <atomic>
#include <cerrno>
#include <chrono>
#include <csignal>
#include <cstring>
#include <string>
#include <thread>
#include <vector>

#include <fcntl.h>
#include <poll.h>
#include <sys/ioctl.h>
#include <unistd.h>

namespace pipefeed {

class Feed {
    int m_rd = -1;
    int m_wr = -1;
    std::thread m_thread;
    std::atomic<size_t> m_pieces{0};
    std::atomic<bool> m_broken{false};
    std::atomic<bool> m_stop{false};

    bool write_all(int fd, const char* p, size_t n) {
        while (n > 0) {
            ssize_t w = ::write(fd, p, n);
            if (w < 0) {
                if (errno == EINTR) continue;
                if (errno == EAGAIN) {  // pipe full: wait for the reader, give up when the test is over
                    if (m_stop.load()) return false;
                    struct pollfd pf {fd, POLLOUT, 0};
                    ::poll(&pf, 1, 10);
                    continue;
                }
                return false;  // EPIPE: the reader closed its end
            }
            p += w;
            n -= static_cast<size_t>(w);
        }
        return true;
    }

    void run(std::string bytes, std::vector<size_t> plan) {
        size_t pos = 0, k = 0;
        while (pos < bytes.size()) {
            size_t n = k < plan.size() ? plan[k++] : bytes.size() - pos;
            if (n == 0) n = 1;
            n = std::min(n, bytes.size() - pos);
            if (!write_all(m_wr, bytes.data() + pos, n)) {
                m_broken = true;
                break;
            }
            pos += n;
            ++m_pieces;
            // wait until the reader has emptied the pipe (or gone away: the next write then fails with EPIPE)
            for (int spin = 0;; ++spin) {
                int pending = 0;
                if (::ioctl(m_wr, FIONREAD, &pending) != 0 || pending == 0 || m_stop.load()) break;
                if (spin < 50) std::this_thread::yield();
                else std::this_thread::sleep_for(std::chrono::microseconds(50));
                if (spin > 400000) break;  // ~20 s: the reader does not read any more; go on writing (blocks or EPIPE), never a verdict
            }
        }
        ::close(m_wr);
        m_wr = -1;
    }

  public:
    // the caller owns read_fd() until it hands it to the code under test (which closes it)
    Feed(const std::string& bytes, const std::vector<size_t>& plan) {
        static const bool ignored = (::signal(SIGPIPE, SIG_IGN), true);
        (void)ignored;
        int fds[2];
        if (::pipe(fds) != 0) std::abort();
        m_rd = fds[0];
        m_wr = fds[1];
        ::fcntl(m_wr, F_SETFL, ::fcntl(m_wr, F_GETFL) | O_NONBLOCK);
        m_thread = std::thread{[this, bytes, plan] { run(bytes, plan); }};
    }
    Feed(const Feed&) = delete;
    Feed& operator=(const Feed&) = delete;
    int read_fd() const { return m_rd; }
    size_t pieces() const { return m_pieces.load(); }
    bool reader_went_away() const { return m_broken.load(); }
    // call after the reading side is done (it has closed its fd, or at least will not read any more)
    void join() {
        m_stop = true;
        if (m_thread.joinable()) m_thread.join();
    }
    ~Feed() { join(); }
};

}  // namespace pipefeed
