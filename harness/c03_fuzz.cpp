// C03 (coverage-guided part): libFuzzer targets. -DC03_FORMAT="\"osm\"" etc. selects the byte-level target for one format;
// -DC03_STRUCTURED makes the fuzz bytes drive the harness encoders and a mutation program (deep states within seconds).
#include "filegen.hpp"
#include "traverse.hpp"

#include <osmium/io/bzip2_compression.hpp>
#include <osmium/io/gzip_compression.hpp>

static osmium::thread::Pool& pool() {
    static osmium::thread::Pool p{1, 16};
    return p;
}

static uint64_t g_runs = 0, g_objects = 0, g_exceptions = 0, g_delivered = 0;
static void print_stats() {
    std::fprintf(stderr, "VPFUZZ-STAT runs=%llu\nVPFUZZ-STAT inputs_that_delivered_objects=%llu\nVPFUZZ-STAT objects=%llu\nVPFUZZ-STAT clean_exceptions=%llu\n", static_cast<unsigned long long>(g_runs),
                 static_cast<unsigned long long>(g_delivered), static_cast<unsigned long long>(g_objects), static_cast<unsigned long long>(g_exceptions));
}

static void run(const char* data, size_t size, const std::string& format) {
    static bool reg = (std::atexit(print_stats), true);
    (void)reg;
    traverse::Outcome o = traverse::read_bytes(data, size, format, pool());
    ++g_runs;
    g_objects += o.objects;
    if (o.objects) ++g_delivered;
    if (o.threw || o.header_threw) ++g_exceptions;
    if (!o.layout_error.empty()) {
        std::fprintf(stderr, "VPFUZZ-ORACLE sig=malformed-object-delivered msg=%s (format %s)\n", o.layout_error.c_str(), format.c_str());
        print_stats();
        __builtin_trap();
    }
}

extern "C" int LLVMFuzzerTestOneInput(const uint8_t* data, size_t size) {
#ifdef C03_STRUCTURED
    vp::Src s{data, size};
    const int fmt = static_cast<int>(s.draw(4));
    enc::PbfEncoder::Hostile hostile;
    const bool use_hostile = fmt == 0 && s.boolean();  // PBF: well-formed protobuf, inconsistent in one place
    if (use_hostile) hostile = filegen::gen_hostile(s);
    const bool use_hostile_o5m = fmt == 1 && s.boolean();  // o5m: well-formed varints and strings, one object inconsistent
    filegen::Made m = filegen::small_file(s, fmt, 5, true, use_hostile_o5m ? 1 : 0, use_hostile ? &hostile : nullptr, use_hostile_o5m);
    std::string b = m.bytes;
    size_t steps = s.draw(4);
    for (size_t i = 0; i < steps; ++i) filegen::mutate(s, b);
    if (b.size() > 200000) return 0;
    run(b.data(), b.size(), m.format);
#else
#define C03_STR2(x) #x
#define C03_STR(x) C03_STR2(x)
    run(reinterpret_cast<const char*>(data), size, C03_STR(C03_FORMAT));
#endif
    return 0;
}
