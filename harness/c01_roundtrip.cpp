// C01: write-then-read round trip is lossless for every format and writer option.
#include "tmpdir.hpp"
#include "gen.hpp"
#include "pbfcheck.hpp"

#include <osmium/io/any_input.hpp>
#include <osmium/io/any_output.hpp>
#include <osmium/io/header.hpp>
#include <osmium/io/reader.hpp>
#include <osmium/io/writer.hpp>
#include <osmium/thread/pool.hpp>

#include <unistd.h>

using model::Obj;

enum Fmt { F_PBF = 0, F_XML = 1, F_OSC = 2, F_OPL = 3 };
static const char* const FMT_NAME[] = {"pbf", "xml", "osc", "opl"};

struct Opts {
    int fmt = F_PBF;
    bool history = false;
    bool dense = true;
    int pbf_compression = 1;  // 0 none 1 zlib 2 lz4
    int pbf_level = -1;       // -1 default
    unsigned md = 31;         // bit mask version,timestamp,changeset,uid,user
    int md_word = -1;         // -1 use mask; 0 "all" 1 "none" 2 "true" 3 "false" 4 "" (not set)
    bool low = false;         // locations_on_ways
    bool force_visible = false;
    int filecomp = 0;         // 0 none 1 gzip 2 bzip2
    int pool = 1;
    int handover = 0;         // 0 items one by one, 1 one buffer, 2 several buffers, 3 small writer buffer + explicit flushes
    bool read_from_buffer = false;
};

static std::string md_string(unsigned md) {
    static const char* names[] = {"version", "timestamp", "changeset", "uid", "user"};
    if (md == 0) return "none";
    std::string s;
    for (int i = 0; i < 5; ++i) {
        if (md & (1u << i)) {
            if (!s.empty()) s += "+";
            s += names[i];
        }
    }
    return s;
}

static unsigned effective_md(const Opts& o) {
    switch (o.md_word) {
        case 0: case 2: case 4: return 31;
        case 1: case 3: return 0;
        default: return o.md;
    }
}

static std::string format_string(const Opts& o, bool for_writer) {
    std::string f;
    switch (o.fmt) {
        case F_PBF: f = o.history ? "osh.pbf" : "osm.pbf"; break;
        case F_XML: f = o.history ? "osh.xml" : "osm.xml"; break;
        case F_OSC: f = "osc"; break;
        default: f = o.history ? "osh.opl" : "osm.opl"; break;
    }
    if (o.filecomp == 1) f += ".gz";
    if (o.filecomp == 2) f += ".bz2";
    if (!for_writer) return f;
    if (o.fmt == F_PBF) {
        if (!o.dense) f += ",pbf_dense_nodes=false";
        static const char* comp[] = {"none", "zlib", "lz4"};
        if (o.pbf_compression != 1 || o.pbf_level >= 0) f += std::string{",pbf_compression="} + comp[o.pbf_compression];
        if (o.pbf_level >= 0 && o.pbf_compression != 0) f += ",pbf_compression_level=" + std::to_string(o.pbf_level);
    }
    switch (o.md_word) {
        case 0: f += ",add_metadata=all"; break;
        case 1: f += ",add_metadata=none"; break;
        case 2: f += ",add_metadata=true"; break;
        case 3: f += ",add_metadata=false"; break;
        case 4: break;
        default: f += ",add_metadata=" + md_string(o.md); break;
    }
    if (o.low) f += ",locations_on_ways=true";
    if (o.force_visible) f += ",force_visible_flag=true";
    return f;
}

static Opts gen_opts(vp::Src& s) {
    Opts o;
    o.fmt = static_cast<int>(s.draw(4));
    o.history = o.fmt == F_OSC ? true : s.chance(1, 3);
    o.dense = !s.chance(1, 3);
    o.pbf_compression = static_cast<int>(s.weighted({2, 3, 2}));
    if (o.pbf_compression == 1 && s.chance(1, 3)) o.pbf_level = static_cast<int>(s.draw(10));
    if (o.pbf_compression == 2 && s.chance(1, 3)) o.pbf_level = 1 + static_cast<int>(s.draw(12));
    if (s.chance(1, 2)) {
        o.md_word = static_cast<int>(s.draw(5));
    } else {
        o.md = static_cast<unsigned>(s.draw(32));
    }
    o.low = s.chance(1, 3);
    o.force_visible = s.chance(1, 5);
    o.filecomp = o.fmt == F_PBF ? 0 : static_cast<int>(s.weighted({3, 1, 1}));
    o.pool = 1 + static_cast<int>(s.weighted({3, 1, 1, 1}) == 0 ? 0 : s.draw(8));
    o.handover = static_cast<int>(s.draw(4));
    o.read_from_buffer = s.chance(1, 3);
    return o;
}

static std::string show_opts(const Opts& o) {
    return std::string{"format="} + format_string(o, true) + " pool=" + std::to_string(o.pool) + " handover=" + std::to_string(o.handover) + (o.read_from_buffer ? " read=buffer" : " read=file");
}

// what the format + options carry: the harness's statement of the projection
static Obj project(const Obj& in, const Opts& o) {
    Obj x = in;
    if (x.type == model::CHANGESET) {
        if (o.fmt == F_OPL) {
            x.comments.clear();  // OPL has no discussions (generator does not produce them for OPL either)
        }
        return x;
    }
    const unsigned md = effective_md(o);
    if (!(md & 1)) x.version = 0;
    if (!(md & 2)) x.ts = 0;
    if (!(md & 4)) x.cs = 0;
    if (!(md & 8)) x.uid = 0;
    if (!(md & 16)) x.user.clear();
    // visibility
    const bool writes_visible = (o.fmt == F_OSC) || o.history || (o.fmt == F_XML && o.force_visible);
    if (!writes_visible) x.visible = true;
    if (o.fmt == F_OPL && md == 0) x.visible = true;  // OPL writes the visible flag as part of the metadata block
    if (x.type == model::WAY && !o.low) {
        for (auto& r : x.refs) r.loc = model::Loc{};
    }
    return x;
}

struct HeaderModel {
    std::string generator;
    std::vector<std::pair<model::Loc, model::Loc>> boxes;
};

static std::string tmp_path(const Opts& o) {
    static const std::string base = tmpdir::prefix() + "c01-" + std::to_string(getpid());
    (void)o;
    return base;
}

static std::string slurp(const std::string& path) {
    std::ifstream f(path, std::ios::binary);
    return std::string((std::istreambuf_iterator<char>(f)), std::istreambuf_iterator<char>());
}

struct Plan {
    Opts o;
    std::vector<Obj> data;
    HeaderModel hm;
    size_t buffer_extra = 0;          // handover 3: writer buffer = largest item + this
    std::vector<size_t> chunk_sizes;  // handover 2: objects per buffer
};

static std::string describe_plan(const Plan& p) {
    const Opts& o = p.o;
    std::string d = show_opts(o) + " header.generator=" + model::brief(p.hm.generator) + " boxes=" + std::to_string(p.hm.boxes.size()) + " objects=" + std::to_string(p.data.size());
    const bool full = std::getenv("VERIF_FULL") != nullptr;
    for (size_t i = 0; i < p.data.size() && (full || i < 6); ++i) d += "\n  " + model::show(p.data[i], full);
    return d;
}

static void execute(const Plan& p) {
    const Opts& o = p.o;
    const std::vector<Obj>& data = p.data;
    const HeaderModel& hm = p.hm;
    // --- write
    const std::string path = tmp_path(o);
    ::unlink(path.c_str());
    osmium::io::Header header;
    header.set("generator", hm.generator);
    for (const auto& b : hm.boxes) header.add_box(osmium::Box{model::to_location(b.first), model::to_location(b.second)});
    bool writer_threw = false;
    std::string writer_msg;
    try {
        osmium::io::File file{path, format_string(o, true)};
        osmium::io::Writer writer{file, header, osmium::io::overwrite::allow};
        switch (o.handover) {
            case 0:
            case 3: {
                osmium::memory::Buffer buf{1024, osmium::memory::Buffer::auto_grow::yes};
                std::vector<size_t> offs;
                for (const auto& x : data) {
                    offs.push_back(buf.committed());
                    model::add_to_buffer(buf, x);
                }
                if (o.handover == 3) {
                    // a buffer smaller than the largest single object is a reported user error ("buffer is full"), so stay above it
                    size_t largest = 64;
                    for (size_t off : offs) largest = std::max<size_t>(largest, buf.get<osmium::memory::Item>(off).padded_size());
                    writer.set_buffer_size(largest + p.buffer_extra);
                }
                size_t k = 0;
                for (size_t off : offs) {
                    writer(buf.get<osmium::memory::Item>(off));
                    if (o.handover == 3 && (++k % 3) == 0) writer.flush();
                }
                break;
            }
            case 1: {
                osmium::memory::Buffer buf{1024, osmium::memory::Buffer::auto_grow::yes};
                for (const auto& x : data) model::add_to_buffer(buf, x);
                writer(std::move(buf));
                break;
            }
            default: {
                size_t i = 0, c = 0;
                while (i < data.size()) {
                    osmium::memory::Buffer buf{256, osmium::memory::Buffer::auto_grow::yes};
                    size_t k = p.chunk_sizes.empty() ? 3 : p.chunk_sizes[c++ % p.chunk_sizes.size()];
                    for (; k > 0 && i < data.size(); --k, ++i) model::add_to_buffer(buf, data[i]);
                    writer(std::move(buf));
                }
                break;
            }
        }
        writer.close();
    } catch (const std::exception& e) {
        writer_threw = true;
        writer_msg = e.what();
    }
    vp::count(std::string{"fmt_"} + FMT_NAME[o.fmt]);
    if (writer_threw) {
        ::unlink(path.c_str());
        // every generated value is inside the format's domain, so the Writer has no reason to report an error
        vp::fail("writer-threw", "Writer reported an error for data inside the format's domain: " + writer_msg + " | " + show_opts(o));
    }

    // --- second oracle on the bytes: the file is within the format's own limits (independent framing parser)
    if (o.fmt == F_PBF) {
        pbfcheck::Report rep = pbfcheck::check(slurp(path));
        if (!rep.error.empty()) {
            ::unlink(path.c_str());
            vp::fail("pbf-outside-format-limits", "the Writer produced a PBF file without error that is outside the format's limits: " + rep.error + " | " + show_opts(o));
        }
        vp::count("pbf_files_checked_against_limits");
        if (rep.max_entities >= 7999) vp::count("pbf_block_with_7999_or_more_entities");
        if (rep.max_raw > 16 * 1024 * 1024) vp::count("pbf_block_over_16MiB");
    }
    // --- read back
    std::vector<Obj> got;
    std::string got_generator;
    std::vector<std::pair<model::Loc, model::Loc>> got_boxes;
    std::string filedata;
    try {
        osmium::thread::Pool pool{o.pool, 8};
        if (o.read_from_buffer) filedata = slurp(path);
        osmium::io::File rfile = o.read_from_buffer ? osmium::io::File{filedata.data(), filedata.size(), format_string(o, false)} : osmium::io::File{path, format_string(o, false)};
        osmium::io::Reader reader{rfile, osmium::osm_entity_bits::all, pool};
        osmium::io::Header h = reader.header();
        got_generator = h.get("generator");
        for (const auto& b : h.boxes()) got_boxes.emplace_back(model::from_location(b.bottom_left()), model::from_location(b.top_right()));
        while (osmium::memory::Buffer buf = reader.read()) {
            for (auto& x : model::from_buffer(buf)) got.push_back(std::move(x));
        }
        reader.close();
    } catch (const std::exception& e) {
        ::unlink(path.c_str());
        vp::fail("reader-rejects-written-file", std::string{"Reader reports an error on a file the Writer produced without error: "} + e.what() + " | " + show_opts(o));
    }
    ::unlink(path.c_str());

    // --- compare
    VP_CHECK(got.size() == data.size(), "roundtrip-count", "wrote " << data.size() << " objects, read " << got.size() << " | " << show_opts(o));
    for (size_t i = 0; i < data.size(); ++i) {
        Obj want = project(data[i], o);
        if (got[i] != want) {
            vp::fail(std::string{"roundtrip-"} + FMT_NAME[o.fmt], "object #" + std::to_string(i) + " differs (" + model::diff(want, got[i]) + ") expected/got | " + show_opts(o) + "\n  wrote: " + model::show(data[i]) +
                                                                 "\n  want : " + model::show(want) + "\n  got  : " + model::show(got[i]));
        }
    }
    // header
    if (o.fmt != F_OPL) {
        VP_CHECK(got_generator == hm.generator, "roundtrip-header-generator", "generator " << model::brief(hm.generator) << " came back as " << model::brief(got_generator) << " | " << show_opts(o));
        if (o.fmt == F_PBF) {
            if (hm.boxes.empty()) {
                VP_CHECK(got_boxes.empty(), "roundtrip-header-box", "box appeared");
            } else {
                model::Loc bl = hm.boxes[0].first, tr = hm.boxes[0].second;
                for (const auto& b : hm.boxes) {
                    bl.x = std::min(bl.x, b.first.x);
                    bl.y = std::min(bl.y, b.first.y);
                    tr.x = std::max(tr.x, b.second.x);
                    tr.y = std::max(tr.y, b.second.y);
                }
                VP_CHECK(got_boxes.size() == 1, "roundtrip-header-box", "expected the joined box, got " << got_boxes.size() << " boxes");
                VP_CHECK(got_boxes[0].first == bl && got_boxes[0].second == tr, "roundtrip-header-box",
                         "joined box " << model::show_loc(bl) << "," << model::show_loc(tr) << " came back as " << model::show_loc(got_boxes[0].first) << "," << model::show_loc(got_boxes[0].second));
            }
        } else {
            VP_CHECK(got_boxes == hm.boxes, "roundtrip-header-box", "header boxes differ: wrote " << hm.boxes.size() << " read " << got_boxes.size()
                                                                                                   << (got_boxes.empty() || hm.boxes.empty() ? std::string{} : " first: " + model::show_loc(hm.boxes[0].first) + "," + model::show_loc(hm.boxes[0].second) + " vs " + model::show_loc(got_boxes[0].first) + "," + model::show_loc(got_boxes[0].second))
                                                                                                   << " | " << show_opts(o));
        }
    }
}

// Block-boundary cases: many objects of one type (the 8000-entities-per-block limit) and string- or tag-heavy blocks (the 32 MiB
// blob limit). Built from few choices; the content is derived from a counter so that the case stays cheap to describe and shrink.
static void prop_block_boundary(vp::Src& s) {
    Plan p;
    p.o = gen_opts(s);
    p.o.fmt = F_PBF;
    p.o.filecomp = 0;
    p.o.handover = 1 + static_cast<int>(s.draw(2));
    p.hm.generator = "g";
    for (int i = 0; i < 8; ++i) p.chunk_sizes.push_back(500 + s.draw(3000));
    const int shape = static_cast<int>(s.weighted({3, 3, 2}));
    const int type = shape == 2 ? model::NODE : static_cast<int>(s.draw(3));
    size_t n, ntags, len;
    if (shape == 0) {  // entity count boundary
        static const size_t counts[] = {7999, 8000, 8001, 15999, 16000, 16001};
        n = counts[s.draw(6)];
        ntags = s.draw(2);
        len = 3;
    } else if (shape == 1) {  // long unique strings: 8 .. 45 MB of string data
        len = 600 + s.draw(425);
        ntags = 1 + s.draw(6);
        size_t total = (8 + s.draw(38)) * 1024 * 1024;
        n = std::min<size_t>(9000, total / (ntags * len) + 1);
    } else {  // nodes with very many short tags (dense node tag arrays)
        n = 2000 + s.draw(6500);
        ntags = 100 + s.draw(600);
        len = 2;
    }
    uint64_t counter = s.draw(1000);
    for (size_t i = 0; i < n; ++i) {
        Obj x;
        x.type = type;
        x.id = static_cast<int64_t>(i + 1);
        x.version = 1;
        x.ts = 1000;
        x.cs = 1;
        x.uid = 1;
        x.user = "u";
        if (type == model::NODE) x.loc = model::Loc{static_cast<int32_t>(i), 7};
        if (type == model::WAY) x.refs.push_back(model::NodeRef{static_cast<int64_t>(i), model::Loc{}});
        if (type == model::RELATION) x.members.push_back(model::Member{0, static_cast<int64_t>(i), "r", {}});
        for (size_t t = 0; t < ntags; ++t) {
            std::string v = std::to_string(shape == 2 ? (counter++ % 50) : counter++);
            if (v.size() < len && shape == 1) v.resize(len, 'x');
            x.tags.push_back(model::Tag{"k" + std::to_string(t % 100), v});
        }
        p.data.push_back(std::move(x));
    }
    if (vp::want_desc()) vp::describe("block boundary: " + std::to_string(n) + " objects of type " + std::to_string(type) + " with " + std::to_string(ntags) + " tags of " + std::to_string(len) + " bytes | " + show_opts(p.o));
    execute(p);
    vp::count("block_boundary_cases");
    vp::count(shape == 0 ? "block_boundary_entity_count" : shape == 1 ? "block_boundary_string_bytes" : "block_boundary_dense_tags");
    vp::nontrivial(vp::hash_str(show_opts(p.o)) ^ (n * 1000003 + ntags * 101 + len));
}

static void prop(vp::Src& s) {
    if (s.chance(1, vp::opts().tier == "thorough" ? 150 : 250)) {
        prop_block_boundary(s);
        return;
    }
    Plan p;
    p.o = gen_opts(s);
    const Opts& o = p.o;
    gen::ObjOpts go;
    go.strmode = (o.fmt == F_XML || o.fmt == F_OSC) ? gen::StrMode::xml10 : gen::StrMode::any_utf8;
    go.allow_invisible = o.history;
    go.valid_locations_only = (o.fmt == F_OPL);
    go.ref_locations = true;
    go.allow_changesets = (o.fmt == F_XML || o.fmt == F_OPL);
    go.allow_discussions = (o.fmt == F_XML);
    go.max_list = s.chance(1, 10) ? 300 : 12;

    std::vector<Obj>& data = p.data;
    size_t n = s.size(60);
    bool sorted = s.chance(1, 2);
    for (size_t i = 0; i < n; ++i) {
        int type = static_cast<int>(s.draw(go.allow_changesets ? 4 : 3));
        data.push_back(gen::object(s, type, go));
    }
    if (sorted) std::stable_sort(data.begin(), data.end(), [](const Obj& a, const Obj& b) { return a.type < b.type; });
    HeaderModel& hm = p.hm;
    hm.generator = gen::str(s, go.strmode, 60);
    if (hm.generator.empty()) hm.generator = "g";
    size_t nboxes = s.weighted({3, 3, 1, 1});
    for (size_t i = 0; i < nboxes; ++i) {
        model::Loc a = gen::location(s, false, true), b = gen::location(s, false, true);
        if (a.x > b.x) std::swap(a.x, b.x);
        if (a.y > b.y) std::swap(a.y, b.y);
        hm.boxes.emplace_back(a, b);
    }
    p.buffer_extra = 8 * s.draw(64);
    for (int i = 0; i < 8; ++i) p.chunk_sizes.push_back(1 + s.draw(5));

    if (vp::want_desc()) vp::describe(describe_plan(p));
    execute(p);

    // --- classification
    bool rich = false;
    for (const auto& x : data)
        if (!x.tags.empty() || !x.refs.empty() || !x.members.empty()) rich = true;
    bool nondefault = o.history || !o.dense || o.pbf_compression != 1 || effective_md(o) != 31 || o.low || o.force_visible || o.filecomp != 0 || o.pool != 1;
    if (rich && nondefault) {
        uint64_t h = vp::hash_str(show_opts(o));
        for (const auto& x : data) h = vp::mix64(h ^ model::hash(x));
        vp::nontrivial(h);
    }
    vp::count(std::string{"md_"} + (effective_md(o) == 31 ? "all" : effective_md(o) == 0 ? "none" : "subset"));
    if (o.filecomp) vp::count(o.filecomp == 1 ? "file_gzip" : "file_bzip2");
    if (o.fmt == F_PBF) vp::count(std::string{"pbf_"} + (o.dense ? "dense" : "plain") + "_comp" + std::to_string(o.pbf_compression));
    if (o.low) vp::count("locations_on_ways");
    if (o.history) vp::count("history");
}

// ---------------------------------------------------------------- regression scenarios (witnesses of fixed findings)

static Obj simple_node(int64_t id) {
    Obj n;
    n.type = model::NODE;
    n.id = id;
    n.version = 1;
    n.ts = 1000;
    n.cs = 5;
    n.uid = 7;
    n.user = "u";
    n.loc = model::Loc{10, 20};
    return n;
}

VP_BUILTIN(F01_pbf_header_bbox) {
    // header box corners that are not exactly representable as double * 1e9
    const int32_t xs[] = {2, 1618595916, -678065281, -899554953, 123456789, 1799999999, -1799999999, 7, 899999999};
    for (int32_t a : xs)
        for (int32_t b : xs) {
            Plan p;
            p.o.fmt = F_PBF;
            p.hm.generator = "g";
            model::Loc bl{std::min(a, b), std::max(-900000000, std::min(a, b) / 2)}, tr{std::max(a, b), std::min(900000000, std::max(a, b) / 2)};
            if (bl.y > tr.y) std::swap(bl.y, tr.y);
            p.hm.boxes.emplace_back(bl, tr);
            p.data.push_back(simple_node(1));
            execute(p);
        }
}

VP_BUILTIN(F02_pbf_block_larger_than_32_MiB) {
    for (int dense = 0; dense < 2; ++dense) {
        Plan p;
        p.o.fmt = F_PBF;
        p.o.handover = 2;
        p.o.pbf_compression = 0;
        p.hm.generator = "g";
        for (int i = 0; i < 8; ++i) p.chunk_sizes.push_back(1000);
        uint64_t counter = 0;
        const size_t n = dense ? 8000 : 7000, ntags = dense ? 1500 : 5;
        for (size_t i = 0; i < n; ++i) {
            Obj x;
            x.type = dense ? model::NODE : model::WAY;
            x.id = static_cast<int64_t>(i + 1);
            x.version = 1;
            x.user = "u";
            if (dense) x.loc = model::Loc{1, 2};
            for (size_t t = 0; t < ntags; ++t) {
                std::string v = std::to_string(dense ? counter++ % 97 : counter++);
                if (!dense) v.resize(1000, 'x');
                x.tags.push_back(model::Tag{"k" + std::to_string(t % 50), v});
            }
            p.data.push_back(std::move(x));
        }
        execute(p);
    }
}

VP_BUILTIN(F23_xml_id_int64_max) {
    for (int fmt : {F_XML, F_OSC, F_OPL, F_PBF}) {
        Plan p;
        p.o.fmt = fmt;
        p.o.history = fmt == F_OSC;
        p.hm.generator = "g";
        p.data.push_back(simple_node(INT64_MAX));
        p.data.push_back(simple_node(INT64_MIN + 1));
        Obj w;
        w.type = model::WAY;
        w.id = INT64_MAX;
        w.version = 2;
        w.refs.push_back(model::NodeRef{INT64_MAX, model::Loc{}});
        w.refs.push_back(model::NodeRef{INT64_MIN + 1, model::Loc{}});
        p.data.push_back(w);
        Obj r;
        r.type = model::RELATION;
        r.id = INT64_MAX;
        r.version = 3;
        r.members.push_back(model::Member{0, INT64_MAX, "x"});
        p.data.push_back(r);
        execute(p);
    }
}

VP_BUILTIN(F24_opl_way_node_without_location) {
    for (int fmt : {F_OPL, F_XML, F_PBF}) {
        Plan p;
        p.o.fmt = fmt;
        p.o.low = true;
        p.hm.generator = "g";
        Obj w;
        w.type = model::WAY;
        w.id = 5;
        w.version = 1;
        w.refs.push_back(model::NodeRef{1, model::Loc{}});
        w.refs.push_back(model::NodeRef{2, model::Loc{10, 20}});
        w.refs.push_back(model::NodeRef{3, model::Loc{}});
        w.refs.push_back(model::NodeRef{4, model::Loc{}});
        p.data.push_back(w);
        Obj w2 = w;
        w2.id = 6;
        w2.refs.resize(1);
        p.data.push_back(w2);
        execute(p);
    }
}

VP_MAIN(prop, "generated object sequences (0..60 objects, boundary-weighted ids/versions/timestamps/strings incl. 1024-byte strings and all UTF-8 lengths, up to 300 tags/refs/members) x "
              "generated writer option vectors (format pbf/xml/osc/opl, history, dense, blob compression+level, all 32 metadata subsets and the words all/none/true/false, "
              "locations_on_ways, force_visible_flag, file compression none/gzip/bzip2, hand-over mode, reader pool 1..8, read from file or memory); oracle: "
              "Reader(Writer(D)) == project(D, options) item by item plus header generator/boxes. non-trivial = at least one object with tags/refs/members and a non-default option; "
              "distinct by hash(options, D)")
