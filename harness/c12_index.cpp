// C12: all id-to-value index implementations behave as one mathematical map.
#define OSMIUM_WANT_NODE_LOCATION_MAPS 1
#include "tmpdir.hpp"
#include "gen.hpp"

#include <osmium/handler/node_locations_for_ways.hpp>
#include <osmium/index/map/all.hpp>
#include <osmium/index/node_locations_map.hpp>
#include <osmium/visitor.hpp>

#include <fcntl.h>
#include <map>
#include <sys/stat.h>
#include <unistd.h>

using vp::Src;
using map_type = osmium::index::map::Map<osmium::unsigned_object_id_type, osmium::Location>;
using factory_type = osmium::index::MapFactory<osmium::unsigned_object_id_type, osmium::Location>;

static const char* const DENSE_TYPES[] = {"dense_mem_array", "dense_mmap_array", "dense_file_array"};
static const char* const SPARSE_TYPES[] = {"sparse_mem_array", "sparse_mmap_array", "sparse_file_array", "sparse_mem_map", "flex_mem"};

static bool is_dense_type(const std::string& t) { return t.rfind("dense_", 0) == 0; }

static osmium::Location value_for(uint64_t id, uint64_t salt) {
    uint64_t h = vp::mix64(id * 31 + salt);
    int32_t x = static_cast<int32_t>(h % 3600000001ULL) - 1800000000;
    int32_t y = static_cast<int32_t>((h >> 32) % 1800000001ULL) - 900000000;
    return osmium::Location{x, y};
}

static std::string tmpname_raw(const char* tag, int counter) { return tmpdir::prefix() + "c12-" + std::to_string(getpid()) + "-" + tag + "-" + std::to_string(counter); }
static tmpdir::Scope* g_tmp_scope = nullptr;  // files of the running case: unlinked when the case ends, however it ends
static std::string tmpname(const char* tag) {
    static int counter = 0;
    const std::string name = tmpname_raw(tag, counter++);
    return g_tmp_scope ? g_tmp_scope->add(name) : name;
}
struct Model {
    std::map<uint64_t, osmium::Location> m;
};

// ids for the dense map types stay below this limit (a dense array costs 8 bytes per id below its largest id, in memory or in a file under
// $VERIF_TMP): 2^22 in the quick tier; in the thorough tier 2^24 and, for one case in ten, 2^26 (16 shards at 2^26 all the time took
// ~27 GB together, which is more than a memory-limited run gets)
static unsigned g_dense_bits = 22;
static uint64_t dense_limit() { return 1ULL << g_dense_bits; }

// distinct ids: dense part (< limit) and sparse part (anything)
static void gen_ids(Src& s, size_t n, std::vector<uint64_t>& dense, std::vector<uint64_t>& sparse, std::set<uint64_t>& used, bool allow_sparse) {
    const uint64_t L = dense_limit();
    for (size_t i = 0; i < n; ++i) {
        uint64_t id;
        bool is_sparse = false;
        switch (s.weighted({4, 4, 2, 2})) {
            case 0: id = s.draw(4096); break;
            case 1: {  // around multiples of 2^16 and 2^20
                uint64_t base = (s.boolean() ? (1ULL << 16) : (1ULL << 20)) * (1 + s.draw(3));
                id = base + s.draw(5) - 2;
                break;
            }
            case 2: id = s.draw(L); break;
            default: {
                is_sparse = true;
                static const uint64_t edges[] = {1ULL << 32, (1ULL << 32) - 1, (1ULL << 32) + 1, 1ULL << 63, (1ULL << 63) - 1, UINT64_MAX, UINT64_MAX - 1, 1ULL << 40, 1ULL << 26, 1ULL << 31};
                id = s.boolean() ? edges[s.draw(sizeof(edges) / sizeof(edges[0]))] : s.draw64();
                if (id < L) is_sparse = false;
                break;
            }
        }
        if (is_sparse && !allow_sparse) continue;
        if (!is_sparse && id >= L) id = L - 1 - s.draw(1000);
        if (!used.insert(id).second) continue;
        (is_sparse ? sparse : dense).push_back(id);
    }
}

static void apply_order(Src& s, std::vector<uint64_t>& ids, int order) {
    std::sort(ids.begin(), ids.end());
    if (order == 1) std::reverse(ids.begin(), ids.end());
    if (order == 2) {
        for (size_t i = ids.size(); i > 1; --i) std::swap(ids[i - 1], ids[s.draw(i)]);
    }
}

static void verify_map(const map_type& m, const Model& model, const std::vector<uint64_t>& probes_absent, const std::string& what) {
    for (const auto& kv : model.m) {
        osmium::Location got;
        try {
            got = m.get(kv.first);
        } catch (const osmium::not_found&) {
            vp::fail("map-lost-id", what + ": get(" + std::to_string(kv.first) + ") says not found, but the id was inserted");
        }
        VP_CHECK(got == kv.second, "map-wrong-value", what << ": get(" << kv.first << ") = " << got.x() << "/" << got.y() << " expected " << kv.second.x() << "/" << kv.second.y());
        osmium::Location g2 = m.get_noexcept(kv.first);
        VP_CHECK(g2 == kv.second, "map-wrong-value", what << ": get_noexcept(" << kv.first << ") wrong");
    }
    auto absent = [&](uint64_t id) {
        if (model.m.count(id)) return;
        bool threw = false;
        osmium::Location got;
        try {
            got = m.get(id);
        } catch (const osmium::not_found&) {
            threw = true;
        }
        VP_CHECK(threw, "map-phantom-id", what << ": get(" << id << ") = " << got.x() << "/" << got.y() << " but the id was never inserted");
        osmium::Location g2 = m.get_noexcept(id);
        VP_CHECK(g2 == osmium::index::empty_value<osmium::Location>(), "map-phantom-id", what << ": get_noexcept(" << id << ") returns a value for an id that was never inserted");
    };
    for (const auto& kv : model.m) {
        absent(kv.first + 1);
        absent(kv.first - 1);
    }
    for (uint64_t id : probes_absent) absent(id);
}

static std::string slurp_fd_file(const std::string& path) {
    std::string out;
    struct stat st;
    if (::stat(path.c_str(), &st) != 0) return out;
    out.resize(static_cast<size_t>(st.st_size));
    FILE* f = std::fopen(path.c_str(), "rb");
    if (!f) return std::string{};
    size_t n = std::fread(&out[0], 1, out.size(), f);
    std::fclose(f);
    out.resize(n);
    return out;
}

static void check_list_dump(const std::string& bytes, const Model& model, const std::string& what) {
    VP_CHECK(bytes.size() == model.m.size() * 16, "dump-list", what << ": dump_as_list wrote " << bytes.size() << " bytes for " << model.m.size() << " entries");
    size_t i = 0;
    for (const auto& kv : model.m) {
        uint64_t id;
        int32_t x, y;
        std::memcpy(&id, bytes.data() + i * 16, 8);
        std::memcpy(&x, bytes.data() + i * 16 + 8, 4);
        std::memcpy(&y, bytes.data() + i * 16 + 12, 4);
        VP_CHECK(id == kv.first && x == kv.second.x() && y == kv.second.y(), "dump-list", what << ": dump_as_list entry #" << i << " is (" << id << "," << x << "," << y << ") expected id " << kv.first);
        ++i;
    }
}

static void check_array_dump(const std::string& bytes, const Model& model, const std::string& what) {
    VP_CHECK(bytes.size() % 8 == 0, "dump-array", what << ": dump_as_array size not a multiple of 8");
    const uint64_t n = bytes.size() / 8;
    uint64_t max_id = model.m.empty() ? 0 : model.m.rbegin()->first;
    if (!model.m.empty()) VP_CHECK(n > max_id, "dump-array", what << ": dump_as_array holds " << n << " slots but the largest id is " << max_id);
    size_t found = 0;
    auto it = model.m.begin();
    const uint64_t EMPTY = 0x7fffffff7fffffffULL;
    for (uint64_t id = 0; id < n; ++id) {
        uint64_t raw;
        std::memcpy(&raw, bytes.data() + id * 8, 8);
        if (it != model.m.end() && it->first == id) {
            int32_t x, y;
            std::memcpy(&x, bytes.data() + id * 8, 4);
            std::memcpy(&y, bytes.data() + id * 8 + 4, 4);
            VP_CHECK(x == it->second.x() && y == it->second.y(), "dump-array", what << ": dump_as_array slot " << id << " holds the wrong value");
            ++found;
            ++it;
        } else {
            VP_CHECK(raw == EMPTY, "dump-array", what << ": dump_as_array slot " << id << " holds a value but the id was never inserted");
        }
    }
    VP_CHECK(found == model.m.size(), "dump-array", what << ": dump_as_array lost entries");
}

static void map_history(Src& s) {
    const bool big_block = s.chance(1, vp::opts().tier == "thorough" ? 25 : 150);
    std::set<uint64_t> used;
    std::vector<uint64_t> dense1, sparse1, dense2, sparse2;
    size_t n1 = big_block ? 0 : s.size(300), n2 = s.chance(1, 2) ? s.size(60) : 0;
    gen_ids(s, n1, dense1, sparse1, used, true);
    if (big_block) {
        // one block of 2^20+5 consecutive ids: crosses the 1 Mi element growth step of the mmap vectors
        uint64_t start = s.draw(3) * 7;
        for (uint64_t i = 0; i < (1ULL << 20) + 5; ++i) {
            dense1.push_back(start + i);
            used.insert(start + i);
        }
    }
    gen_ids(s, n2, dense2, sparse2, used, true);
    int order = static_cast<int>(s.draw(3));
    uint64_t salt = s.draw(1000);
    std::vector<uint64_t> absent;
    for (int i = 0; i < 30; ++i) absent.push_back(s.chance(1, 2) ? s.draw(dense_limit()) : s.draw64());
    const bool flex_explicit_switch = s.chance(1, 4);
    const bool flex_switch_before_sort = s.boolean();

    std::vector<std::string> types = factory_type::instance().map_types();
    std::string desc = "ids: dense " + std::to_string(dense1.size()) + "+" + std::to_string(dense2.size()) + " sparse " + std::to_string(sparse1.size()) + "+" + std::to_string(sparse2.size()) +
                       " order=" + std::to_string(order) + (big_block ? " big_block" : "");
    if (vp::want_desc()) {
        std::string d = desc + " first ids:";
        for (size_t i = 0; i < dense1.size() && i < 6; ++i) d += " " + std::to_string(dense1[i]);
        for (size_t i = 0; i < sparse1.size() && i < 4; ++i) d += " " + std::to_string(sparse1[i]);
        vp::describe(d);
    }
    bool flex_switched = false;
    for (const std::string& type : types) {
        if (type == "none") continue;
        if (!s.chance(1, 3)) continue;  // a third of the implementations per history (every map creation fills >= 8 MB); all are covered across cases
        const bool dense = is_dense_type(type);
        if (big_block && s.chance(1, 2) && type != "sparse_mmap_array" && type != "dense_mmap_array" && type != "sparse_file_array") continue;  // keep the heavy case affordable
        std::string file;
        std::unique_ptr<map_type> m;
        if (type.find("_file_") != std::string::npos && s.boolean()) {
            file = tmpname("map");
            m = factory_type::instance().create_map(type + "," + file);
        } else {
            m = factory_type::instance().create_map(type);
        }
        Model model;
        auto insert_batch = [&](const std::vector<uint64_t>& d, const std::vector<uint64_t>& sp) {
            std::vector<uint64_t> ids = d;
            if (!dense) ids.insert(ids.end(), sp.begin(), sp.end());
            apply_order(s, ids, order);
            auto* flex = type == "flex_mem" ? dynamic_cast<osmium::index::map::FlexMem<osmium::unsigned_object_id_type, osmium::Location>*>(m.get()) : nullptr;
            for (uint64_t id : ids) {
                // A FlexMem that has switched to its dense representation is a dense index: like the other dense types it needs memory in
                // proportion to the largest id (24 bytes per 65536 ids), so an id like 2^63 ends in std::bad_alloc / std::length_error --
                // a reported resource error, and under ASan an abort inside operator new. Ids beyond 2^40 are not given to a dense FlexMem
                // (found by the thorough tier: a block of 2^20 consecutive ids made the map switch, then 2^63 arrived).
                if (flex && flex->is_dense() && id >= (1ULL << 40)) {
                    vp::count("huge_id_not_given_to_dense_flex_mem");
                    continue;
                }
                osmium::Location v = value_for(id, salt);
                m->set(id, v);
                model.m[id] = v;
            }
        };
        insert_batch(dense1, sparse1);
        if (type == "flex_mem" && flex_explicit_switch && flex_switch_before_sort && (model.m.empty() || model.m.rbegin()->first < dense_limit())) {
            // the switch with the entries still in insertion order (ids of several 2^16-id blocks, going back and forth between them)
            auto* fm = dynamic_cast<osmium::index::map::FlexMem<osmium::unsigned_object_id_type, osmium::Location>*>(m.get());
            if (fm && !fm->is_dense()) {
                fm->switch_to_dense();
                vp::count("flex_explicit_switch_before_sort");
            }
        }
        m->sort();
        verify_map(*m, model, absent, type + " after first batch");
        if (!dense2.empty() || !sparse2.empty()) {
            insert_batch(dense2, sparse2);
            m->sort();
            verify_map(*m, model, absent, type + " after second batch");
        }
        if (type == "flex_mem") {
            auto* fm = dynamic_cast<osmium::index::map::FlexMem<osmium::unsigned_object_id_type, osmium::Location>*>(m.get());
            VP_CHECK(fm != nullptr, "factory", "flex_mem from the factory is not a FlexMem");
            if (fm->is_dense()) flex_switched = true;
            bool all_small = model.m.empty() || model.m.rbegin()->first < dense_limit();
            if (!fm->is_dense() && flex_explicit_switch && all_small) {
                fm->switch_to_dense();
                VP_CHECK(fm->is_dense(), "flex-switch", "switch_to_dense did not switch");
                verify_map(*m, model, absent, "flex_mem after explicit switch_to_dense");
                vp::count("flex_explicit_switch");
            }
        }
        VP_CHECK(dense || m->size() == model.m.size() || type == "flex_mem", "map-size", type << ": size() = " << m->size() << " after " << model.m.size() << " distinct insertions");

        // --- dump / reload
        const bool small_ids = model.m.empty() || model.m.rbegin()->first < dense_limit();
        if (!dense && type != "sparse_mem_map" && type != "flex_mem") {
            std::string f = tmpname("list");
            int fd = ::open(f.c_str(), O_CREAT | O_RDWR | O_TRUNC, 0644);
            m->dump_as_list(fd);
            ::close(fd);
            check_list_dump(slurp_fd_file(f), model, type);
            {
                auto re = factory_type::instance().create_map("sparse_file_array," + f);
                verify_map(*re, model, absent, type + " dumped as list and reloaded as sparse_file_array");
            }
            ::unlink(f.c_str());
            vp::count("dump_list_reload");
        }
        if (small_ids && type != "sparse_mem_map" && type != "flex_mem" && !(big_block && dense == false && type == "sparse_mem_array")) {
            std::string f = tmpname("array");
            int fd = ::open(f.c_str(), O_CREAT | O_RDWR | O_TRUNC, 0644);
            m->dump_as_array(fd);
            ::close(fd);
            std::string bytes = slurp_fd_file(f);
            if (!model.m.empty()) check_array_dump(bytes, model, type);
            if (!bytes.empty()) {
                auto re = factory_type::instance().create_map("dense_file_array," + f);
                verify_map(*re, model, absent, type + " dumped as array and reloaded as dense_file_array");
            }
            ::unlink(f.c_str());
            vp::count(dense ? "dump_dense_array_reload" : "dump_sparse_as_array_reload");
        }
        if (!file.empty()) {
            // a file-backed index can be reopened
            m.reset();
            auto re = factory_type::instance().create_map(type + "," + file);
            verify_map(*re, model, absent, type + " reopened from its file");
            re.reset();
            ::unlink(file.c_str());
            vp::count("file_backed_reopen");
        }
        vp::count("type_" + type);
    }
    if (flex_switched) vp::count("flex_automatic_switch");
    if (dense1.size() + sparse1.size() >= 2) vp::nontrivial(vp::hash_str(desc + std::to_string(salt) + (dense1.empty() ? "" : std::to_string(dense1[0])) + (sparse1.empty() ? "" : std::to_string(sparse1[0]))));
    if (big_block) vp::count("big_block_2^20+5");
}

// ---------------------------------------------------------------- NodeLocationsForWays

template <typename TPos, typename TNeg>
static void nlfw_run(Src& s, const char* name) {
    TPos pos;
    TNeg neg;
    osmium::handler::NodeLocationsForWays<TPos, TNeg> handler{pos, neg};
    const bool ignore = s.boolean();
    if (ignore) handler.ignore_errors();
    std::map<int64_t, osmium::Location> model;
    // node ids: positive and negative, small so that dense storages work
    std::set<int64_t> idset;
    size_t n = 1 + s.size(60);
    for (size_t i = 0; i < n; ++i) {
        int64_t id = static_cast<int64_t>(1 + s.draw(s.chance(1, 3) ? 100000 : 60));
        if (s.chance(2, 5)) id = -id;
        idset.insert(id);
    }
    std::vector<int64_t> ids(idset.begin(), idset.end());
    int order = static_cast<int>(s.draw(5));
    auto absv = [](int64_t v) { return v < 0 ? -v : v; };
    switch (order) {
        case 0: std::sort(ids.begin(), ids.end(), [&](int64_t a, int64_t b) { return absv(a) < absv(b) || (absv(a) == absv(b) && a < b); }); break;  // interleaved +-
        case 1: std::sort(ids.begin(), ids.end()); break;                                // negatives first (ascending), then positives
        case 2: std::sort(ids.begin(), ids.end(), std::greater<int64_t>()); break;       // reversed
        case 3: std::sort(ids.begin(), ids.end(), [&](int64_t a, int64_t b) { return absv(a) > absv(b); }); break;
        default:
            for (size_t i = ids.size(); i > 1; --i) std::swap(ids[i - 1], ids[s.draw(i)]);
            break;
    }
    osmium::memory::Buffer buf{1024, osmium::memory::Buffer::auto_grow::yes};
    std::string desc = std::string{name} + " order=" + std::to_string(order) + " nodes:";
    // several rounds: nodes, ways, more nodes, ways (the handler has to re-sort)
    size_t rounds = 1 + s.draw(2);
    size_t pos_i = 0;
    for (size_t round = 0; round < rounds; ++round) {
        size_t upto = round + 1 == rounds ? ids.size() : pos_i + s.draw(ids.size() - pos_i + 1);
        for (; pos_i < upto; ++pos_i) {
            int64_t id = ids[pos_i];
            osmium::Location loc = value_for(static_cast<uint64_t>(id), 5);
            model[id] = loc;
            buf.clear();
            {
                osmium::builder::NodeBuilder b{buf};
                b.set_id(id).set_location(loc);
            }
            buf.commit();
            handler.node(buf.get<osmium::Node>(0));
            if (desc.size() < 400) desc += " " + std::to_string(id);
        }
        size_t nways = 1 + s.draw(3);
        for (size_t w = 0; w < nways; ++w) {
            std::vector<int64_t> refs;
            size_t nr = 1 + s.draw(12);
            bool missing = false;
            for (size_t k = 0; k < nr; ++k) {
                int64_t r;
                if (!model.empty() && !s.chance(1, 8)) {
                    auto it = model.begin();
                    std::advance(it, static_cast<std::ptrdiff_t>(s.draw(model.size())));
                    r = it->first;
                } else {
                    r = static_cast<int64_t>(1 + s.draw(100000)) * (s.boolean() ? 1 : -1);
                }
                if (!model.count(r)) missing = true;
                refs.push_back(r);
            }
            buf.clear();
            {
                osmium::builder::WayBuilder b{buf};
                b.set_id(static_cast<int64_t>(w + 1));
                osmium::builder::WayNodeListBuilder wl{buf, &b};
                for (int64_t r : refs) wl.add_node_ref(r);
            }
            buf.commit();
            bool threw = false;
            try {
                handler.way(buf.get<osmium::Way>(0));
            } catch (const osmium::not_found&) {
                threw = true;
            }
            VP_CHECK(threw == (missing && !ignore), "nlfw-error", name << ": way with" << (missing ? "" : "out") << " missing nodes, ignore_errors=" << ignore << ", exception=" << threw << " | " << desc);
            size_t k = 0;
            for (const auto& nr_ : buf.get<osmium::Way>(0).nodes()) {
                auto it = model.find(refs[k]);
                if (it != model.end()) {
                    VP_CHECK(nr_.location() == it->second, "nlfw-location", name << ": node ref " << refs[k] << " received " << nr_.location().x() << "/" << nr_.location().y() << " expected " << it->second.x() << "/" << it->second.y() << " | " << desc);
                } else {
                    VP_CHECK(!nr_.location(), "nlfw-location", name << ": node ref " << refs[k] << " to a node that never arrived received a location | " << desc);
                }
                ++k;
            }
            // direct lookup
            for (int64_t r : refs) {
                osmium::Location l = handler.get_node_location(r);
                auto it = model.find(r);
                VP_CHECK(it == model.end() ? !l : l == it->second, "nlfw-location", name << ": get_node_location(" << r << ") wrong | " << desc);
            }
        }
    }
    if (vp::want_desc()) vp::describe(desc);
    if (model.size() >= 2) vp::nontrivial(vp::hash_str(desc));
    vp::count(std::string{"nlfw_"} + name);
    vp::count("nlfw_order_" + std::to_string(order));
}

static void nlfw(Src& s) {
    using id_t = osmium::unsigned_object_id_type;
    using L = osmium::Location;
    switch (s.draw(5)) {
        case 0: nlfw_run<osmium::index::map::SparseMemArray<id_t, L>, osmium::index::map::SparseMemArray<id_t, L>>(s, "sparse_mem_array/sparse_mem_array"); break;
        case 1: nlfw_run<osmium::index::map::FlexMem<id_t, L>, osmium::index::map::FlexMem<id_t, L>>(s, "flex_mem/flex_mem"); break;
        case 2: nlfw_run<osmium::index::map::DenseMemArray<id_t, L>, osmium::index::map::SparseMemMap<id_t, L>>(s, "dense_mem_array/sparse_mem_map"); break;
        case 3: nlfw_run<osmium::index::map::SparseMmapArray<id_t, L>, osmium::index::map::DenseMmapArray<id_t, L>>(s, "sparse_mmap_array/dense_mmap_array"); break;
        default: nlfw_run<osmium::index::map::SparseFileArray<id_t, L>, osmium::index::map::SparseMemArray<id_t, L>>(s, "sparse_file_array/sparse_mem_array"); break;
    }
}

// FlexMem automatic switch (threshold lowered by the OSMIUM_VERIF_FLEXMEM_MIN_DENSE hook in the quick tier)
// The automatic switch with many unsorted entries from several 2^16-id blocks: the largest id comes first (so the map is "not dense
// enough" for a long time: the density is only looked at when a new largest id arrives), then ids below it in a generated order, then the
// next larger id, which triggers the switch with everything inserted so far still in insertion order; then some more ids.
static void flex_late_switch(Src& s) {
    osmium::index::map::FlexMem<osmium::unsigned_object_id_type, osmium::Location> m;
    const uint64_t blocks = 1 + s.draw(4);
    const uint64_t M = blocks * 65536 + s.draw(65536);  // largest id of the first phase
    const uint64_t n = M / 3 + 2 + s.draw(2000);         // enough entries for "dense" (M+1 < 3 * entries), and beyond any threshold
    const uint64_t salt = s.draw(1000);
    const int order = static_cast<int>(s.draw(4));       // 0 strided walk, 1 descending, 2 ascending with local disorder, 3 two interleaved runs
    Model model;
    auto put = [&](uint64_t id) {
        if (model.m.count(id)) return;
        osmium::Location v = value_for(id, salt);
        m.set(id, v);
        model.m[id] = v;
    };
    put(M);
    VP_CHECK(!m.is_dense(), "flex-switch", "FlexMem became dense with a single entry");
    uint64_t stride = (M / 3) | 1;
    {
        auto gcd = [](uint64_t a, uint64_t b) { while (b) { uint64_t t = a % b; a = b; b = t; } return a; };
        while (gcd(stride, M) != 1) stride += 2;
    }
    const uint64_t gap = M / n;  // ids are spread over the whole range below M
    for (uint64_t i = 0; i < n; ++i) {
        uint64_t id;
        switch (order) {
            case 0: id = (i * stride) % M; break;
            case 1: id = (n - 1 - i) * gap + (i % gap); break;
            case 2: id = (i ^ 5) * gap; break;
            default: id = (i % 2 ? i / 2 : n - 1 - i / 2) * gap; break;
        }
        if (id < M) put(id);
    }
    const bool dense_before_trigger = m.is_dense();
    put(M + 1);
    const bool switched = !dense_before_trigger && m.is_dense();
    for (uint64_t i = 0, extra = s.draw(300); i < extra; ++i) put(s.draw(M + 70000));
    m.sort();
    std::vector<uint64_t> absent{M + 70005, M * 2 + 7, 1ULL << 40};
    for (int i = 0; i < 30; ++i) absent.push_back(s.draw(M));
    verify_map(m, model, absent, "flex_mem after the automatic switch with " + std::to_string(model.m.size()) + " unsorted entries in " + std::to_string(blocks + 1) + " blocks (order " + std::to_string(order) + ")");
    std::string desc = "flex_mem late switch: largest id " + std::to_string(M) + ", " + std::to_string(n) + " ids below it in order " + std::to_string(order) + (switched ? ", switched at the trigger" : dense_before_trigger ? ", dense before the trigger" : ", stayed sparse");
    if (vp::want_desc()) vp::describe(desc);
    if (switched) {
        vp::count("flex_automatic_switch_with_unsorted_entries_of_several_blocks");
        vp::nontrivial(vp::hash_str(desc));
    }
}

static void flex_switch(Src& s) {
    if (s.chance(1, 2)) {
        flex_late_switch(s);
        return;
    }
    osmium::index::map::FlexMem<osmium::unsigned_object_id_type, osmium::Location> m;
#ifdef OSMIUM_VERIF_FLEXMEM_MIN_DENSE
    const uint64_t threshold = OSMIUM_VERIF_FLEXMEM_MIN_DENSE;
#else
    const uint64_t threshold = 0xffffff;
#endif
    Model model;
    // dense enough: ids drawn from [0, k*count) with k in {1,2,3,4}: the switch happens for k<=2, may happen for 3, not for 4 unless density allows
    uint64_t count = threshold + s.draw(threshold / 2 + 10);
    uint64_t k = 1 + s.draw(4);
    uint64_t range = count * k;
    uint64_t step_seed = s.draw(1000000);
    // a permutation-like walk: ids = (i * stride) % range with stride coprime to range, or ascending
    bool ascending = s.boolean();
    uint64_t stride = 1;
    if (!ascending) {
        stride = (range / 3) | 1;
        auto gcd = [](uint64_t a, uint64_t b) { while (b) { uint64_t t = a % b; a = b; b = t; } return a; };
        while (gcd(stride, range) != 1) stride += 2;
    }
    bool was_dense = false;
    uint64_t switched_at = 0;
    for (uint64_t i = 0; i < count; ++i) {
        uint64_t id = ascending ? i * k + (step_seed % k) : (i * stride) % range;
        osmium::Location v = value_for(id, step_seed);
        m.set(id, v);
        if (threshold <= 100000) model.m[id] = v;
        if (!was_dense && m.is_dense()) {
            was_dense = true;
            switched_at = i + 1;
        }
    }
    m.sort();
    if (threshold <= 100000) {
        std::vector<uint64_t> absent{range + 5, range * 2, 1ULL << 40};
        verify_map(m, model, absent, "flex_mem after automatic switch handling");
    } else {
        // too many entries for the model map: recompute expected values on the fly
        for (uint64_t i = 0; i < count; i += 1 + (i % 7)) {
            uint64_t id = ascending ? i * k + (step_seed % k) : (i * stride) % range;
            VP_CHECK(m.get(id) == value_for(id, step_seed), "map-wrong-value", "flex_mem: get(" << id << ") wrong after " << count << " insertions");
        }
    }
    if (k <= 2 && ascending) VP_CHECK(was_dense, "flex-switch", "FlexMem stayed sparse with " << count << " entries in id range " << range);
    std::string desc = "flex_mem count=" + std::to_string(count) + " id range=" + std::to_string(range) + (ascending ? " ascending" : " strided") + " switched_at=" + std::to_string(switched_at);
    if (vp::want_desc()) vp::describe(desc);
    if (was_dense) {
        vp::count("flex_automatic_switch");
        vp::nontrivial(vp::hash_str(desc));
    }
}

static void prop(Src& s) {
    tmpdir::FdScope fds;  // (declared first: descriptors are closed after the files have been unlinked and the maps destroyed)
    tmpdir::Scope scope;
    struct Bind {
        explicit Bind(tmpdir::Scope* sc) { g_tmp_scope = sc; }
        ~Bind() { g_tmp_scope = nullptr; }
    } bind{&scope};
    g_dense_bits = vp::opts().tier != "thorough" ? 22 : vp::extra("only") == "flex" ? 26 : s.chance(1, 10) ? 26 : 24;
    if (g_dense_bits == 26) vp::count("dense_limit_2^26");
    if (vp::extra("only") == "flex") {
        flex_switch(s);
        return;
    }
    if (vp::extra("only") == "map") {
        map_history(s);
        return;
    }
    if (vp::extra("only") == "nlfw") {
        nlfw(s);
        return;
    }
    switch (s.weighted({5, 4, 1})) {
        case 0: map_history(s); break;
        case 1: nlfw(s); break;
        default: flex_switch(s); break;
    }
}

VP_MAIN(prop, "generated insertion histories of distinct ids (0..4095, around k*2^16 and k*2^20 +-2, uniform below the dense limit 2^22 (thorough 2^24, one case in ten 2^26), 64-bit edge ids 2^32+-1, 2^63, 2^64-1; "
              "occasionally one block of 2^20+5 consecutive ids), in sorted/reversed/shuffled order, in one or two sort() phases, on every map type of the factory; lookups of all inserted ids, "
              "their neighbours and never-inserted ids against std::map; dump_as_list / dump_as_array decoded by the harness and reloaded as sparse_file_array / dense_file_array; "
              "file-backed indexes reopened; NodeLocationsForWays with five real storage pairs and node streams in interleaved/sorted/reversed/shuffled order over several node-way rounds; "
              "FlexMem automatic sparse-to-dense switch (threshold lowered by hook in quick, real 0xffffff in thorough). non-trivial = history with >= 2 ids; distinct by hash")
