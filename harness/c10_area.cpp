// C10: assembled areas are valid multipolygons that cover exactly the input's region.
//
// Constructive generator with known ground truth: a random binary image on a grid (optionally XOR-overlaid with a second one, so
// that duplicate segments cancel), its boundary unit edges mapped through a random integer affine map, cut into ways by random
// trail decomposition; plus mutations (dropped edge, extra way, moved vertex) whose validity is decided by the harness's own
// exact brute-force arrangement checker, never by the library.
#include "gen.hpp"

#include <osmium/area/assembler.hpp>
#include <osmium/area/problem_reporter.hpp>

#include <map>
#include <set>

using vp::Src;
typedef __int128 i128;

struct Pt {
    int64_t x = 0, y = 0;
    bool operator<(const Pt& o) const { return x != o.x ? x < o.x : y < o.y; }
    bool operator==(const Pt& o) const { return x == o.x && y == o.y; }
    bool operator!=(const Pt& o) const { return !(*this == o); }
};
struct Seg {
    Pt a, b;  // normalised a < b
    Seg() = default;
    Seg(Pt p, Pt q) : a(p < q ? p : q), b(p < q ? q : p) {}
    bool operator<(const Seg& o) const { return a != o.a ? a < o.a : b < o.b; }
    bool operator==(const Seg& o) const { return a == o.a && b == o.b; }
};

static int sgn(i128 v) { return v > 0 ? 1 : v < 0 ? -1 : 0; }
static i128 cross(const Pt& o, const Pt& a, const Pt& b) { return static_cast<i128>(a.x - o.x) * (b.y - o.y) - static_cast<i128>(a.y - o.y) * (b.x - o.x); }
static bool in_box(const Pt& a, const Pt& b, const Pt& p) { return std::min(a.x, b.x) <= p.x && p.x <= std::max(a.x, b.x) && std::min(a.y, b.y) <= p.y && p.y <= std::max(a.y, b.y); }
static bool on_segment(const Pt& a, const Pt& b, const Pt& p) { return cross(a, b, p) == 0 && in_box(a, b, p); }

// do two distinct segments share a point other than a common endpoint?
static bool conflict(const Seg& s, const Seg& t) {
    const int o1 = sgn(cross(s.a, s.b, t.a)), o2 = sgn(cross(s.a, s.b, t.b)), o3 = sgn(cross(t.a, t.b, s.a)), o4 = sgn(cross(t.a, t.b, s.b));
    if (o1 == 0 && o2 == 0 && o3 == 0 && o4 == 0) {
        // collinear: positive-length overlap? compare along x, or along y for vertical segments (normalised: a < b lexicographically)
        const bool vertical = s.a.x == s.b.x;
        const int64_t lo = vertical ? std::max(s.a.y, t.a.y) : std::max(s.a.x, t.a.x);
        const int64_t hi = vertical ? std::min(s.b.y, t.b.y) : std::min(s.b.x, t.b.x);
        return lo < hi;
    }
    const bool shared = s.a == t.a || s.a == t.b || s.b == t.a || s.b == t.b;
    if (shared) return false;  // not collinear: the shared endpoint is the only common point
    return o1 * o2 <= 0 && o3 * o4 <= 0;
}

// even-odd: is p inside the closed polyline ring (exact; p must not be on the boundary)
static bool in_ring(const std::vector<Pt>& ring, const Pt& p) {
    bool in = false;
    for (size_t i = 0; i + 1 < ring.size(); ++i) {
        const Pt &a = ring[i], &b = ring[i + 1];
        if ((a.y > p.y) != (b.y > p.y)) {
            int o = sgn(cross(a, b, p));
            if (b.y > a.y ? o > 0 : o < 0) in = !in;
        }
    }
    return in;
}
static bool in_segments(const std::vector<Seg>& segs, const Pt& p) {
    bool in = false;
    for (const Seg& s : segs) {
        const Pt &a = s.a, &b = s.b;
        if ((a.y > p.y) != (b.y > p.y)) {
            int o = sgn(cross(a, b, p));
            if (b.y > a.y ? o > 0 : o < 0) in = !in;
        }
    }
    return in;
}
static bool on_any(const std::vector<Seg>& segs, const Pt& p) {
    for (const Seg& s : segs)
        if (on_segment(s.a, s.b, p)) return true;
    return false;
}
static i128 area2(const std::vector<Pt>& ring) {
    i128 s = 0;
    for (size_t i = 0; i + 1 < ring.size(); ++i) s += static_cast<i128>(ring[i].x) * ring[i + 1].y - static_cast<i128>(ring[i].y) * ring[i + 1].x;
    return s;
}

// ---------------------------------------------------------------- recording problem reporter
struct Recorder : public osmium::area::ProblemReporter {
    int intersections = 0, not_closed = 0, duplicate_segments = 0, overlapping = 0, touching = 0, duplicate_nodes = 0, invalid_locations = 0, duplicate_ways = 0;
    void report_intersection(osmium::object_id_type, osmium::Location, osmium::Location, osmium::object_id_type, osmium::Location, osmium::Location, osmium::Location) override { ++intersections; }
    void report_ring_not_closed(const osmium::NodeRef&, const osmium::Way*) override { ++not_closed; }
    void report_duplicate_segment(const osmium::NodeRef&, const osmium::NodeRef&) override { ++duplicate_segments; }
    void report_overlapping_segment(const osmium::NodeRef&, const osmium::NodeRef&) override { ++overlapping; }
    void report_touching_ring(osmium::object_id_type, osmium::Location) override { ++touching; }
    void report_duplicate_node(osmium::object_id_type, osmium::object_id_type, osmium::Location) override { ++duplicate_nodes; }
    void report_invalid_location(osmium::object_id_type, osmium::object_id_type) override { ++invalid_locations; }
    void report_duplicate_way(const osmium::Way&) override { ++duplicate_ways; }
};

// ---------------------------------------------------------------- input description
struct WayIn {
    int64_t id;
    std::vector<Pt> pts;  // real coordinates (location units)
    std::string role;
};
struct Input {
    std::vector<WayIn> ways;       // member order
    std::map<Pt, int64_t> nodeid;  // location -> node id
    bool as_closed_way = false;    // hand ways[0] to the way overload
    bool create_empty = true;
    bool check_roles = false;
};

struct Output {
    bool returned = false;
    bool threw = false;
    std::string what;
    bool has_area = false;
    std::vector<std::pair<bool, std::vector<Pt>>> rings;  // (outer, points) in buffer order
    osmium::area::area_stats stats;
    Recorder rec;
};

static Output run_assembler(const Input& in) {
    Output out;
    osmium::memory::Buffer wbuf{4096, osmium::memory::Buffer::auto_grow::yes};
    std::vector<size_t> offs;
    for (const auto& w : in.ways) {
        offs.push_back(wbuf.committed());
        {
            osmium::builder::WayBuilder b{wbuf};
            b.set_id(w.id).set_version(1).set_user("u");
            {
                osmium::builder::WayNodeListBuilder nl{wbuf, &b};
                for (const Pt& p : w.pts) {
                    auto it = in.nodeid.find(p);
                    nl.add_node_ref(osmium::NodeRef{it == in.nodeid.end() ? 999999 : it->second, osmium::Location{static_cast<int32_t>(p.x), static_cast<int32_t>(p.y)}});
                }
            }
            {
                osmium::builder::TagListBuilder tb{wbuf, &b};
                tb.add_tag("landuse", "forest");
            }
        }
        wbuf.commit();
    }
    osmium::memory::Buffer rbuf{4096, osmium::memory::Buffer::auto_grow::yes};
    {
        osmium::builder::RelationBuilder b{rbuf};
        b.set_id(77).set_version(1).set_user("u");
        {
            osmium::builder::RelationMemberListBuilder ml{rbuf, &b};
            for (const auto& w : in.ways) ml.add_member(osmium::item_type::way, w.id, w.role.c_str());
        }
        {
            osmium::builder::TagListBuilder tb{rbuf, &b};
            tb.add_tag("type", "multipolygon");
            tb.add_tag("landuse", "forest");
        }
    }
    rbuf.commit();
    std::vector<const osmium::Way*> ways;
    for (size_t off : offs) ways.push_back(&wbuf.get<osmium::Way>(off));
    osmium::area::AssemblerConfig cfg;
    cfg.problem_reporter = &out.rec;
    cfg.create_empty_areas = in.create_empty;
    cfg.check_roles = in.check_roles;
    osmium::memory::Buffer obuf{4096, osmium::memory::Buffer::auto_grow::yes};
    try {
        osmium::area::Assembler a{cfg};
        out.returned = in.as_closed_way ? a(*ways[0], obuf) : a(rbuf.get<osmium::Relation>(0), ways, obuf);
        out.stats = a.stats();
    } catch (const std::exception& e) {
        out.threw = true;
        out.what = e.what();
        return out;
    }
    size_t n = 0;
    for (const auto& area : obuf.select<osmium::Area>()) {
        ++n;
        out.has_area = true;
        for (const auto& item : area) {
            if (item.type() == osmium::item_type::outer_ring || item.type() == osmium::item_type::inner_ring) {
                std::vector<Pt> r;
                for (const auto& nr : static_cast<const osmium::NodeRefList&>(item)) r.push_back(Pt{nr.location().x(), nr.location().y()});
                out.rings.emplace_back(item.type() == osmium::item_type::outer_ring, std::move(r));
            }
        }
    }
    VP_CHECK(n <= 1, "area-count", "assembler wrote " << n << " areas for one input");
    return out;
}

// canonical text of the result: rings rotated to their smallest point, inner rings sorted inside their outer ring, groups sorted
static std::string canonical(const Output& o) {
    std::vector<std::string> groups;
    std::string cur;
    std::vector<std::string> inners;
    auto ring_text = [](const std::vector<Pt>& r) {
        if (r.size() < 2) return std::string{"degenerate"};
        std::vector<Pt> v(r.begin(), r.end() - 1);
        // rotate to the smallest point; if a point occurs twice (self-touching ring) take the lexicographically smallest rotation
        std::string best;
        for (size_t s = 0; s < v.size(); ++s) {
            if (!(v[s] == *std::min_element(v.begin(), v.end()))) continue;
            std::string t;
            for (size_t k = 0; k < v.size(); ++k) {
                const Pt& p = v[(s + k) % v.size()];
                t += std::to_string(p.x) + "," + std::to_string(p.y) + " ";
            }
            if (best.empty() || t < best) best = t;
        }
        return best;
    };
    auto flush = [&]() {
        if (cur.empty()) return;
        std::sort(inners.begin(), inners.end());
        for (const auto& i : inners) cur += " inner(" + i + ")";
        groups.push_back(cur);
        cur.clear();
        inners.clear();
    };
    for (const auto& r : o.rings) {
        if (r.first) {
            flush();
            cur = "outer(" + ring_text(r.second) + ")";
        } else {
            inners.push_back(ring_text(r.second));
        }
    }
    flush();
    std::sort(groups.begin(), groups.end());
    std::string all;
    for (const auto& g : groups) all += g + "\n";
    return all;
}

// ---------------------------------------------------------------- generator

struct Affine {
    int64_t a = 1, b = 0, c = 0, d = 1, tx = 0, ty = 0;
    Pt map(int64_t i, int64_t j) const { return Pt{a * i + b * j + tx, c * i + d * j + ty}; }
};

static std::vector<std::vector<int>> gen_image(Src& s, int n, int m) {
    std::vector<std::vector<int>> img(n, std::vector<int>(m, 0));
    switch (s.weighted({3, 3, 2, 2})) {
        case 0: {  // random density
            uint64_t den = 2 + s.draw(4);
            for (auto& row : img)
                for (auto& c : row) c = s.draw(den) == 0 ? 1 : 0;
            if (s.boolean())
                for (auto& row : img)
                    for (auto& c : row) c = 1 - c;
            break;
        }
        case 1: {  // union / difference of rectangles (blobs, rings, islands in holes)
            size_t k = 1 + s.draw(5);
            for (size_t r = 0; r < k; ++r) {
                int i0 = static_cast<int>(s.draw(n)), i1 = static_cast<int>(s.draw(n)), j0 = static_cast<int>(s.draw(m)), j1 = static_cast<int>(s.draw(m));
                if (i0 > i1) std::swap(i0, i1);
                if (j0 > j1) std::swap(j0, j1);
                int v = (r % 2 == 0 || s.chance(1, 3)) ? 1 : 0;
                for (int i = i0; i <= i1; ++i)
                    for (int j = j0; j <= j1; ++j) img[i][j] = v;
            }
            break;
        }
        case 2: {  // concentric rings
            for (int i = 0; i < n; ++i)
                for (int j = 0; j < m; ++j) {
                    int dist = std::min(std::min(i, n - 1 - i), std::min(j, m - 1 - j));
                    img[i][j] = dist % 2 == 0 ? 1 : 0;
                }
            if (s.boolean()) {
                size_t holes = s.draw(4);
                for (size_t h = 0; h < holes; ++h) img[s.draw(n)][s.draw(m)] ^= 1;
            }
            break;
        }
        default: {  // checkerboard patch (touching corners) on a background
            int i0 = static_cast<int>(s.draw(n)), j0 = static_cast<int>(s.draw(m));
            const bool large = s.chance(1, 4);  // large patches: many touching points in one connected cluster
            int h = 1 + static_cast<int>(s.draw(large ? 11 : 4)), w = 1 + static_cast<int>(s.draw(large ? 11 : 4));
            int bg = static_cast<int>(s.draw(2));
            for (auto& row : img)
                for (auto& c : row) c = bg && s.chance(3, 4) ? 1 : 0;
            for (int i = i0; i < std::min(n, i0 + h); ++i)
                for (int j = j0; j < std::min(m, j0 + w); ++j) img[i][j] = (i + j) % 2;
            break;
        }
    }
    return img;
}

// boundary unit edges of an image in grid coordinates
static void image_edges(const std::vector<std::vector<int>>& img, std::vector<std::pair<Pt, Pt>>& out) {
    const int n = static_cast<int>(img.size()), m = static_cast<int>(img[0].size());
    auto at = [&](int i, int j) { return (i < 0 || j < 0 || i >= n || j >= m) ? 0 : img[i][j]; };
    for (int i = 0; i <= n; ++i)
        for (int j = 0; j <= m; ++j) {
            // edge between cell (i-1,j) and (i,j): runs from vertex (i,j) to (i,j+1)
            if (j < m && at(i - 1, j) != at(i, j)) out.emplace_back(Pt{i, j}, Pt{i, j + 1});
            // edge between cell (i,j-1) and (i,j): runs from vertex (i,j) to (i+1,j)
            if (i < n && at(i, j - 1) != at(i, j)) out.emplace_back(Pt{i, j}, Pt{i + 1, j});
        }
}

// merge collinear unit edges of one image at vertices of degree 2
static void merge_collinear(std::vector<std::pair<Pt, Pt>>& edges, Src& s, unsigned keep_num, unsigned keep_den) {
    std::map<Pt, std::vector<size_t>> inc;
    for (size_t e = 0; e < edges.size(); ++e) {
        inc[edges[e].first].push_back(e);
        inc[edges[e].second].push_back(e);
    }
    std::vector<bool> dead(edges.size(), false);
    for (auto& kv : inc) {
        if (kv.second.size() != 2) continue;
        size_t e1 = kv.second[0], e2 = kv.second[1];
        if (dead[e1] || dead[e2] || e1 == e2) continue;
        Pt v = kv.first;
        Pt p = edges[e1].first == v ? edges[e1].second : edges[e1].first;
        Pt q = edges[e2].first == v ? edges[e2].second : edges[e2].first;
        if (cross(p, v, q) != 0) continue;
        if (s.chance(keep_num, keep_den)) continue;  // keep this vertex
        // replace e1 by (p,q), kill e2, fix incidence of q
        edges[e1] = {p, q};
        dead[e2] = true;
        for (auto& x : inc[q])
            if (x == e2) x = e1;
    }
    std::vector<std::pair<Pt, Pt>> res;
    for (size_t e = 0; e < edges.size(); ++e)
        if (!dead[e]) res.push_back(edges[e]);
    edges.swap(res);
}

// random trail decomposition of an edge multiset into ways (vertex sequences)
static std::vector<std::vector<Pt>> cut_into_ways(Src& s, const std::vector<std::pair<Pt, Pt>>& edges, unsigned stop_num, unsigned stop_den) {
    std::map<Pt, std::vector<size_t>> inc;
    for (size_t e = 0; e < edges.size(); ++e) {
        inc[edges[e].first].push_back(e);
        inc[edges[e].second].push_back(e);
    }
    std::vector<bool> used(edges.size(), false);
    std::vector<std::vector<Pt>> ways;
    size_t remaining = edges.size();
    std::vector<size_t> order(edges.size());
    for (size_t i = 0; i < order.size(); ++i) order[i] = i;
    for (size_t i = order.size(); i > 1; --i) std::swap(order[i - 1], order[s.draw(i)]);
    size_t oi = 0;
    while (remaining > 0) {
        while (used[order[oi]]) ++oi;
        size_t e = order[oi];
        std::vector<Pt> w;
        Pt cur = s.boolean() ? edges[e].first : edges[e].second;
        w.push_back(cur);
        for (;;) {
            used[e] = true;
            --remaining;
            cur = edges[e].first == cur ? edges[e].second : edges[e].first;
            w.push_back(cur);
            if (s.chance(stop_num, stop_den)) break;
            std::vector<size_t> cand;
            for (size_t x : inc[cur])
                if (!used[x]) cand.push_back(x);
            if (cand.empty()) break;
            e = cand[s.draw(cand.size())];
        }
        ways.push_back(std::move(w));
    }
    return ways;
}

struct Scene {
    int n = 0, m = 0;
    Affine af;
    std::vector<std::pair<Pt, Pt>> edges;  // real coordinates, multiset
    std::string mutation = "none";
    std::vector<Pt> samples;               // sample points in 4x coordinates
};

static std::string describe(const Scene& sc, const Input& in) {
    std::string d = "grid " + std::to_string(sc.n) + "x" + std::to_string(sc.m) + " affine [" + std::to_string(sc.af.a) + " " + std::to_string(sc.af.b) + "; " + std::to_string(sc.af.c) + " " +
                    std::to_string(sc.af.d) + "]+(" + std::to_string(sc.af.tx) + "," + std::to_string(sc.af.ty) + ") edges=" + std::to_string(sc.edges.size()) + " mutation=" + sc.mutation +
                    (in.as_closed_way ? " closed-way" : " relation") + " ways=" + std::to_string(in.ways.size()) + ":";
    size_t shown = 0;
    for (const auto& w : in.ways) {
        if (++shown > 12) {
            d += " ...";
            break;
        }
        d += " w" + std::to_string(w.id) + "(" + w.role + ")[";
        for (size_t k = 0; k < w.pts.size() && k < 12; ++k) d += (k ? " " : "") + std::to_string(w.pts[k].x) + "," + std::to_string(w.pts[k].y);
        if (w.pts.size() > 12) d += " ..";
        d += "]";
    }
    return d;
}

static Input make_input(Src& s, const std::vector<std::vector<Pt>>& ways, const std::map<Pt, int64_t>& nodeid, bool shuffle) {
    Input in;
    in.nodeid = nodeid;
    int64_t wid = 100;
    static const char* roles[] = {"outer", "inner", "", "foo", "outer"};
    for (const auto& w : ways) {
        WayIn wi;
        wi.id = wid++;
        wi.pts = w;
        if (s.boolean()) std::reverse(wi.pts.begin(), wi.pts.end());
        wi.role = roles[s.draw(5)];
        in.ways.push_back(std::move(wi));
    }
    if (shuffle)
        for (size_t i = in.ways.size(); i > 1; --i) std::swap(in.ways[i - 1], in.ways[s.draw(i)]);
    in.create_empty = s.boolean();
    in.check_roles = s.chance(1, 3);
    return in;
}

// ---------------------------------------------------------------- the oracle for one assembler run
struct Truth {
    std::vector<Seg> segs;  // input segments reduced mod 2
    bool crossing = false;
    bool odd_vertex = false;
    size_t split_locations = 0;
    bool valid() const { return !segs.empty() && !crossing && !odd_vertex; }
};

static Truth ground_truth(const Input& in) {
    Truth t;
    std::map<Seg, int> cnt;
    std::set<int64_t> seen_ways;
    size_t nways = in.as_closed_way ? 1 : in.ways.size();
    for (size_t wi = 0; wi < nways; ++wi) {
        const auto& w = in.ways[wi];
        if (!seen_ways.insert(w.id).second) continue;  // a way listed twice is used once (documented: duplicate_ways)
        for (size_t k = 0; k + 1 < w.pts.size(); ++k) {
            if (w.pts[k] == w.pts[k + 1]) continue;  // consecutive identical locations are dropped (duplicate_nodes)
            ++cnt[Seg{w.pts[k], w.pts[k + 1]}];
        }
    }
    for (const auto& kv : cnt)
        if (kv.second % 2) t.segs.push_back(kv.first);
    std::map<Pt, int> deg;
    for (const Seg& sg : t.segs) {
        ++deg[sg.a];
        ++deg[sg.b];
    }
    for (const auto& kv : deg) {
        if (kv.second % 2) t.odd_vertex = true;
        if (kv.second > 2) ++t.split_locations;
    }
    for (size_t i = 0; i < t.segs.size() && !t.crossing; ++i)
        for (size_t j = i + 1; j < t.segs.size(); ++j)
            if (conflict(t.segs[i], t.segs[j])) {
                t.crossing = true;
                break;
            }
    return t;
}

// Orientation of outer rings as the library fixes it (ProtoRing::fix_direction): positive signed area (counter-clockwise in a
// coordinate system with x to the right and y up); inner rings the opposite.
static const int EXPECTED_OUTER_SIGN = 1;
struct KnownFinding {};  // thrown by check_output when the outcome is exactly an open known finding
static int g_outer_sign = 0;  // orientation of outer rings, fixed by the library (checked to be one constant)

static void check_output(const Input& in, const Truth& t, const Output& o, const Scene& sc, const std::string& d) {
    VP_CHECK(!o.threw, "assembler-threw", "assembler threw " << o.what << " | " << d);
    const bool has_rings = !o.rings.empty();
    if (!t.valid()) {
        VP_CHECK(!has_rings, "invalid-input-assembled", "input with " << (t.crossing ? "crossing/overlapping segments" : t.odd_vertex ? "an open ring" : "no segments") << " was assembled into an area with " << o.rings.size() << " rings | " << d);
        if (!in.create_empty) VP_CHECK(!o.returned && !o.has_area, "invalid-input-assembled", "assembler reported success for an invalid arrangement | " << d);
        if (!t.segs.empty()) {
            if (t.crossing) VP_CHECK(o.rec.intersections > 0, "problem-not-reported", "segments cross/overlap but no intersection was reported to the problem reporter | " << d);
            else if (t.odd_vertex) VP_CHECK(o.rec.not_closed > 0, "problem-not-reported", "ring is open but report_ring_not_closed was not called | " << d);
        }
        return;
    }
    if (!has_rings && t.split_locations > 16 && o.rec.intersections == 0 && o.rec.not_closed == 0 && vp::known_open("F31")) {
        // known finding F31: the ring-joining search gives up silently after 20 recursion steps (max_depth); arrangements with more
        // than 16 touching points can need more. Exactly this outcome is excluded (and counted); anything else is still checked.
        vp::count("excluded_known_F31_valid_arrangement_not_assembled");
        throw KnownFinding{};
    }
    VP_CHECK(has_rings && o.returned, "valid-input-rejected", "valid arrangement (" << t.segs.size() << " segments, " << t.split_locations << " touching points) was not assembled"
                                                                                    << " (intersections reported=" << o.rec.intersections << ", not_closed=" << o.rec.not_closed << ") | " << d);
    // rings closed, >= 4 points, no zero-length segments
    std::vector<Seg> outsegs;
    for (const auto& r : o.rings) {
        VP_CHECK(r.second.size() >= 4, "ring-too-short", "ring with " << r.second.size() << " points | " << d);
        VP_CHECK(r.second.front() == r.second.back(), "ring-not-closed", "ring is not closed | " << d);
        for (size_t k = 0; k + 1 < r.second.size(); ++k) {
            VP_CHECK(r.second[k] != r.second[k + 1], "ring-degenerate-segment", "ring contains a zero-length segment | " << d);
            outsegs.emplace_back(r.second[k], r.second[k + 1]);
        }
    }
    // segment multiset equals the input's (mod 2)
    {
        std::vector<Seg> a = outsegs, b = t.segs;
        std::sort(a.begin(), a.end());
        std::sort(b.begin(), b.end());
        VP_CHECK(a == b, "segments-differ", "ring segments are not exactly the input segments (output " << a.size() << ", input after duplicate cancellation " << b.size() << ") | " << d);
    }
    // (no crossing among output segments follows from multiset equality + validity of the input, re-checked cheaply for small outputs)
    if (outsegs.size() <= 200) {
        for (size_t i = 0; i < outsegs.size(); ++i)
            for (size_t j = i + 1; j < outsegs.size(); ++j) VP_CHECK(!conflict(outsegs[i], outsegs[j]), "ring-segments-cross", "two ring segments cross or overlap | " << d);
    }
    // orientation
    VP_CHECK(o.rings.front().first, "ring-order", "area starts with an inner ring | " << d);
    for (const auto& r : o.rings) {
        int sg = sgn(area2(r.second));
        VP_CHECK(sg != 0, "ring-orientation", "ring with zero signed area | " << d);
        int want_outer = g_outer_sign;
        if (want_outer == 0) want_outer = g_outer_sign = (r.first ? sg : -sg);
        VP_CHECK((r.first ? sg : -sg) == want_outer, "ring-orientation", (r.first ? "outer" : "inner") << " ring has the wrong orientation (outer rings must all have one orientation, inner rings the opposite) | " << d);
    }
    VP_CHECK(g_outer_sign == EXPECTED_OUTER_SIGN, "ring-orientation", "outer rings are oriented " << (g_outer_sign > 0 ? "counter-clockwise" : "clockwise") << ", the fixed orientation is the opposite | " << d);
    // nesting: every inner ring lies inside the outer ring it follows, and that outer ring is the innermost one containing it
    {
        std::vector<size_t> outers;
        for (size_t i = 0; i < o.rings.size(); ++i)
            if (o.rings[i].first) outers.push_back(i);
        auto ring_segs = [&](size_t i) {
            std::vector<Seg> v;
            for (size_t k = 0; k + 1 < o.rings[i].second.size(); ++k) v.emplace_back(o.rings[i].second[k], o.rings[i].second[k + 1]);
            return v;
        };
        // test point of ring i (doubled coordinates) that is not on the boundary of ring j
        auto probe = [&](size_t i, const std::vector<Seg>& other2, Pt& out) {
            const auto& r = o.rings[i].second;
            for (size_t k = 0; k + 1 < r.size(); ++k) {
                Pt mid{r[k].x + r[k + 1].x, r[k].y + r[k + 1].y};
                if (!on_any(other2, mid)) {
                    out = mid;
                    return true;
                }
            }
            return false;
        };
        auto doubled = [](const std::vector<Pt>& r) {
            std::vector<Pt> v;
            for (const Pt& p : r) v.push_back(Pt{2 * p.x, 2 * p.y});
            return v;
        };
        size_t cur_outer = 0;
        for (size_t i = 0; i < o.rings.size(); ++i) {
            if (o.rings[i].first) {
                cur_outer = i;
                continue;
            }
            std::vector<Seg> os2;
            for (const Seg& sg : ring_segs(cur_outer)) os2.emplace_back(Pt{2 * sg.a.x, 2 * sg.a.y}, Pt{2 * sg.b.x, 2 * sg.b.y});
            Pt p;
            if (!probe(i, os2, p)) continue;  // inner ring runs entirely along its outer ring: cannot happen for a valid arrangement
            VP_CHECK(in_ring(doubled(o.rings[cur_outer].second), p), "inner-outside-outer", "inner ring #" << i << " is not inside the outer ring it is attached to | " << d);
            for (size_t oj : outers) {
                if (oj == cur_outer) continue;
                std::vector<Seg> oj2;
                for (const Seg& sg : ring_segs(oj)) oj2.emplace_back(Pt{2 * sg.a.x, 2 * sg.a.y}, Pt{2 * sg.b.x, 2 * sg.b.y});
                if (on_any(oj2, p) || !in_ring(doubled(o.rings[oj].second), p)) continue;
                // oj also contains the inner ring: it must then contain the attached outer ring as well (be an ancestor)
                Pt q;
                if (!probe(cur_outer, oj2, q)) continue;
                VP_CHECK(in_ring(doubled(o.rings[oj].second), q), "inner-attached-to-wrong-outer", "inner ring #" << i << " is attached to outer ring #" << cur_outer << " but lies inside outer ring #" << oj << " which is nested deeper | " << d);
            }
        }
    }
    // covered region == even-odd fill of the input segments, on the sample points (4x coordinates)
    {
        std::vector<Seg> in4;
        for (const Seg& sg : t.segs) in4.emplace_back(Pt{4 * sg.a.x, 4 * sg.a.y}, Pt{4 * sg.b.x, 4 * sg.b.y});
        std::vector<std::vector<Pt>> rings4;
        for (const auto& r : o.rings) {
            std::vector<Pt> v;
            for (const Pt& p : r.second) v.push_back(Pt{4 * p.x, 4 * p.y});
            rings4.push_back(std::move(v));
        }
        size_t inside_pts = 0;
        for (const Pt& p : sc.samples) {
            if (on_any(in4, p)) continue;
            bool want = in_segments(in4, p);
            bool got = false;
            for (size_t i = 0; i < o.rings.size() && !got; ++i) {
                if (!o.rings[i].first || !in_ring(rings4[i], p)) continue;
                bool in_hole = false;
                for (size_t k = i + 1; k < o.rings.size() && !o.rings[k].first; ++k)
                    if (in_ring(rings4[k], p)) in_hole = true;
                if (!in_hole) got = true;
            }
            if (want) ++inside_pts;
            VP_CHECK(got == want, "region-differs", "point (" << p.x << "/4," << p.y << "/4) is " << (want ? "inside" : "outside") << " the even-odd fill of the input segments but " << (got ? "inside" : "outside") << " the assembled area | " << d);
        }
        (void)inside_pts;
    }
    // statistics agree with the rings
    {
        size_t no = 0, ni = 0;
        for (const auto& r : o.rings) (r.first ? no : ni)++;
        VP_CHECK(o.stats.outer_rings == no && o.stats.inner_rings == ni, "stats", "area_stats says " << o.stats.outer_rings << "/" << o.stats.inner_rings << " outer/inner rings, the area has " << no << "/" << ni << " | " << d);
    }
}

static void prop(Src& s) {
    Scene sc;
    sc.n = 1 + static_cast<int>(s.draw(s.chance(1, 4) ? 12 : 6));
    sc.m = 1 + static_cast<int>(s.draw(s.chance(1, 4) ? 12 : 6));
    // affine map, det != 0
    Affine& af = sc.af;
    do {
        if (s.chance(1, 3)) {
            af.a = 1; af.b = 0; af.c = 0; af.d = 1;
        } else {
            af.a = s.range(-5, 5); af.b = s.range(-5, 5); af.c = s.range(-5, 5); af.d = s.range(-5, 5);
        }
    } while (af.a * af.d - af.b * af.c == 0);
    static const int64_t scales[] = {1, 3, 10, 1000, 99991, 1000000};
    int64_t scale = scales[s.draw(6)];
    af.a *= scale; af.b *= scale; af.c *= scale; af.d *= scale;
    {
        // extent of the mapped grid; choose the offset so that all locations are valid
        int64_t minx = 0, maxx = 0, miny = 0, maxy = 0;
        for (int i : {0, sc.n})
            for (int j : {0, sc.m}) {
                Pt p = af.map(i, j);
                minx = std::min(minx, p.x); maxx = std::max(maxx, p.x); miny = std::min(miny, p.y); maxy = std::max(maxy, p.y);
            }
        int64_t lox = -1800000000 - minx, hix = 1800000000 - maxx, loy = -900000000 - miny, hiy = 900000000 - maxy;
        switch (s.weighted({4, 3, 1, 1})) {
            case 0: af.tx = std::max(lox, std::min(hix, s.range(-1000, 1000))); af.ty = std::max(loy, std::min(hiy, s.range(-1000, 1000))); break;
            case 1: af.tx = std::max(lox, std::min(hix, s.range(-100000000, 100000000))); af.ty = std::max(loy, std::min(hiy, s.range(-100000000, 100000000))); break;
            case 2: af.tx = s.boolean() ? lox : hix; af.ty = s.boolean() ? loy : hiy; break;  // at the edge of the valid range
            default: af.tx = s.range(lox, hix); af.ty = s.range(loy, hiy); break;
        }
    }
    // images and their boundary edges (grid coordinates)
    std::vector<std::pair<Pt, Pt>> gedges;
    const bool overlay = s.chance(1, 4);
    const bool merge = s.chance(1, 2);
    {
        auto img = gen_image(s, sc.n, sc.m);
        // keep touching clusters small: the assembler's search limits (max_depth 20, max_split_locations 100) are design limits
        auto count_touch = [&](const std::vector<std::vector<int>>& im) {
            size_t c = 0;
            for (int i = 0; i + 1 < sc.n; ++i)
                for (int j = 0; j + 1 < sc.m; ++j)
                    if (im[i][j] == im[i + 1][j + 1] && im[i][j + 1] == im[i + 1][j] && im[i][j] != im[i][j + 1]) ++c;
            return c;
        };
        int rounds = 0;
        static const size_t gen_touch = static_cast<size_t>(std::atoi(vp::extra("max-touch", "28").c_str())) - 2;
        while (count_touch(img) > gen_touch) {
            if (++rounds > 30) {
                for (auto& row : img)
                    for (auto& c : row) c = 1;
                break;
            }
            for (int i = 0; i + 1 < sc.n; ++i)
                for (int j = 0; j + 1 < sc.m; ++j)
                    if (img[i][j] == img[i + 1][j + 1] && img[i][j + 1] == img[i + 1][j] && img[i][j] != img[i][j + 1] && count_touch(img) > gen_touch) img[i][j] ^= 1;
            vp::count("touching_points_reduced");
        }
        image_edges(img, gedges);
        if (merge) merge_collinear(gedges, s, 1, 3);
        if (overlay) {
            auto img2 = gen_image(s, sc.n, sc.m);
            std::vector<std::pair<Pt, Pt>> e2;
            image_edges(img2, e2);
            if (merge && s.boolean()) merge_collinear(e2, s, 1, 3);
            gedges.insert(gedges.end(), e2.begin(), e2.end());
        }
    }
    for (const auto& e : gedges) sc.edges.emplace_back(af.map(e.first.x, e.first.y), af.map(e.second.x, e.second.y));
    // sample points in 4x coordinates: four per cell plus a frame outside
    for (int i = -1; i <= sc.n; ++i)
        for (int j = -1; j <= sc.m; ++j)
            for (int di : {1, 3})
                for (int dj : {1, 3}) sc.samples.push_back(Pt{af.a * (4 * i + di) + af.b * (4 * j + dj) + 4 * af.tx, af.c * (4 * i + di) + af.d * (4 * j + dj) + 4 * af.ty});

    // mutation
    std::vector<std::pair<Pt, Pt>> edges = sc.edges;
    switch (s.weighted({10, 3, 3, 2, 1})) {
        case 0: break;
        case 1:
            if (!edges.empty()) {
                edges.erase(edges.begin() + static_cast<std::ptrdiff_t>(s.draw(edges.size())));
                sc.mutation = "edge-dropped";
            }
            break;
        case 2: {  // extra closed triangle/quad on grid vertices (may cross, touch, overlap or be harmless)
            size_t k = 3 + s.draw(2);
            std::vector<Pt> poly;
            for (size_t i = 0; i < k; ++i) poly.push_back(af.map(static_cast<int64_t>(s.draw(sc.n + 1)), static_cast<int64_t>(s.draw(sc.m + 1))));
            for (size_t i = 0; i < k; ++i)
                if (poly[i] != poly[(i + 1) % k]) edges.emplace_back(poly[i], poly[(i + 1) % k]);
            sc.mutation = "extra-polygon";
            break;
        }
        case 3:
            if (!edges.empty()) {  // move one vertex (all its edges) to another grid vertex
                Pt from = s.boolean() ? edges[s.draw(edges.size())].first : edges[s.draw(edges.size())].second;
                Pt to = af.map(static_cast<int64_t>(s.draw(sc.n + 1)), static_cast<int64_t>(s.draw(sc.m + 1)));
                for (auto& e : edges) {
                    if (e.first == from) e.first = to;
                    if (e.second == from) e.second = to;
                }
                edges.erase(std::remove_if(edges.begin(), edges.end(), [](const std::pair<Pt, Pt>& e) { return e.first == e.second; }), edges.end());
                sc.mutation = "vertex-moved";
            }
            break;
        default:
            if (!edges.empty()) {  // duplicate one edge (the pair cancels: an open ring results)
                edges.push_back(edges[s.draw(edges.size())]);
                sc.mutation = "edge-duplicated";
            }
            break;
    }
    if (edges.empty()) {
        vp::count("empty_scene");
        return;
    }
    // node ids: one per location, shuffled, positive and negative
    std::map<Pt, int64_t> nodeid;
    {
        std::set<Pt> pts;
        for (const auto& e : edges) {
            pts.insert(e.first);
            pts.insert(e.second);
        }
        std::vector<int64_t> ids;
        for (size_t i = 0; i < pts.size(); ++i) ids.push_back(s.chance(1, 8) ? -static_cast<int64_t>(i + 1) : static_cast<int64_t>(i + 1));
        for (size_t i = ids.size(); i > 1; --i) std::swap(ids[i - 1], ids[s.draw(i)]);
        size_t k = 0;
        for (const Pt& p : pts) nodeid[p] = ids[k++];
    }
    auto ways = s.chance(1, 6) ? cut_into_ways(s, edges, 0, 1) : cut_into_ways(s, edges, 1, 2 + static_cast<unsigned>(s.draw(12)));
    Input in = make_input(s, ways, nodeid, true);
    if (ways.size() == 1 && ways[0].size() >= 4 && ways[0].front() == ways[0].back() && s.boolean()) in.as_closed_way = true;
    if (!in.as_closed_way && in.ways.size() > 1 && s.chance(1, 12)) {
        in.ways.push_back(in.ways[s.draw(in.ways.size())]);  // the same way listed twice in the relation
        vp::count("duplicate_way_member");
    }
    if (s.chance(1, 10)) {
        // consecutive duplicate node in one way
        auto& w = in.ways[s.draw(in.ways.size())];
        size_t k = s.draw(w.pts.size());
        w.pts.insert(w.pts.begin() + static_cast<std::ptrdiff_t>(k), w.pts[k]);
        vp::count("duplicate_node_in_way");
    }
    const std::string d = describe(sc, in);
    if (vp::want_desc()) vp::describe(d);

    Truth t = ground_truth(in);
    static const size_t max_touch = static_cast<size_t>(std::atoi(vp::extra("max-touch", "28").c_str()));
    if (t.split_locations > max_touch) {
        vp::count("skipped_too_many_touching_points");  // design limit of the assembler's search, not part of the property
        return;
    }
    Output o = run_assembler(in);
    if (std::getenv("VERIF_DUMP")) {
        for (const auto& w : in.ways) {
            std::fprintf(stderr, "WAY %ld:", static_cast<long>(w.id));
            for (const Pt& p : w.pts) std::fprintf(stderr, " %ld,%ld", static_cast<long>(p.x), static_cast<long>(p.y));
            std::fprintf(stderr, "\n");
        }
        for (const auto& r : o.rings) {
            std::fprintf(stderr, "%s:", r.first ? "OUTER" : "INNER");
            for (const Pt& p : r.second) std::fprintf(stderr, " %ld,%ld", static_cast<long>(p.x), static_cast<long>(p.y));
            std::fprintf(stderr, "\n");
        }
    }
    try {
        check_output(in, t, o, sc, d);
    } catch (const KnownFinding&) {
        return;
    }

    // metamorphic: re-cut, reverse and shuffle the same segment multiset; the canonical result must be identical
    if (t.valid()) {
        std::vector<std::pair<Pt, Pt>> e2;
        {
            // rebuild the edge multiset from the ways actually used (so that duplicate nodes/ways are already accounted for)
            for (const Seg& sg : t.segs) e2.emplace_back(sg.a, sg.b);
            if (s.boolean()) {
                // add a cancelling pair on top
                e2.push_back(e2[0]);
                e2.push_back(e2[0]);
            }
        }
        auto ways2 = cut_into_ways(s, e2, 1, 2 + static_cast<unsigned>(s.draw(6)));
        Input in2 = make_input(s, ways2, nodeid, true);
        in2.create_empty = in.create_empty;
        Truth t2 = ground_truth(in2);
        Output o2 = run_assembler(in2);
        const std::string d2 = d + " || recut: " + describe(sc, in2);
        try {
            check_output(in2, t2, o2, sc, d2);
        } catch (const KnownFinding&) {
            return;
        }
        VP_CHECK(canonical(o) == canonical(o2), "result-depends-on-cutting", "the same segments cut into different ways / member order / directions give a different area:\n" << canonical(o) << "---\n" << canonical(o2) << " | " << d2);
        vp::count("metamorphic_recut");
    }

    // classification
    size_t inner = 0;
    for (const auto& r : o.rings)
        if (!r.first) ++inner;
    vp::count(std::string{"mutation_"} + sc.mutation);
    if (t.valid()) vp::count(t.split_locations == 0 ? "touching_points_0" : t.split_locations <= 4 ? "touching_points_1-4" : t.split_locations <= 16 ? "touching_points_5-16" : t.split_locations <= 40 ? "touching_points_17-40" : "touching_points_41-100");
    vp::count(t.valid() ? "valid_arrangement" : t.crossing ? "invalid_crossing" : t.odd_vertex ? "invalid_open_ring" : "invalid_empty");
    if (t.valid()) {
        if (o.stats.area_really_complex_case) vp::count("case_really_complex");
        else if (o.stats.area_touching_rings_case) vp::count("case_touching_rings");
        else vp::count("case_simple");
        if (inner) vp::count("with_inner_rings");
        if (in.as_closed_way) vp::count("closed_way_variant");
        if (overlay) vp::count("overlay_xor");
    }
    if (t.valid() && (inner > 0 || t.split_locations > 0)) vp::nontrivial(vp::hash_str(canonical(o)) ^ vp::hash_str(d));
}

// ---------------------------------------------------------------- regression scenarios
static void run_fixed(const std::vector<std::vector<Pt>>& ways) {
    Input in;
    int64_t wid = 100, nid = 1;
    Scene sc;
    int64_t minx = INT64_MAX, maxx = INT64_MIN, miny = INT64_MAX, maxy = INT64_MIN;
    for (const auto& w : ways) {
        WayIn wi;
        wi.id = wid++;
        wi.pts = w;
        wi.role = "outer";
        in.ways.push_back(wi);
        for (const Pt& p : w) {
            if (!in.nodeid.count(p)) in.nodeid[p] = nid++;
            minx = std::min(minx, p.x); maxx = std::max(maxx, p.x); miny = std::min(miny, p.y); maxy = std::max(maxy, p.y);
        }
    }
    for (int64_t x = 4 * minx - 3; x <= 4 * maxx + 3; x += 2)
        for (int64_t y = 4 * miny - 3; y <= 4 * maxy + 3; y += 2) sc.samples.push_back(Pt{x, y});
    for (bool ce : {true, false}) {
        in.create_empty = ce;
        Truth t = ground_truth(in);
        Output o = run_assembler(in);
        try {
            check_output(in, t, o, sc, describe(sc, in));
        } catch (const KnownFinding&) {
            vp::fail("valid-input-rejected", "valid arrangement with " + std::to_string(t.split_locations) + " touching points was not assembled (known finding F31) | " + describe(sc, in));
        }
    }
}

VP_BUILTIN(F31_valid_arrangement_beyond_search_depth) {
    // a 5 x 7 checkerboard: 17 squares touching in 24 points, a valid arrangement (every square is an outer ring)
    std::vector<std::vector<Pt>> ways;
    for (int i = 0; i < 5; ++i)
        for (int j = 0; j < 7; ++j)
            if ((i + j) % 2 == 1) ways.push_back({{i, j}, {i + 1, j}, {i + 1, j + 1}, {i, j + 1}, {i, j}});
    run_fixed(ways);
}

VP_BUILTIN(F27_inner_ring_attached_to_touching_outer) {
    // a hole whose lowest-leftmost node lies exactly above the node in which its outer ring touches another outer ring
    run_fixed({{{-992, -1030}, {-994, -1025}, {-993, -1030}, {-991, -1035}, {-992, -1030}},
               {{-992, -1025}, {-993, -1020}, {-991, -1025}, {-989, -1030}, {-988, -1035}, {-987, -1040}, {-986, -1045}, {-988, -1040}, {-990, -1035}, {-992, -1030}, {-993, -1025}, {-994, -1020}, {-992, -1025},
                {-990, -1030}, {-989, -1035}, {-991, -1030}, {-992, -1025}}});
}

VP_MAIN(prop, "constructive generator with known ground truth: random binary image on an n x m grid (n,m <= 12; random density, rectangle unions/differences, concentric rings, checkerboard patches "
              "for touching corners; 1/4 XOR-overlaid with a second image so that duplicate segments cancel), boundary edges optionally merged when collinear, mapped through a random integer "
              "affine map (shear/scale/reflection, offsets up to the edge of the valid coordinate range), cut into ways by random trail decomposition, ways reversed, members shuffled, random "
              "roles; mutations: edge dropped, extra polygon on grid vertices, vertex moved, edge duplicated, duplicate way member, duplicate node. Oracle: the harness's exact (__int128) "
              "arrangement checker decides validity (no crossing/overlap/T-junction, even vertex degrees); valid => assembled, rings closed with >= 4 points, ring segment multiset == input "
              "segments mod 2, fixed opposite orientation of outer/inner rings, inner rings inside the innermost containing outer ring, even-odd fill of the input == covered region on 4 "
              "sample points per cell, stats consistent; invalid => no rings and the matching problem-reporter callback; metamorphic: re-cutting/reversing/shuffling gives the identical "
              "canonical area. non-trivial = valid arrangement with >= 1 inner ring or >= 1 touching point; distinct by hash of the canonical result and the input")
