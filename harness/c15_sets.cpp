// C15: id sets, relation maps and the item stash match their set/map models.
#include "gen.hpp"
#include "walker.hpp"

#include <osmium/index/id_set.hpp>
#include <osmium/index/nwr_array.hpp>
#include <osmium/index/relations_map.hpp>
#include <osmium/storage/item_stash.hpp>

#include <map>
#include <set>

using vp::Src;

// ---------------------------------------------------------------- IdSetDense

template <typename T, std::size_t BITS>
static T gen_dense_id(Src& s, bool allow_top) {
    // ids clustered at chunk borders (a chunk covers 2^(BITS+3) ids) and, for the big chunk size, at the type maximum
    const uint64_t chunk_ids = 1ULL << (BITS + 3);
    const uint64_t max_chunks = BITS >= 20 ? (allow_top && sizeof(T) == 4 ? 128 : 6) : 64;
    uint64_t id;
    switch (s.weighted({3, 4, 2, 1})) {
        case 0: id = s.draw(64); break;
        case 1: {
            uint64_t c = s.draw(max_chunks);
            int64_t d = static_cast<int64_t>(s.draw(19)) - 9;
            id = c * chunk_ids + static_cast<uint64_t>(d);
            if (c == 0 && d < 0) id = static_cast<uint64_t>(-d);
            break;
        }
        case 2: id = s.draw(max_chunks * chunk_ids); break;
        default:
            if (BITS >= 20 && sizeof(T) == 4 && allow_top) id = 4294967295ULL - s.draw(40);
            else id = (max_chunks * chunk_ids - 1) - s.draw(40);
            break;
    }
    const uint64_t limit = BITS >= 20 ? (sizeof(T) == 4 ? 4294967295ULL : (1ULL << 36)) : max_chunks * chunk_ids;
    if (id > limit) id = limit;
    if (id >= max_chunks * chunk_ids) id = max_chunks * chunk_ids - 1;
    return static_cast<T>(id);
}

template <typename T, std::size_t BITS>
static void idset_dense(Src& s, const char* name) {
    using Set = osmium::index::IdSetDense<T, BITS>;
    const bool f18 = vp::known_open("F18");
    const bool allow_top = !f18;
    if (f18) vp::count("excluded_F18_top_chunk_ids");
    Set set;
    std::set<uint64_t> model;
    Set other;
    std::set<uint64_t> other_model;
    size_t steps = 1 + s.draw(60);
    std::string hist = std::string{name} + ":";
    bool crossed = false;
    std::vector<T> recent;
    for (size_t i = 0; i < steps; ++i) {
        int cmd = static_cast<int>(s.weighted({8, 3, 3, 4, 1, 1, 1, 1, 3}));
        T id = gen_dense_id<T, BITS>(s, allow_top);
        // operations on the ids of the last few steps (set x, unset x, set x again, ...): state kept per "last id" shows only there
        if (!recent.empty() && s.chance(1, 3)) id = recent[recent.size() - 1 - s.draw(std::min<size_t>(recent.size(), 3))];
        recent.push_back(id);
        switch (cmd) {
            case 0:
                set.set(id);
                model.insert(id);
                hist += " set(" + std::to_string(id) + ")";
                break;
            case 1:
                set.unset(id);
                model.erase(id);
                hist += " unset(" + std::to_string(id) + ")";
                break;
            case 2: {
                bool r = set.check_and_set(id);
                bool want = model.insert(id).second;
                hist += " check_and_set(" + std::to_string(id) + ")";
                VP_CHECK(r == want, "idset-check-and-set", name << ": check_and_set(" << id << ") returned " << r << " | " << hist);
                break;
            }
            case 3: {
                bool r = set.get(id);
                VP_CHECK(r == (model.count(id) != 0), "idset-get", name << ": get(" << id << ") = " << r << " | " << hist);
                // neighbours
                for (int d : {-1, 1, 7, 8, -8}) {
                    uint64_t n = static_cast<uint64_t>(id) + static_cast<uint64_t>(static_cast<int64_t>(d));
                    if (n > std::numeric_limits<T>::max()) continue;
                    VP_CHECK(set.get(static_cast<T>(n)) == (model.count(n) != 0), "idset-get", name << ": get(" << n << ") wrong | " << hist);
                }
                break;
            }
            case 4:
                set.clear();
                model.clear();
                hist += " clear";
                break;
            case 5: {  // copy construct + copy assign
                Set c{set};
                other = c;
                other_model = model;
                hist += " copy";
                // the copy is independent
                if (!model.empty()) {
                    other.unset(static_cast<T>(*model.begin()));
                    other_model.erase(*model.begin());
                }
                break;
            }
            case 6: {  // move
                // (move assignment of IdSetDense does not compile: the by-value and the defaulted move operator= are ambiguous)
                Set m{std::move(set)};
                Set fresh;
                using std::swap;
                swap(set, fresh);
                swap(set, m);
                hist += " move";
                break;
            }
            case 7: {
                using std::swap;
                swap(set, other);
                std::swap(model, other_model);
                hist += " swap";
                break;
            }
            default: {  // full iteration
                std::vector<uint64_t> got;
                for (auto it = set.begin(); it != set.end(); ++it) {
                    got.push_back(*it);
                    if (got.size() > model.size() + 2) break;
                }
                std::vector<uint64_t> want(model.begin(), model.end());
                hist += " iterate";
                if (got != want) {
                    vp::fail("idset-iterate", std::string{name} + ": iteration yields " + std::to_string(got.size()) + " ids, model has " + std::to_string(want.size()) + (want.empty() ? "" : " (largest " + std::to_string(want.back()) + ")") + " | " + hist);
                }
                break;
            }
        }
        VP_CHECK(static_cast<uint64_t>(set.size()) == model.size(), "idset-size", name << ": size() = " << static_cast<uint64_t>(set.size()) << " model " << model.size() << " | " << hist);
        VP_CHECK(set.empty() == model.empty(), "idset-size", name << ": empty() wrong | " << hist);
        if (!model.empty() && (*model.rbegin() >> (BITS + 3)) != (*model.begin() >> (BITS + 3))) crossed = true;
    }
    // final full comparison
    std::vector<uint64_t> got;
    for (auto id : set) {
        got.push_back(id);
        if (got.size() > model.size() + 2) break;
    }
    std::vector<uint64_t> want(model.begin(), model.end());
    if (got != want) vp::fail("idset-iterate", std::string{name} + ": final iteration yields " + std::to_string(got.size()) + " ids, model has " + std::to_string(want.size()) + (want.empty() ? "" : " (largest " + std::to_string(want.back()) + ")") + " | " + hist);
    VP_CHECK(set.used_memory() % (1ULL << BITS) == 0, "idset-memory", "used_memory not a multiple of the chunk size");
    if (vp::want_desc()) vp::describe(hist);
    if (crossed) vp::nontrivial(vp::hash_str(hist));
    vp::count(std::string{"idset_dense_"} + name);
}

// ---------------------------------------------------------------- IdSetSmall

static void idset_small(Src& s) {
    osmium::index::IdSetSmall<uint64_t> set;
    std::vector<uint64_t> model;  // consecutive de-duplication only
    std::string hist = "IdSetSmall:";
    size_t steps = 1 + s.draw(50);
    for (size_t i = 0; i < steps; ++i) {
        uint64_t id = s.chance(1, 2) ? s.draw(12) : static_cast<uint64_t>(gen::bint(s, 0, INT64_MAX, {1LL << 32}));
        switch (s.weighted({8, 3, 2, 1, 2})) {
            case 0:
                set.set(id);
                if (model.empty() || model.back() != id) model.push_back(id);
                hist += " set(" + std::to_string(id) + ")";
                break;
            case 1:
                VP_CHECK(set.get(id) == (std::find(model.begin(), model.end(), id) != model.end()), "idsetsmall-get", "get(" << id << ") wrong | " << hist);
                break;
            case 2: {
                set.sort_unique();
                std::sort(model.begin(), model.end());
                model.erase(std::unique(model.begin(), model.end()), model.end());
                hist += " sort_unique";
                VP_CHECK(set.size() == model.size(), "idsetsmall-size", "size after sort_unique " << set.size() << " model " << model.size() << " | " << hist);
                VP_CHECK(std::vector<uint64_t>(set.begin(), set.end()) == model, "idsetsmall-iterate", "iteration after sort_unique differs | " << hist);
                VP_CHECK(set.get_binary_search(id) == std::binary_search(model.begin(), model.end(), id), "idsetsmall-get", "get_binary_search(" << id << ") wrong | " << hist);
                break;
            }
            case 3:
                set.clear();
                model.clear();
                hist += " clear";
                break;
            default: {  // merge_sorted with another sorted set
                set.sort_unique();
                std::sort(model.begin(), model.end());
                model.erase(std::unique(model.begin(), model.end()), model.end());
                osmium::index::IdSetSmall<uint64_t> o;
                std::set<uint64_t> om;
                size_t n = s.draw(10);
                for (size_t k = 0; k < n; ++k) {
                    uint64_t v = s.chance(1, 2) ? s.draw(12) : s.draw(1ULL << 40);
                    o.set(v);
                    om.insert(v);
                }
                o.sort_unique();
                set.merge_sorted(o);
                std::set<uint64_t> u(model.begin(), model.end());
                u.insert(om.begin(), om.end());
                model.assign(u.begin(), u.end());
                hist += " merge_sorted(" + std::to_string(n) + ")";
                VP_CHECK(std::vector<uint64_t>(set.cbegin(), set.cend()) == model, "idsetsmall-merge", "merge_sorted result differs | " << hist);
                break;
            }
        }
        VP_CHECK(set.empty() == model.empty(), "idsetsmall-size", "empty() wrong | " << hist);
    }
    if (vp::want_desc()) vp::describe(hist);
    if (model.size() >= 2) vp::nontrivial(vp::hash_str(hist));
    vp::count("idset_small");
}

// ---------------------------------------------------------------- NWRIdSet

static void nwr_idset(Src& s) {
    osmium::nwr_array<osmium::index::IdSetDense<osmium::unsigned_object_id_type>> sets;
    std::set<uint64_t> model[3];
    std::string hist = "nwr_array:";
    size_t steps = 1 + s.draw(20);
    for (size_t i = 0; i < steps; ++i) {
        int t = static_cast<int>(s.draw(3));
        uint64_t id = s.draw(5000);
        osmium::item_type it = osmium::nwr_index_to_item_type(static_cast<unsigned>(t));
        if (s.chance(2, 3)) {
            sets(it).set(id);
            model[t].insert(id);
            hist += std::string{" "} + "nwr"[t] + std::to_string(id);
        }
        for (int k = 0; k < 3; ++k) {
            VP_CHECK(sets(osmium::nwr_index_to_item_type(static_cast<unsigned>(k))).get(id) == (model[k].count(id) != 0), "nwr-array", "nwr_array set " << k << " wrong for id " << id << " | " << hist);
        }
    }
    vp::count("nwr_array");
}

// ---------------------------------------------------------------- RelationsMapStash

static void relations_map(Src& s) {
    osmium::index::RelationsMapStash stash;
    std::set<std::pair<uint64_t, uint64_t>> model;  // (member, parent)
    std::string hist = "RelationsMap:";
    size_t n = s.draw(40);
    bool any64 = false;
    auto gen_id = [&](void) -> uint64_t {
        switch (s.weighted({5, 2, 2, 1})) {
            case 0: return 1 + s.draw(12);
            case 1: return 4294967295ULL - s.draw(3);
            case 2: return 4294967296ULL + s.draw(14);  // congruent to small ids modulo 2^32
            default: return static_cast<uint64_t>(gen::bint(s, 1, INT64_MAX));
        }
    };
    bool via_relation = s.chance(1, 4);
    if (via_relation) {
        // add_members(): only relation-type members count, ids enter by absolute value
        size_t nrel = s.draw(6);
        for (size_t r = 0; r < nrel; ++r) {
            model::Obj rel;
            rel.type = model::RELATION;
            rel.id = static_cast<int64_t>(gen_id()) * (s.boolean() ? 1 : -1);
            size_t nm = s.draw(8);
            for (size_t k = 0; k < nm; ++k) {
                model::Member m;
                m.type = static_cast<int>(s.draw(3));
                m.ref = static_cast<int64_t>(gen_id()) * (s.boolean() ? 1 : -1);
                rel.members.push_back(m);
                if (m.type == 2) {
                    uint64_t mem = static_cast<uint64_t>(m.ref < 0 ? -m.ref : m.ref), par = static_cast<uint64_t>(rel.id < 0 ? -rel.id : rel.id);
                    model.insert({mem, par});
                    if (mem > 4294967295ULL || par > 4294967295ULL) any64 = true;
                }
            }
            osmium::memory::Buffer buf{1024, osmium::memory::Buffer::auto_grow::yes};
            model::add_to_buffer(buf, rel);
            stash.add_members(buf.get<osmium::Relation>(0));
            hist += " rel(" + std::to_string(rel.id) + "," + std::to_string(nm) + ")";
        }
    } else {
        for (size_t i = 0; i < n; ++i) {
            uint64_t m = gen_id(), p = gen_id();
            stash.add(m, p);
            model.insert({m, p});
            if (m > 4294967295ULL || p > 4294967295ULL) any64 = true;
            hist += " add(" + std::to_string(m) + "," + std::to_string(p) + ")";
            if (s.chance(1, 4)) {  // duplicates
                stash.add(m, p);
                hist += " dup";
            }
        }
    }
    VP_CHECK(stash.empty() == model.empty(), "relmap-stash", "stash.empty() wrong | " << hist);
    auto sizes = stash.sizes();
    VP_CHECK(sizes.first + sizes.second == stash.size(), "relmap-stash", "sizes() inconsistent");

    std::vector<uint64_t> probes;
    for (const auto& mp : model) {
        for (uint64_t v : {mp.first, mp.second}) {
            probes.push_back(v);
            probes.push_back(v + 1);
            probes.push_back(v - 1);
            probes.push_back(v + 4294967296ULL);  // congruent modulo 2^32
            if (v >= 4294967296ULL) probes.push_back(v - 4294967296ULL);
        }
    }
    probes.push_back(0);
    probes.push_back(5);
    probes.push_back(4294967296ULL + 5);
    probes.push_back(8589934592ULL + 5);

    auto check_index = [&](const osmium::index::RelationsMapIndex& idx, bool member_to_parent, const char* which) {
        std::set<uint64_t> keys;
        for (const auto& mp : model) keys.insert(member_to_parent ? mp.first : mp.second);
        VP_CHECK(idx.size() == model.size(), "relmap-size", which << ": size " << idx.size() << " model (distinct pairs) " << model.size() << " | " << hist);
        VP_CHECK(idx.empty() == model.empty(), "relmap-size", which << ": empty() wrong");
        for (uint64_t p : probes) {
            std::vector<uint64_t> got, want;
            idx.for_each(p, [&](uint64_t v) { got.push_back(v); });
            for (const auto& mp : model) {
                if ((member_to_parent ? mp.first : mp.second) == p) want.push_back(member_to_parent ? mp.second : mp.first);
            }
            std::sort(want.begin(), want.end());
            std::vector<uint64_t> sorted_got = got;
            std::sort(sorted_got.begin(), sorted_got.end());
            if (sorted_got != want) {
                vp::fail(member_to_parent ? "relmap-member-to-parent" : "relmap-parent-to-member",
                         std::string{which} + ": lookup of " + std::to_string(p) + " yields " + std::to_string(got.size()) + " ids" + (got.empty() ? "" : " (first " + std::to_string(got[0]) + ")") + ", recorded pairs say " + std::to_string(want.size()) + " | " + hist);
            }
            VP_CHECK(std::adjacent_find(sorted_got.begin(), sorted_got.end()) == sorted_got.end(), "relmap-duplicates", which << ": duplicates in lookup of " << p);
        }
    };
    switch (s.draw(3)) {
        case 0: {
            auto idx = stash.build_member_to_parent_index();
            check_index(idx, true, "member_to_parent_index");
            auto moved = std::move(idx);
            check_index(moved, true, "member_to_parent_index(moved)");
            break;
        }
        case 1: {
            auto idx = stash.build_parent_to_member_index();
            check_index(idx, false, "parent_to_member_index");
            break;
        }
        default: {
            auto both = stash.build_indexes();
            check_index(both.member_to_parent(), true, "indexes.member_to_parent");
            check_index(both.parent_to_member(), false, "indexes.parent_to_member");
            VP_CHECK(both.size() == model.size() && both.empty() == model.empty(), "relmap-size", "indexes size wrong");
            break;
        }
    }
    if (vp::want_desc()) vp::describe(hist);
    if (model.size() >= 2) vp::nontrivial(vp::hash_str(hist));
    vp::count(any64 ? "relations_map_64bit" : "relations_map_32bit");
}

// ---------------------------------------------------------------- ItemStash

static model::Obj small_obj(Src& s) {
    gen::ObjOpts go;
    go.max_list = 4;
    go.max_str = 30;
    return gen::object(s, static_cast<int>(s.draw(3)), go);
}

static void check_handle(const osmium::ItemStash& stash, osmium::ItemStash::handle_type h, const model::Obj& want, const std::string& hist) {
    const osmium::memory::Item& item = stash.get_item(h);
    // decode through the independent walker
    std::vector<model::Obj> got;
    try {
        got = walker::walk(item.data(), item.padded_size());
    } catch (const walker::Error& e) {
        vp::fail("stash-layout", std::string{"item behind a handle is not well-formed: "} + e.what() + " | " + hist);
    }
    VP_CHECK(got.size() == 1, "stash-layout", "handle resolves to " << got.size() << " items");
    if (got[0] != want) vp::fail("stash-content", "handle resolves to changed content (" + model::diff(want, got[0]) + ") | " + hist);
    VP_CHECK(!item.removed(), "stash-content", "live handle resolves to a removed item | " << hist);
}

static void item_stash(Src& s, bool long_history) {
    osmium::ItemStash stash;
    std::map<size_t, std::pair<osmium::ItemStash::handle_type, model::Obj>> live;  // key = running number
    size_t next_key = 0;
    std::string hist = long_history ? "ItemStash(long):" : "ItemStash:";
    size_t steps = long_history ? 200000 : 1 + s.draw(60);  // long: ends 500..3000 steps after the automatic collection was seen
    size_t stop_at = steps;
    const size_t tail = 500 + s.draw(2500);
    size_t gcs = 0, removed_total = 0;
    size_t mem_before = stash.used_memory();
    // templates to avoid generating tens of thousands of objects through the choice source
    std::vector<model::Obj> templates;
    for (int i = 0; i < 8; ++i) templates.push_back(small_obj(s));
    vp::Rng fast{s.draw(1ULL << 32)};
    size_t explicit_gc_at = long_history ? steps + 1 : 0;
    bool automatic_gc_seen = false;
    for (size_t i = 0; i < steps && i < stop_at; ++i) {
        int cmd;
        if (long_history) {
            // fill phase, then remove most, then keep adding until the automatic collection has to trigger
            if (i < 14000) cmd = 0;
            else if (i < 14000 + 12500) cmd = (fast.below(8) == 0) ? 0 : 1;
            else if (!automatic_gc_seen) cmd = fast.below(10) == 0 ? 2 : 0;
            else cmd = static_cast<int>(fast.below(3));
            if (automatic_gc_seen && stop_at == steps) stop_at = i + tail;
        } else {
            cmd = static_cast<int>(s.weighted({8, 4, 4, 1, 1}));
        }
        switch (cmd) {
            case 0: {
                model::Obj o = long_history ? templates[fast.below(templates.size())] : small_obj(s);
                o.id = static_cast<int64_t>(next_key);
                osmium::memory::Buffer buf{256, osmium::memory::Buffer::auto_grow::yes};
                model::add_to_buffer(buf, o);
                size_t removed_before = stash.count_removed();
                auto h = stash.add_item(buf.get<osmium::memory::Item>(0));
                if (stash.count_removed() < removed_before) {
                    automatic_gc_seen = true;
                    ++gcs;
                    vp::count("automatic_gc");
                }
                VP_CHECK(h.valid(), "stash-handle", "add_item returned an invalid handle");
                live[next_key++] = {h, o};
                if (!long_history) hist += " add";
                break;
            }
            case 1: {
                if (live.empty()) break;
                auto it = live.begin();
                std::advance(it, static_cast<std::ptrdiff_t>(long_history ? fast.below(std::min<size_t>(live.size(), 50)) : s.draw(live.size())));
                stash.remove_item(it->second.first);
                live.erase(it);
                ++removed_total;
                if (!long_history) hist += " remove";
                break;
            }
            case 2: {
                if (live.empty()) break;
                auto it = live.begin();
                std::advance(it, static_cast<std::ptrdiff_t>(long_history ? fast.below(std::min<size_t>(live.size(), 200)) : s.draw(live.size())));
                check_handle(stash, it->second.first, it->second.second, hist);
                break;
            }
            case 3: {
                size_t committed_live = 0;
                (void)committed_live;
                stash.garbage_collect();
                ++gcs;
                VP_CHECK(stash.count_removed() == 0, "stash-gc", "count_removed after garbage_collect = " << stash.count_removed());
                if (!long_history) hist += " gc";
                break;
            }
            default:
                stash.clear();
                live.clear();
                if (!long_history) hist += " clear";
                break;
        }
        VP_CHECK(stash.size() == live.size(), "stash-size", "size() = " << stash.size() << " model " << live.size() << " | " << hist);
        if (!long_history || i == explicit_gc_at) {
            for (const auto& kv : live) check_handle(stash, kv.second.first, kv.second.second, hist);
        }
    }
    // everything still resolves at the end, also after a final collection; memory must not grow by collecting
    for (const auto& kv : live) check_handle(stash, kv.second.first, kv.second.second, hist + " (end)");
    size_t mem = stash.used_memory();
    stash.garbage_collect();
    VP_CHECK(stash.used_memory() <= mem, "stash-gc", "used_memory grew during garbage collection");
    for (const auto& kv : live) check_handle(stash, kv.second.first, kv.second.second, hist + " (after final gc)");
    // reclaimed: adding as many bytes as were removed must not need more memory than before
    (void)mem_before;
    if (long_history) {
        VP_CHECK(automatic_gc_seen, "stash-auto-gc", "a history with " << removed_total << " removals and a nearly full buffer never triggered the automatic garbage collection");
        hist += " steps=" + std::to_string(stop_at) + " removed=" + std::to_string(removed_total) + " gcs=" + std::to_string(gcs);
    }
    if (vp::want_desc()) vp::describe(hist);
    if (removed_total > 0 && gcs > 0) vp::nontrivial(vp::hash_str(hist + std::to_string(steps) + std::to_string(next_key)));
    vp::count(long_history ? "item_stash_long" : "item_stash");
}

static void prop(Src& s) {
    const bool thorough = vp::opts().tier == "thorough";
    switch (s.weighted({4, 3, 1, 1, 3, 1, 5, 5, 1})) {
        case 0: idset_dense<uint32_t, 4>(s, "u32_bits4"); break;
        case 1: idset_dense<uint64_t, 6>(s, "u64_bits6"); break;
        case 2: idset_dense<uint32_t, 22>(s, "u32_bits22"); break;
        case 3: idset_dense<uint64_t, 22>(s, "u64_bits22"); break;
        case 4: idset_small(s); break;
        case 5: nwr_idset(s); break;
        case 6: relations_map(s); break;
        case 7: item_stash(s, false); break;
        default:
            if (thorough || s.chance(1, 20)) item_stash(s, true);
            else item_stash(s, false);
            break;
    }
}

// ---------------------------------------------------------------- regression scenarios

VP_BUILTIN(F17_relations_index_32bit_probe_truncation) {
    osmium::index::RelationsMapStash stash;
    stash.add(5, 7);
    stash.add(6, 7);
    auto idx = stash.build_member_to_parent_index();
    int n = 0;
    idx.for_each(4294967296ULL + 5, [&](uint64_t) { ++n; });
    VP_CHECK(n == 0, "relmap-member-to-parent", "lookup of 2^32+5 in an index holding member 5 yields " << n << " parents");
    n = 0;
    idx.for_each(5, [&](uint64_t p) { n += p == 7; });
    VP_CHECK(n == 1, "relmap-member-to-parent", "lookup of 5 lost");
}

VP_BUILTIN(F18_idset_dense_u32_top_chunk) {
    osmium::index::IdSetDense<uint32_t> set;
    set.set(4294967295u);
    set.set(17);
    std::vector<uint32_t> got;
    for (auto id : set) got.push_back(id);
    VP_CHECK(set.size() == 2, "idset-size", "size");
    VP_CHECK((got == std::vector<uint32_t>{17, 4294967295u}), "idset-iterate", "IdSetDense<uint32_t> holding 17 and 4294967295 iterates over " << got.size() << " ids");
}

VP_MAIN(prop, "generated operation histories against std::set/std::map models: IdSetDense<uint32|uint64, chunk_bits 4/6/22> (set, unset, check_and_set, get with neighbours, clear, copy, move, "
              "swap, full iteration; ids clustered at chunk borders and the type maximum), IdSetSmall (set, get, sort_unique, merge_sorted), nwr_array, RelationsMapStash (add with "
              "32/64-bit mixes and duplicates or add_members, then each of the three index builders; probes = stored ids, neighbours and ids congruent modulo 2^32), ItemStash "
              "(add/remove/get/garbage_collect/clear; long histories of 20000-50000 steps in which the automatic collection must trigger; content checked through the independent "
              "layout walker). non-trivial = history crossing a chunk border / >= 2 recorded pairs / stash history with removals and a collection; distinct by hash of the history")
