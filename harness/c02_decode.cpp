// C02: readers decode every spec-conformant file, however it was encoded.
#include "tmpdir.hpp"
#include "enc.hpp"

#include <osmium/io/any_input.hpp>
#include <osmium/io/header.hpp>
#include <osmium/io/reader.hpp>

#include <unistd.h>

using model::Obj;
using vp::Src;

struct Data {
    enc::Header hdr;
    enc::PbfPlan plan;
    bool history = false;
    std::vector<Obj> objs;        // nodes, ways, relations: the domain all four formats share
    std::vector<Obj> changesets;  // XML and OPL only
};

static int32_t snap(int32_t v, const enc::PbfPlan& p) {
    if (p.coord_mult == 1) return v;
    int64_t m = p.coord_mult;
    int64_t r = ((static_cast<int64_t>(v) - p.coord_rem) % m + m) % m;
    return static_cast<int32_t>(v - r);
}

static model::Loc snapped_location(Src& s, const enc::PbfPlan& p) {
    model::Loc l = gen::location(s, false, true);
    l.x = snap(l.x, p);
    l.y = snap(l.y, p);
    if (l.x < -1800000000) l.x += p.coord_mult;
    if (l.y < -900000000) l.y += p.coord_mult;
    return l;
}

// o5m: a string pair (key/value, uid/user) is stored in the reference table iff both strings together have at most 250
// characters; that boundary is generated on purpose (see below). For the single string of a relation member (type character +
// role) the descriptions differ by one in how they count, so only there the lengths next to the limit are avoided.
static void avoid_o5m_role_limit(std::string& role) {
    size_t n = role.size() + 1;
    if (n >= 249 && n <= 253) role.append(256 - n, 'x');
}

static Obj gen_object(Src& s, int type, const Data& d, size_t max_list) {
    gen::ObjOpts go;
    go.strmode = gen::StrMode::xml10;
    go.allow_invisible = false;
    go.valid_locations_only = true;
    go.max_list = max_list;
    Obj x = gen::object(s, type, go);
    x.version = static_cast<uint32_t>(gen::bint(s, 0, 2147483647));
    if (x.version == 0) {
        x.ts = x.cs = x.uid = 0;
        x.user.clear();
    } else if (s.chance(1, 5)) {
        x.ts = x.cs = x.uid = 0;
        x.user.clear();
    } else {
        if (x.ts == 0) x.ts = 1 + static_cast<uint32_t>(s.draw(2000000000));
        if (d.plan.ts_mult > 1) {
            x.ts -= x.ts % static_cast<uint32_t>(d.plan.ts_mult);
            if (x.ts == 0) x.ts = static_cast<uint32_t>(d.plan.ts_mult);
        }
        if (s.chance(1, 8)) {
            // an anonymous edit: no uid, no name, but all the other metadata (early OSM history; o5m writes the pair ("", "") for it,
            // which takes a slot in the string table like any other pair and is referenced by later anonymous objects)
            x.uid = 0;
            x.user.clear();
        } else if (x.uid == 0) {
            x.uid = 1 + static_cast<uint32_t>(s.draw(1000));
        }
    }
    for (auto& m : x.members) avoid_o5m_role_limit(m.role);
    if (s.chance(1, 10)) {
        // a tag whose key and value together have a length right at the o5m table limit (ASCII, so characters = bytes); the same
        // tag is often repeated in later objects, which makes the encoder use a back-reference to it (or not, beyond the limit)
        static const size_t totals[] = {248, 249, 250, 251, 252, 253};
        size_t total = totals[s.draw(6)];
        size_t klen = 1 + s.draw(total - 1);
        x.tags.push_back(model::Tag{std::string(klen, 'k'), std::string(total - klen, static_cast<char>('a' + s.draw(3)))});
    }
    if (x.uid != 0 && s.chance(1, 25)) {
        std::string uid;
        enc::pb::varint(uid, x.uid);
        static const size_t totals[] = {249, 250, 251, 252};
        size_t total = totals[s.draw(4)];
        if (total > uid.size()) x.user = std::string(total - uid.size(), 'u');
    }
    if (d.history && s.chance(1, 4)) {
        x.visible = false;
        x.loc = model::Loc{};
        x.refs.clear();
        x.members.clear();
        x.tags.clear();
    } else if (type == model::NODE) {
        x.loc = snapped_location(s, d.plan);
    } else if (type == model::WAY && !x.refs.empty() && s.chance(1, 4)) {
        for (auto& r : x.refs) r.loc = snapped_location(s, d.plan);
    }
    return x;
}

static Data gen_data(Src& s) {
    Data d;
    switch (s.weighted({4, 2, 1, 1})) {
        case 0: break;
        case 1: d.plan.coord_mult = 10; break;
        case 2: d.plan.coord_mult = 25; break;
        default: d.plan.coord_mult = 100; break;
    }
    d.plan.coord_rem = static_cast<int>(s.draw(static_cast<uint64_t>(d.plan.coord_mult)));
    d.plan.ts_mult = s.chance(1, 4) ? 60 : 1;
    d.history = s.chance(1, 3);
    d.hdr.generator = gen::str(s, gen::StrMode::xml10, 60);
    if (d.hdr.generator.empty()) d.hdr.generator = "g";
    if (s.chance(1, 2)) {
        d.hdr.has_box = true;
        model::Loc a = gen::location(s, false, true), b = gen::location(s, false, true);
        d.hdr.bl = model::Loc{std::min(a.x, b.x), std::min(a.y, b.y)};
        d.hdr.tr = model::Loc{std::max(a.x, b.x), std::max(a.y, b.y)};
    }
    const bool table_wrap = s.chance(1, vp::opts().tier == "thorough" ? 60 : 150);
    size_t n = table_wrap ? 15100 + s.draw(600) : s.chance(1, 12) ? 100 + s.draw(400) : s.size(40);
    const bool sorted = !s.chance(1, 4);
    for (size_t i = 0; i < n; ++i) {
        int type = table_wrap ? (i < n - 5 ? model::NODE : static_cast<int>(s.draw(3))) : static_cast<int>(s.draw(3));
        Obj x = gen_object(s, type, d, n > 60 ? 3 : (s.chance(1, 10) ? 300 : 12));
        if (table_wrap && x.visible) {
            x.tags.clear();
            x.tags.push_back(model::Tag{"k" + std::to_string(i % 7), "v" + std::to_string(i)});
            // beyond 15000 objects: repeat the tag of an object about one table length back, so that the encoder refers to entries
            // right at the far end of the 15000-entry table (index 14995..15000) or has to spell out a pair that was just evicted
            // (no author info in these cases, so that every object stores exactly one new string and the distances are exact)
            x.version = 1;
            x.ts = x.cs = x.uid = 0;
            x.user.clear();
            if (i >= 15000 && s.chance(1, 2)) {
                size_t back = 14990 + s.draw(14);
                if (back <= i && d.objs[i - back].visible && !d.objs[i - back].tags.empty()) x.tags.push_back(d.objs[i - back].tags[0]);
            }
        }
        d.objs.push_back(std::move(x));
    }
    if (!table_wrap && d.objs.size() >= 2 && s.chance(1, 3)) {
        // the same boundary-length tag on several objects: the second and later occurrences are back-references in o5m
        static const size_t totals[] = {249, 250, 251};
        size_t total = totals[s.draw(3)];
        size_t klen = 1 + s.draw(total - 1);
        model::Tag t{std::string(klen, 'K'), std::string(total - klen, 'V')};
        size_t k = 2 + s.draw(3);
        for (size_t i = 0; i < k; ++i) {
            Obj& x = d.objs[s.draw(d.objs.size())];
            if (x.visible) x.tags.insert(x.tags.begin() + static_cast<std::ptrdiff_t>(s.draw(x.tags.size() + 1)), t);
        }
        // and an ordinary short tag after it that is referenced too (a table that is off by one entry shows there)
        model::Tag u{"highway", "residential"};
        for (auto& x : d.objs)
            if (x.visible && s.boolean()) x.tags.push_back(u);
        vp::count("o5m_table_limit_tag_repeated");
    }
    if (sorted) std::stable_sort(d.objs.begin(), d.objs.end(), [](const Obj& a, const Obj& b) { return a.type < b.type; });
    if (table_wrap) vp::count("o5m_table_wrap_case");
    size_t ncs = s.weighted({3, 1}) == 0 ? 0 : 1 + s.draw(4);
    for (size_t i = 0; i < ncs; ++i) {
        gen::ObjOpts go;
        go.strmode = gen::StrMode::xml10;
        go.allow_changesets = true;
        go.allow_discussions = true;
        go.max_list = 6;
        d.changesets.push_back(gen::object(s, model::CHANGESET, go));
    }
    return d;
}

struct ReadBack {
    std::vector<Obj> objs;
    std::string generator;
    std::vector<std::pair<model::Loc, model::Loc>> boxes;
};

static ReadBack read_file(const std::string& bytes, const char* format, bool from_fd, const std::string& what, const std::string& choices) {
    ReadBack r;
    static const std::string path = tmpdir::prefix() + "c02-" + std::to_string(getpid());
    try {
        if (from_fd) {
            std::ofstream f(path, std::ios::binary | std::ios::trunc);
            f.write(bytes.data(), static_cast<std::streamsize>(bytes.size()));
        }
        osmium::io::File file = from_fd ? osmium::io::File{path, format} : osmium::io::File{bytes.data(), bytes.size(), format};
        osmium::io::Reader reader{file};
        osmium::io::Header h = reader.header();
        r.generator = h.get("generator");
        for (const auto& b : h.boxes()) r.boxes.emplace_back(model::from_location(b.bottom_left()), model::from_location(b.top_right()));
        while (osmium::memory::Buffer buf = reader.read()) {
            for (auto& x : model::from_buffer(buf)) r.objs.push_back(std::move(x));
        }
        reader.close();
    } catch (const std::exception& e) {
        if (from_fd) ::unlink(path.c_str());
        vp::fail(std::string{"conformant-file-rejected-"} + what, std::string{"the "} + what + " reader rejects a conformant file (" + std::to_string(bytes.size()) + " bytes" + (from_fd ? ", read from a file" : ", read from memory") + "): " + e.what() + " | encoding choices: " + choices);
    }
    if (from_fd) ::unlink(path.c_str());
    return r;
}

static void compare(const std::vector<Obj>& want, const ReadBack& got, const std::string& what, const std::string& choices) {
    VP_CHECK(got.objs.size() == want.size(), "decode-count-" + what, "the file describes " << want.size() << " objects, the " << what << " reader delivered " << got.objs.size() << " | encoding choices: " << choices);
    for (size_t i = 0; i < want.size(); ++i) {
        if (got.objs[i] != want[i]) {
            vp::fail("decode-" + what, "object #" + std::to_string(i) + " decoded wrongly by the " + what + " reader (" + model::diff(want[i], got.objs[i]) + ") expected/got\n  want: " + model::show(want[i]) + "\n  got : " + model::show(got.objs[i]) + "\n  encoding choices: " + choices);
        }
    }
}

static void check_header(const Data& d, const ReadBack& got, bool has_generator, const std::string& what) {
    if (has_generator) VP_CHECK(got.generator == d.hdr.generator, "decode-header-" + what, "generator " << model::brief(d.hdr.generator) << " decoded as " << model::brief(got.generator));
    if (d.hdr.has_box) {
        VP_CHECK(got.boxes.size() == 1, "decode-header-" + what, what << ": expected one bounding box in the header, got " << got.boxes.size());
        VP_CHECK(got.boxes[0].first == d.hdr.bl && got.boxes[0].second == d.hdr.tr, "decode-header-" + what,
                 what << ": bounding box " << model::show_loc(d.hdr.bl) << "," << model::show_loc(d.hdr.tr) << " decoded as " << model::show_loc(got.boxes[0].first) << "," << model::show_loc(got.boxes[0].second));
    } else {
        VP_CHECK(got.boxes.empty(), "decode-header-" + what, what << ": bounding box appeared from nowhere");
    }
}

static void prop(Src& s) {
    Data d = gen_data(s);
    if (vp::want_desc()) {
        std::string desc = "objects=" + std::to_string(d.objs.size()) + " changesets=" + std::to_string(d.changesets.size()) + (d.history ? " history" : "") + " coord_mult=" + std::to_string(d.plan.coord_mult) + " ts_mult=" + std::to_string(d.plan.ts_mult);
        for (size_t i = 0; i < d.objs.size() && i < 4; ++i) desc += "\n  " + model::show(d.objs[i]);
        vp::describe(desc);
    }
    enc::Choices all;
    uint64_t h = 0;
    // every format every time (cheap); which formats are read from a real file is a choice
    {
        enc::Choices ch;
        enc::PbfEncoder e{s, ch, d.plan, d.history};
        std::string bytes = e.encode(d.hdr, d.objs);
        const bool fd = s.boolean();
        ReadBack got = read_file(bytes, "pbf", fd, "pbf", ch.str());
        compare(d.objs, got, "pbf", ch.str());
        check_header(d, got, true, "pbf");
        for (const auto& kv : ch.used) all.used["" + kv.first] += kv.second;
        h ^= vp::hash_str(bytes);
        if (bytes.size() < 64) vp::count("pbf_file_under_64_bytes");
    }
    {
        enc::Choices ch;
        enc::O5mEncoder e{s, ch};
        std::vector<Obj> want = d.objs;
        for (auto& x : want)
            for (auto& r : x.refs) r.loc = model::Loc{};
        std::string bytes = e.encode(d.hdr, d.objs, d.history);
        ReadBack got = read_file(bytes, d.history ? "o5c" : "o5m", s.boolean(), "o5m", ch.str());
        compare(want, got, "o5m", ch.str());
        check_header(d, got, false, "o5m");
        for (const auto& kv : ch.used) all.used[kv.first] += kv.second;
        h ^= vp::hash_str(bytes);
        if (bytes.size() < 40) vp::count("o5m_file_under_40_bytes");
    }
    {
        enc::Choices ch;
        enc::XmlEncoder e{s, ch};
        const bool change = d.history && s.boolean();
        std::vector<Obj> want = d.objs;
        if (!change) want.insert(want.end(), d.changesets.begin(), d.changesets.end());
        std::string bytes = e.encode(d.hdr, want, change);
        ReadBack got = read_file(bytes, change ? "osc" : "osm", s.boolean(), "xml", ch.str());
        compare(want, got, "xml", ch.str());
        check_header(d, got, true, "xml");
        if (change) ch.note("xml-change-file");
        for (const auto& kv : ch.used) all.used[kv.first] += kv.second;
        h ^= vp::hash_str(bytes);
    }
    {
        enc::Choices ch;
        enc::OplEncoder e{s, ch};
        std::vector<Obj> want = d.objs;
        for (Obj c : d.changesets) {
            c.comments.clear();  // OPL has no discussions
            want.push_back(c);
        }
        std::string bytes = e.encode(want);
        ReadBack got = read_file(bytes, "opl", s.boolean(), "opl", ch.str());
        compare(want, got, "opl", ch.str());
        for (const auto& kv : ch.used) all.used[kv.first] += kv.second;
        h ^= vp::hash_str(bytes);
    }
    for (const auto& kv : all.used) vp::count("choice:" + kv.first);
    if (d.objs.empty()) vp::count("empty_files");
    if (all.distinct() >= 2 && !d.objs.empty()) vp::nontrivial(h);
}

// ---------------------------------------------------------------- regression scenarios
static Obj tiny_node(int64_t id) {
    Obj n;
    n.type = model::NODE;
    n.id = id;
    n.loc = model::Loc{10, 20};
    return n;
}

VP_BUILTIN(F03_pbf_blob_header_of_128_bytes_or_more) {
    using namespace enc::pb;
    for (size_t index_len : {0, 100, 118, 119, 120, 130, 250, 255, 256, 1000, 32760, 60000}) {
        auto frame = [&](const std::string& type, const std::string& payload) {
            std::string blob = f_bytes(1, payload);
            std::string h = f_bytes(1, type) + (index_len ? f_bytes(2, std::string(index_len, 'i')) : std::string{}) + f_int64(3, static_cast<int64_t>(blob.size()));
            std::string o;
            for (int sh : {24, 16, 8, 0}) o += static_cast<char>((h.size() >> sh) & 0xff);
            return o + h + blob;
        };
        std::string header = f_bytes(4, "OsmSchema-V0.6") + f_bytes(16, "gen");
        std::string node = f_sint64(1, 17) + f_sint64(8, 20) + f_sint64(9, 10);
        std::string block = f_bytes(1, f_bytes(1, "")) + f_bytes(2, f_bytes(1, node)) + f_int64(17, 100);
        std::string file = frame("OSMHeader", header) + frame("OSMData", block);
        for (bool fd : {false, true}) {
            ReadBack got = read_file(file, "pbf", fd, "pbf", "indexdata of " + std::to_string(index_len) + " bytes");
            Obj n = tiny_node(17);
            compare({n}, got, "pbf", "indexdata of " + std::to_string(index_len) + " bytes");
        }
    }
}

VP_BUILTIN(pbf_blobs_just_below_the_size_limits) {
    // The format allows blobs of less than 32 MiB (uncompressed size, and size of the Blob message) and BlobHeaders of less than 64 KiB.
    // Blocks padded with unused string table entries so that the sizes are limit-1, limit-2 and limit-4096: raw, zlib and lz4.
    using namespace enc::pb;
    const size_t LIMIT = 32UL * 1024UL * 1024UL;
    auto frame = [&](const std::string& type, const std::string& blob, size_t index_len) {
        std::string h = f_bytes(1, type) + (index_len ? f_bytes(2, std::string(index_len, 'i')) : std::string{}) + f_int64(3, static_cast<int64_t>(blob.size()));
        std::string o;
        for (int sh : {24, 16, 8, 0}) o += static_cast<char>((h.size() >> sh) & 0xff);
        return o + h + blob;
    };
    const std::string header = f_bytes(4, "OsmSchema-V0.6") + f_bytes(16, "gen");
    const std::string node = f_sint64(1, 17) + f_sint64(8, 20) + f_sint64(9, 10);
    auto block_of_size = [&](size_t want) {
        // stringtable { "", unused entries of 1000 bytes each, one shorter one } + one group with one node + granularity; the amount of
        // filler is adjusted until the block has `want` bytes (strings stay below the library's limit of 1024 bytes per string)
        size_t filler = want - 64 - want / 1003 * 3;
        for (int tries = 0; tries < 12; ++tries) {
            std::string table = f_bytes(1, "");
            table.reserve(want);
            size_t left = filler;
            const std::string full = f_bytes(1, std::string(1000, 'x'));
            for (; left >= 1000; left -= 1000) table += full;
            table += f_bytes(1, std::string(left, 'y'));
            std::string block = f_bytes(1, table) + f_bytes(2, f_bytes(1, node)) + f_int64(17, 100);
            if (block.size() == want) return block;
            filler = filler + want - block.size();
        }
        std::abort();
    };
    for (size_t below : {1UL, 2UL, 4096UL}) {
        for (int comp = 0; comp < 3; ++comp) {
            std::string blob, what;
            if (comp == 0) {
                // raw: the Blob message itself (tag + length + data) is LIMIT - below bytes long
                const size_t msg = LIMIT - below;
                blob = f_bytes(1, block_of_size(msg - 5));
                if (blob.size() != msg) std::abort();
                what = "raw blob, Blob message of " + std::to_string(blob.size()) + " bytes";
            } else {
                const std::string raw = block_of_size(LIMIT - below);
                if (comp == 1) {
                    blob = f_int64(2, static_cast<int64_t>(raw.size())) + f_bytes(3, enc::zlib_compress(raw, 1));
                    what = "zlib blob, raw_size " + std::to_string(raw.size());
                } else {
                    std::string out(static_cast<size_t>(LZ4_compressBound(static_cast<int>(raw.size()))), '\0');
                    const int n = LZ4_compress_default(raw.data(), &out[0], static_cast<int>(raw.size()), static_cast<int>(out.size()));
                    out.resize(static_cast<size_t>(n));
                    blob = f_int64(2, static_cast<int64_t>(raw.size())) + f_bytes(6, out);
                    what = "lz4 blob, raw_size " + std::to_string(raw.size());
                }
            }
            // BlobHeader just below 64 KiB (indexdata) for the data blob in one of the variants
            const size_t index_len = below == 2 ? 65535 - 9 - 4 - 5 : 0;
            const std::string file = frame("OSMHeader", f_bytes(1, header), 0) + frame("OSMData", blob, index_len);
            for (bool fd : {false, true}) {
                ReadBack got = read_file(file, "pbf", fd, "pbf", what);
                compare({tiny_node(17)}, got, "pbf", what);
            }
        }
    }
}

VP_BUILTIN(F04_o5m_file_ending_within_ten_bytes_of_a_dataset) {
    // files in which fewer than ten bytes follow a dataset type byte (the parser then refills its window at the end of the input)
    static const int32_t mags[] = {5, 5000, 500000, 90000000, 900000000};  // zigzag varints of 1..5 bytes
    for (bool end_marker : {true, false}) {
        for (bool reset_after_header : {true, false}) {
            for (int32_t lon : mags) {
                for (int32_t lat : mags) {
                    std::string f = "\xff\xe0\x04o5m2";
                    if (reset_after_header) f += static_cast<char>(0xff);
                    Obj n = tiny_node(1);
                    n.loc = model::Loc{lon, -lat};
                    std::string b;
                    enc::pb::varint(b, enc::pb::zz(n.id));
                    b += '\0';
                    enc::pb::varint(b, enc::pb::zz(n.loc.x));
                    enc::pb::varint(b, enc::pb::zz(n.loc.y));
                    f += static_cast<char>(0x10);
                    enc::pb::varint(f, b.size());
                    f += b;
                    if (end_marker) f += static_cast<char>(0xfe);
                    for (bool fd : {false, true}) {
                        std::string what = "o5m file of " + std::to_string(f.size()) + " bytes";
                        ReadBack got = read_file(f, "o5m", fd, "o5m", what);
                        compare({n}, got, "o5m", what);
                    }
                }
            }
        }
    }
    // a file that consists of the header and a bounding box only
    {
        std::string f = "\xff\xe0\x04o5m2";
        std::string b;
        for (int64_t v : {-5000, -4000, 5000, 4000}) enc::pb::varint(b, enc::pb::zz(v));
        f += static_cast<char>(0xdb);
        enc::pb::varint(f, b.size());
        f += b;
        ReadBack got = read_file(f, "o5m", false, "o5m", "header and bounding box only (17 bytes)");
        compare({}, got, "o5m", "header and bounding box only");
        VP_CHECK(got.boxes.size() == 1 && got.boxes[0].first == (model::Loc{-5000, -4000}) && got.boxes[0].second == (model::Loc{5000, 4000}), "decode-header-o5m", "bounding box decoded wrongly");
    }
}

VP_BUILTIN(F32_o5m_reference_to_the_anonymous_user_pair) {
    // node 1 stores a long uid/user pair in the first table slot; a reset; node 2 is anonymous (the pair ("", "") written inline: it
    // takes the first slot again); node 3 refers to that pair. Both must come back with uid 0 and no user name.
    using enc::pb::varint;
    using enc::pb::zz;
    auto node = [](int64_t id_delta, int64_t ts_delta, int64_t cs_delta, const std::string& user_field, int64_t lon_delta, int64_t lat_delta) {
        std::string b;
        varint(b, zz(id_delta));
        varint(b, 1);  // version
        varint(b, zz(ts_delta));
        varint(b, zz(cs_delta));
        b += user_field;
        varint(b, zz(lon_delta));
        varint(b, zz(lat_delta));
        std::string d(1, static_cast<char>(0x10));
        varint(d, b.size());
        return d + b;
    };
    for (const std::string& name : {std::string{"alice"}, std::string(200, 'x')}) {
        std::string f = "\xff\xe0\x04o5m2";
        f += node(1, 100, 5, std::string("\0\x07\0", 3) + name + std::string(1, '\0'), 10, 20);
        f += static_cast<char>(0xff);
        f += node(2, 100, 5, std::string("\0\0\0", 3), 10, 20);
        f += node(1, 0, 0, std::string("\x01", 1), 0, 0);
        f += static_cast<char>(0xfe);
        std::vector<Obj> want;
        for (int64_t id : {1, 2, 3}) {
            Obj n = tiny_node(id);
            n.version = 1;
            n.ts = 100;
            n.cs = 5;
            if (id == 1) {
                n.uid = 7;
                n.user = name;
            }
            want.push_back(n);
        }
        for (bool fd : {false, true}) {
            const std::string what = "o5m file with a reference to the anonymous user pair after a reset (first slot held a " + std::to_string(name.size()) + "-byte name)";
            ReadBack got = read_file(f, "o5m", fd, "o5m", what);
            compare(want, got, "o5m", what);
        }
    }
}

VP_MAIN(prop, "generated data (0..40 objects, sometimes 100..500 or > 15000 for the o5m table wrap; nodes/ways/relations in the domain all four formats share, plus changesets with discussions for "
              "XML/OPL) encoded by the harness's own PBF, o5m/o5c, XML and OPL encoders (own varint/zigzag/escaping code) under generated legal encoding choices: PBF plain/dense nodes, several "
              "groups and blocks, granularity 1/10/100/1000/2500/10000 with lat/lon offsets, date granularity 1/250/500/1000/60000, absent/partial Info and DenseInfo arrays, unknown fields of all "
              "wire types at every message level, field order permutations, unused/duplicate string table entries, raw/zlib/lz4 blobs, raw_size before/after data, indexdata so that blob headers "
              "cross 127/128 and 32767/32768 bytes, locations on ways; o5m back-references, table wrap, long strings, resets, skippable datasets, deleted objects, missing end marker; XML "
              "attribute order, quote style, entity/numeric/literal characters, CDATA, whitespace, comments, paired/self-closing, bounds, change sections; OPL field order, tab/space runs, CRLF, "
              "comment/empty lines, omitted fields, optional escapes, hex case and leading zeros. Each file is read from memory or from a real file. Oracle: Reader(encode(D)) == D for each "
              "format (hence the four readers agree) and header generator/box. non-trivial = non-empty data and >= 2 non-default encoding choices; distinct by hash of the four files")
