// C14: text-format string escaping is injective and exactly undone by the parsers.
// Enumeration harness: every Unicode scalar, all short structural strings, every
// 1-4 byte string against a guard page.
#include "../engine/vp_enum.hpp"

#include "tmpdir.hpp"

#include <osmium/builder/osm_object_builder.hpp>
#include <osmium/io/detail/opl_parser_functions.hpp>
#include <osmium/io/detail/string_util.hpp>
#include <osmium/io/opl_input.hpp>
#include <osmium/io/opl_output.hpp>
#include <osmium/io/reader.hpp>
#include <osmium/io/writer.hpp>
#include <osmium/io/xml_input.hpp>
#include <osmium/io/xml_output.hpp>

#include <expat.h>

using namespace osmium::io::detail;

static std::string utf8(uint32_t cp) {
    std::string s;
    if (cp < 0x80) {
        s += static_cast<char>(cp);
    } else if (cp < 0x800) {
        s += static_cast<char>(0xc0 | (cp >> 6));
        s += static_cast<char>(0x80 | (cp & 0x3f));
    } else if (cp < 0x10000) {
        s += static_cast<char>(0xe0 | (cp >> 12));
        s += static_cast<char>(0x80 | ((cp >> 6) & 0x3f));
        s += static_cast<char>(0x80 | (cp & 0x3f));
    } else {
        s += static_cast<char>(0xf0 | (cp >> 18));
        s += static_cast<char>(0x80 | ((cp >> 12) & 0x3f));
        s += static_cast<char>(0x80 | ((cp >> 6) & 0x3f));
        s += static_cast<char>(0x80 | (cp & 0x3f));
    }
    return s;
}

static std::string hex(const std::string& s) {
    static const char* d = "0123456789abcdef";
    std::string o;
    for (unsigned char c : s) {
        o += d[c >> 4];
        o += d[c & 15];
    }
    return o;
}

// scalar index -> code point (skipping NUL and surrogates)
constexpr uint64_t N_SCALARS = 0x10FFFF - 0x800;  // 1..0x10FFFF minus 0xD800..0xDFFF
static uint32_t scalar(uint64_t i) {
    uint32_t cp = static_cast<uint32_t>(i + 1);
    if (cp >= 0xD800) cp += 0x800;
    return cp;
}

static bool is_xml_char(uint32_t cp) {
    return cp == 0x9 || cp == 0xA || cp == 0xD || (cp >= 0x20 && cp <= 0xD7FF) || (cp >= 0xE000 && cp <= 0xFFFD) ||
           (cp >= 0x10000 && cp <= 0x10FFFF);
}

// ---- OPL oracle
static void check_opl(const std::string& s) {
    std::string esc;
    append_utf8_encoded_string(esc, s.c_str());
    // no structural characters; '%' only as delimiters of hex runs
    bool in_esc = false;
    for (size_t i = 0; i < esc.size(); ++i) {
        unsigned char c = static_cast<unsigned char>(esc[i]);
        VP_CHECK(c != ' ' && c != ',' && c != '=' && c != '@' && c != '\n' && c != '\r' && c != '\t' && c != 0, "opl-structural",
                 "escaped form of " << hex(s) << " contains structural byte " << int(c) << ": " << esc);
        if (c == '%') {
            in_esc = !in_esc;
        } else if (in_esc) {
            VP_CHECK(std::isxdigit(c), "opl-percent", "non-hex inside %...% in escaped form of " << hex(s) << ": " << esc);
        }
    }
    VP_CHECK(!in_esc, "opl-percent", "unbalanced % in escaped form of " << hex(s) << ": " << esc);
    std::string back;
    const char* p = esc.c_str();
    try {
        opl_parse_string(&p, back);
    } catch (const std::exception& e) {
        vp::fail("opl-roundtrip", "parser rejects escaped form of " + hex(s) + ": " + esc + " (" + e.what() + ")");
    }
    VP_CHECK(*p == '\0', "opl-roundtrip", "parser stopped early on escaped form of " << hex(s) << ": " << esc);
    VP_CHECK(back == s, "opl-roundtrip", "unescape(escape(s)) != s for s=" << hex(s) << " escaped=" << esc << " back=" << hex(back));
}

// ---- XML oracle (expat is the independent parser)
struct XmlCap {
    std::string attr;
    std::string text;
    bool in_t = false;
};
static void XMLCALL xml_start(void* ud, const XML_Char* name, const XML_Char** attrs) {
    auto* c = static_cast<XmlCap*>(ud);
    if (name[0] == 'a' && attrs[0]) c->attr = attrs[1];
    if (name[0] == 't') c->in_t = true;
}
static void XMLCALL xml_end(void* ud, const XML_Char* name) {
    if (name[0] == 't') static_cast<XmlCap*>(ud)->in_t = false;
}
static void XMLCALL xml_chars(void* ud, const XML_Char* s, int len) {
    auto* c = static_cast<XmlCap*>(ud);
    if (c->in_t) c->text.append(s, static_cast<size_t>(len));
}

static void check_xml(const std::string& s, bool expressible) {
    std::string esc;
    append_xml_encoded_string(esc, s.c_str());
    if (!expressible) return;  // XML 1.0 cannot carry these characters at all; only memory safety applies
    for (unsigned char c : esc) {
        VP_CHECK(c != '<' && c != '>' && c != '"' && c != '\'' && c != '\n' && c != '\r' && c != '\t', "xml-structural",
                 "escaped form of " << hex(s) << " contains structural byte " << int(c) << ": " << esc);
    }
    std::string doc = "<?xml version='1.0' encoding='UTF-8'?>\n<r><a v=\"" + esc + "\"/><a v='" + esc + "'/><t>" + esc + "</t></r>";
    XmlCap cap;
    XML_Parser parser = XML_ParserCreate(nullptr);
    XML_SetUserData(parser, &cap);
    XML_SetElementHandler(parser, xml_start, xml_end);
    XML_SetCharacterDataHandler(parser, xml_chars);
    const auto st = XML_Parse(parser, doc.data(), static_cast<int>(doc.size()), 1);
    std::string err = st == XML_STATUS_ERROR ? XML_ErrorString(XML_GetErrorCode(parser)) : "";
    XML_ParserFree(parser);
    VP_CHECK(st != XML_STATUS_ERROR, "xml-roundtrip", "expat rejects document with escaped " << hex(s) << ": " << esc << " (" << err << ")");
    VP_CHECK(cap.attr == s, "xml-roundtrip", "attribute value differs for s=" << hex(s) << " escaped=" << esc << " got=" << hex(cap.attr));
    VP_CHECK(cap.text == s, "xml-roundtrip", "text content differs for s=" << hex(s) << " escaped=" << esc << " got=" << hex(cap.text));
}

// ---- structural alphabets
static const std::vector<std::string> OPL_ALPHA = {" ", ",", "=", "@", "%", "\n", "\r", "\t", "a", "\xc3\xa9"};
static const std::vector<std::string> XML_ALPHA = {"&", "<", ">", "\"", "'", "\n", "\r", "\t", "a"};

static uint64_t n_strings_upto(uint64_t k, unsigned len) {
    uint64_t n = 0, p = 1;
    for (unsigned i = 1; i <= len; ++i) {
        p *= k;
        n += p;
    }
    return n;
}
static std::string nth_string(const std::vector<std::string>& alpha, uint64_t idx) {
    uint64_t k = alpha.size(), p = k;
    unsigned len = 1;
    while (idx >= p) {
        idx -= p;
        p *= k;
        ++len;
    }
    std::string s;
    for (unsigned i = 0; i < len; ++i) {
        s += alpha[idx % k];
        idx /= k;
    }
    return s;
}

// ---- random long strings (index = seed)
static std::string long_string(uint64_t idx, bool xml) {
    vp::Rng r{vp::mix64(idx * 31 + (xml ? 7 : 3))};
    size_t n = 1 + r.below(r.below(4) == 0 ? 1500 : 60);
    std::string s;
    static const uint32_t edges[] = {0x7f, 0x80, 0xa0, 0xa1, 0xac, 0xad, 0xae, 0xff, 0x100, 0x5ff, 0x600, 0x7ff, 0x800, 0xfff, 0x1000,
                                     0xd7ff, 0xe000, 0xfffd, 0x10000, 0xfffff, 0x100000, 0x10ffff, 0x20, 0x25, 0x2c, 0x3d, 0x40};
    for (size_t i = 0; i < n; ++i) {
        uint32_t cp;
        switch (r.below(5)) {
            case 0: cp = 0x20 + static_cast<uint32_t>(r.below(0x5f)); break;
            case 1: cp = edges[r.below(sizeof(edges) / sizeof(edges[0]))]; break;
            case 2: cp = xml ? static_cast<uint32_t>("&<>\"'\n\r\t"[r.below(8)]) : static_cast<uint32_t>(" ,=@%\n\r\t"[r.below(8)]); break;
            case 3: cp = 1 + static_cast<uint32_t>(r.below(0x2fff)); break;
            default: cp = 1 + static_cast<uint32_t>(r.below(0x10ffff)); break;
        }
        if (cp >= 0xd800 && cp <= 0xdfff) cp = 0xe9;
        if (xml && !is_xml_char(cp)) cp = 0x263a;
        s += utf8(cp);
    }
    return s;
}

// ---- memory half: string placed so that its NUL is the last readable byte
struct GuardPage {
    char* base = nullptr;
    size_t page = 4096;
    GuardPage() {
        base = static_cast<char*>(mmap(nullptr, 2 * page, PROT_READ | PROT_WRITE, MAP_PRIVATE | MAP_ANONYMOUS, -1, 0));
        mprotect(base + page, page, PROT_NONE);
    }
    // returns pointer to a copy of s whose terminating NUL sits at the last accessible byte
    const char* place(const char* bytes, size_t len) {
        char* p = base + page - len - 1;
        std::memcpy(p, bytes, len);
        p[len] = 0;
        return p;
    }
};

static unsigned seq_len(unsigned char c) {
    if (c < 0x80) return 1;
    if ((c >> 5) == 6) return 2;
    if ((c >> 4) == 14) return 3;
    if ((c >> 3) == 30) return 4;
    return 0;
}

enum class Expect { ok, out_of_range, runtime_error };
// what the property text demands: invalid lead byte => runtime_error, sequence cut off by the end => out_of_range
static Expect classify(const unsigned char* b, size_t len) {
    size_t i = 0;
    while (i < len) {
        unsigned l = seq_len(b[i]);
        if (l == 0) return Expect::runtime_error;
        if (i + l > len) return Expect::out_of_range;
        i += l;
    }
    return Expect::ok;
}

static void check_mem(uint64_t idx, vp::Local& L) {
    static thread_local GuardPage gp;
    unsigned char b[4] = {static_cast<unsigned char>(idx & 0xff), static_cast<unsigned char>((idx >> 8) & 0xff),
                          static_cast<unsigned char>((idx >> 16) & 0xff), static_cast<unsigned char>((idx >> 24) & 0xff)};
    size_t len = 0;
    while (len < 4 && b[len] != 0) ++len;
    if (len == 0) return;
    const char* p = gp.place(reinterpret_cast<const char*>(b), len);
    Expect ex = classify(b, len);
    if (ex != Expect::ok) ++L.nontrivial;
    L.count(ex == Expect::ok ? "complete" : ex == Expect::out_of_range ? "cut_off_sequence" : "invalid_lead");
    for (int fn = 0; fn < 3; ++fn) {
        std::string out;
        Expect got = Expect::ok;
        try {
            if (fn == 0) append_utf8_encoded_string(out, p);
            if (fn == 1) append_debug_encoded_string(out, p, "", "");
            if (fn == 2) append_xml_encoded_string(out, p);
        } catch (const std::out_of_range&) {
            got = Expect::out_of_range;
        } catch (const std::runtime_error&) {
            got = Expect::runtime_error;
        }
        if (fn == 2) {
            VP_CHECK(got == Expect::ok, "mem-xml", "xml escaping threw for bytes " << hex(std::string(p, len)));
            continue;  // bytewise function: nothing to cut off
        }
        VP_CHECK(got == ex, "mem-exception",
                 "bytes " << hex(std::string(p, len)) << " fn=" << fn << " expected " << int(ex) << " got " << int(got));
    }
}

// ---- the writers themselves: every string position of the XML and OPL output formats, read back by the library's parsers
// index -> string: the structural strings of length <= 4, then every scalar (between two letters), then long strings
static uint64_t n_writer_strings(bool xml) { return n_strings_upto((xml ? XML_ALPHA : OPL_ALPHA).size(), 4) + N_SCALARS + 4000; }
static bool writer_string(bool xml, uint64_t idx, std::string& out) {
    const uint64_t ns = n_strings_upto((xml ? XML_ALPHA : OPL_ALPHA).size(), 4);
    if (idx < ns) {
        out = nth_string(xml ? XML_ALPHA : OPL_ALPHA, idx);
        return true;
    }
    idx -= ns;
    if (idx < N_SCALARS) {
        const uint32_t cp = scalar(idx);
        if (xml && !is_xml_char(cp)) return false;  // cannot be written in XML 1.0 at all
        out = (idx % 3 == 0 ? "" : "a") + utf8(cp) + (idx % 3 == 1 ? "" : "b");
        return true;
    }
    out = long_string(idx - N_SCALARS, xml);
    if (out.size() > 1000) out.resize(0);  // (tag keys, values, roles and user names: the readers limit strings to 256 characters)
    size_t chars = 0;
    for (unsigned char c : out) chars += (c & 0xc0) != 0x80;
    return !out.empty() && chars <= 255;
}
constexpr uint64_t WRITER_BATCH = 200;
static void check_writers(bool xml, uint64_t batch, vp::Local& L, bool f16_open) {
    std::vector<std::string> strs;
    for (uint64_t i = batch * WRITER_BATCH; i < (batch + 1) * WRITER_BATCH && i < n_writer_strings(xml); ++i) {
        std::string t;
        if (!writer_string(xml, i, t)) continue;
        if (!xml && f16_open && t.find("\xf4") != std::string::npos) continue;
        strs.push_back(std::move(t));
    }
    if (strs.empty()) return;
    using namespace osmium::builder;
    osmium::memory::Buffer buf{1024 * 64, osmium::memory::Buffer::auto_grow::yes};
    for (size_t i = 0; i < strs.size(); ++i) {
        NodeBuilder b{buf};
        b.set_id(static_cast<osmium::object_id_type>(i + 1)).set_version(1).set_uid(7).set_timestamp(osmium::Timestamp{uint32_t(1000)}).set_changeset(3).set_location(osmium::Location{1, 2});
        b.set_user(strs[i].c_str());
        {
            TagListBuilder tl{b};
            tl.add_tag("k", strs[i]);
            tl.add_tag(strs[i], "v");
            tl.add_tag(strs[i] + "x", strs[i]);
        }
    }
    buf.commit();
    for (size_t i = 0; i < strs.size(); ++i) {
        {
            RelationBuilder b{buf};
            b.set_id(static_cast<osmium::object_id_type>(i + 1)).set_version(1);
            b.set_user("");
            {
                RelationMemberListBuilder ml{b};
                ml.add_member(osmium::item_type::node, 1, strs[i].c_str());
                ml.add_member(osmium::item_type::way, 2, "plain");
                ml.add_member(osmium::item_type::relation, 3, strs[i].c_str());
            }
        }
        buf.commit();
    }
    for (size_t i = 0; i < strs.size(); ++i) {
        {
            ChangesetBuilder b{buf};
            b.set_id(static_cast<osmium::changeset_id_type>(i + 1)).set_uid(9).set_created_at(osmium::Timestamp{uint32_t(1000)}).set_closed_at(osmium::Timestamp{uint32_t(2000)});
            if (xml) b.set_num_comments(1);
            b.set_user(strs[i].c_str());
            {
                TagListBuilder tl{b};
                tl.add_tag(strs[i], strs[i]);
            }
            if (xml) {
                ChangesetDiscussionBuilder d{b};
                d.add_comment(osmium::Timestamp{uint32_t(1500)}, 11, strs[i].c_str());
                d.add_comment_text(strs[i]);
            }
        }
        buf.commit();
    }
    static std::atomic<unsigned> counter{0};
    static thread_local const std::string path = tmpdir::prefix() + "c14-" + std::to_string(getpid()) + "-" + std::to_string(counter++);
    const char* fmt = xml ? "osm" : "opl";
    {
        osmium::io::Writer w{osmium::io::File{path, fmt}, osmium::io::overwrite::allow};
        w(std::move(buf));
        w.close();
    }
    struct Unlink {
        const std::string& p;
        ~Unlink() { ::unlink(p.c_str()); }
    } unl{path};
    size_t nodes = 0, rels = 0, csets = 0;
    auto differ = [&](const char* where, size_t i, const char* got) {
        if (strs[i] != got) vp::fail(xml ? "xml-writer-roundtrip" : "opl-writer-roundtrip", std::string{"string hex:"} + hex(strs[i]) + " written as " + where + " by the " + fmt + " writer is read back as hex:" + hex(got));
    };
    try {
        osmium::io::Reader r{osmium::io::File{path, fmt}, osmium::osm_entity_bits::all};
        while (osmium::memory::Buffer b = r.read()) {
            for (const auto& item : b) {
                if (item.type() == osmium::item_type::node) {
                    const auto& n = static_cast<const osmium::Node&>(item);
                    const size_t i = static_cast<size_t>(n.id() - 1);
                    VP_CHECK(i == nodes && i < strs.size(), "writer-roundtrip", "node ids out of step");
                    ++nodes;
                    differ("user name", i, n.user());
                    VP_CHECK(n.tags().size() == 3, "writer-roundtrip", "node " << n.id() << " has " << n.tags().size() << " tags, 3 were written (string hex:" << hex(strs[i]) << ")");
                    auto t = n.tags().begin();
                    differ("tag value", i, t->value());
                    ++t;
                    differ("tag key", i, t->key());
                    ++t;
                    differ("tag key (followed by a letter)", i, std::string(t->key(), std::strlen(t->key()) ? std::strlen(t->key()) - 1 : 0).c_str());
                    differ("tag value (after its key)", i, t->value());
                } else if (item.type() == osmium::item_type::relation) {
                    const auto& rel = static_cast<const osmium::Relation&>(item);
                    const size_t i = static_cast<size_t>(rel.id() - 1);
                    VP_CHECK(i == rels && i < strs.size(), "writer-roundtrip", "relation ids out of step");
                    ++rels;
                    VP_CHECK(rel.members().size() == 3, "writer-roundtrip", "relation " << rel.id() << " has " << rel.members().size() << " members, 3 were written (role hex:" << hex(strs[i]) << ")");
                    auto m = rel.members().begin();
                    differ("member role", i, m->role());
                    ++m;
                    VP_CHECK(std::string{m->role()} == "plain", "writer-roundtrip", "second member role changed");
                    ++m;
                    differ("role of the last member", i, m->role());
                } else if (item.type() == osmium::item_type::changeset) {
                    const auto& cs = static_cast<const osmium::Changeset&>(item);
                    const size_t i = static_cast<size_t>(cs.id() - 1);
                    VP_CHECK(i == csets && i < strs.size(), "writer-roundtrip", "changeset ids out of step");
                    ++csets;
                    differ("changeset user name", i, cs.user());
                    VP_CHECK(cs.tags().size() == 1, "writer-roundtrip", "changeset " << cs.id() << " has " << cs.tags().size() << " tags");
                    differ("changeset tag key", i, cs.tags().begin()->key());
                    differ("changeset tag value", i, cs.tags().begin()->value());
                    if (xml) {
                        VP_CHECK(cs.discussion().size() == 1, "writer-roundtrip", "changeset " << cs.id() << " has " << cs.discussion().size() << " comments");
                        differ("comment user name", i, cs.discussion().begin()->user());
                        differ("comment text", i, cs.discussion().begin()->text());
                    }
                }
            }
        }
        r.close();
    } catch (const vp::Fail&) {
        throw;
    } catch (const std::exception& e) {
        vp::fail(xml ? "xml-writer-roundtrip" : "opl-writer-roundtrip", std::string{"the file written by the "} + fmt + " writer is rejected by the reader: " + e.what() + " (batch starts with string hex:" + hex(strs[0]) + ")");
    }
    VP_CHECK(nodes == strs.size() && rels == strs.size() && csets == strs.size(), "writer-roundtrip", "read back " << nodes << " nodes, " << rels << " relations, " << csets << " changesets of " << strs.size() << " each");
    L.nontrivial += strs.size();
    L.count("strings_through_the_writer", strs.size());
}

int main(int argc, char** argv) {
    vp::parse_args(argc, argv);
    const bool f16_open = vp::known_open("F16");
    std::vector<vp::Sub> subs;

    {
        vp::Sub s;
        s.name = "opl_scalar";
        s.domain = N_SCALARS;
        s.quick_stride = 1;  // cheap: exhaustive in both tiers
        s.fn = [f16_open](uint64_t i, vp::Local& L) {
            uint32_t cp = scalar(i);
            if (f16_open && cp >= 0x100000) {
                L.count("excluded_F16");
                return;
            }
            std::string c = utf8(cp);
            check_opl(c);
            check_opl("a" + c + "b");
            check_opl(c + c);
            ++L.nontrivial;  // every scalar is a distinct case; all exercise the escape decision
            L.count(cp < 0x80 ? "ascii" : cp < 0x800 ? "2byte" : cp < 0x10000 ? "3byte" : "4byte");
        };
        s.show = [](uint64_t i) {
            char b[32];
            std::snprintf(b, sizeof(b), "U+%04X", scalar(i));
            return std::string{b};
        };
        subs.push_back(s);
    }
    {
        vp::Sub s;
        s.name = "opl_struct4";
        s.domain = n_strings_upto(OPL_ALPHA.size(), 4);
        s.fn = [](uint64_t i, vp::Local& L) {
            check_opl(nth_string(OPL_ALPHA, i));
            ++L.nontrivial;
        };
        s.show = [](uint64_t i) { return "hex:" + hex(nth_string(OPL_ALPHA, i)); };
        subs.push_back(s);
    }
    {
        vp::Sub s;
        s.name = "xml_scalar";
        s.domain = N_SCALARS;
        s.fn = [](uint64_t i, vp::Local& L) {
            uint32_t cp = scalar(i);
            bool ok = is_xml_char(cp);
            std::string c = utf8(cp);
            check_xml(c, ok);
            check_xml("a" + c + "b", ok);
            if (ok) ++L.nontrivial;
            L.count(ok ? "xml_char" : "not_expressible_in_xml10_memory_only");
        };
        s.show = [](uint64_t i) {
            char b[32];
            std::snprintf(b, sizeof(b), "U+%04X", scalar(i));
            return std::string{b};
        };
        s.block = 1024;
        subs.push_back(s);
    }
    {
        vp::Sub s;
        s.name = "xml_struct4";
        s.domain = n_strings_upto(XML_ALPHA.size(), 4);
        s.fn = [](uint64_t i, vp::Local& L) {
            check_xml(nth_string(XML_ALPHA, i), true);
            ++L.nontrivial;
        };
        s.show = [](uint64_t i) { return "hex:" + hex(nth_string(XML_ALPHA, i)); };
        subs.push_back(s);
    }
    {
        vp::Sub s;
        s.name = "long_random";
        s.domain = 400000;
        s.quick_stride = 20;
        s.fn = [f16_open](uint64_t i, vp::Local& L) {
            std::string o = long_string(i, false);
            if (f16_open && o.find("\xf4") != std::string::npos) {
                L.count("excluded_F16");
            } else {
                check_opl(o);
            }
            check_xml(long_string(i, true), true);
            ++L.nontrivial;
        };
        s.show = [](uint64_t i) { return "hex:" + hex(long_string(i, false)).substr(0, 200); };
        s.block = 256;
        subs.push_back(s);
    }
    for (const bool xml : {true, false}) {
        vp::Sub s;
        s.name = xml ? "xml_writer" : "opl_writer";
        s.domain = (n_writer_strings(xml) + WRITER_BATCH - 1) / WRITER_BATCH;
        s.quick_stride = 5;
        // all structural strings in both tiers
        for (uint64_t b = 0; b * WRITER_BATCH < n_strings_upto((xml ? XML_ALPHA : OPL_ALPHA).size(), 4) + 3000; ++b) s.always.push_back(b);
        s.fn = [xml, f16_open](uint64_t i, vp::Local& L) { check_writers(xml, i, L, f16_open); };
        s.show = [xml](uint64_t i) {
            std::string t;
            return std::string{"batch of "} + std::to_string(WRITER_BATCH) + " strings starting at #" + std::to_string(i * WRITER_BATCH) + (writer_string(xml, i * WRITER_BATCH, t) ? " (hex:" + hex(t).substr(0, 40) + ")" : "");
        };
        s.block = 4;
        subs.push_back(s);
    }
    {
        vp::Sub s;
        s.name = "mem_bytes";
        s.domain = 1ULL << 32;
        s.quick_stride = 257;  // odd stride: every byte position sees all 256 values across the run
        // all strings whose last byte starts a multi-byte sequence, for every short prefix class
        for (uint64_t last : {0xc2ULL, 0xdfULL, 0xe0ULL, 0xefULL, 0xf0ULL, 0xf4ULL, 0xf7ULL, 0x80ULL, 0xbfULL, 0xf8ULL, 0xffULL}) {
            s.always.push_back(last);
            s.always.push_back(0x41 | (last << 8));
            s.always.push_back(0x41 | (0x41 << 8) | (last << 16));
            s.always.push_back(0x41 | (0x41 << 8) | (0x41 << 16) | (last << 24));
            s.always.push_back(last | (0x80ULL << 8));
            s.always.push_back(last | (0x80ULL << 8) | (0x80ULL << 16));
            s.always.push_back(0x41 | (last << 8) | (0x80ULL << 16));
            s.always.push_back(0x41 | (last << 8) | (0x80ULL << 16) | (0x80ULL << 24));
        }
        s.fn = check_mem;
        s.show = [](uint64_t i) {
            char b[32];
            std::snprintf(b, sizeof(b), "bytes(le)=%08x", static_cast<unsigned>(i));
            return std::string{b};
        };
        s.block = 1 << 16;
        subs.push_back(s);
    }
    return vp::run_enum(subs,
                        "enumeration: every Unicode scalar U+0001..U+10FFFF (alone, between ASCII letters, doubled) through OPL escape->opl_parse_string "
                        "and XML escape->expat; all strings of length<=4 over the structural alphabets; seeded long strings; every byte string of "
                        "length 1-4 placed with its NUL as the last byte before a PROT_NONE page (quick: stride 257 + boundary list). "
                        "non-trivial = scalar/structural string (each distinct by construction) or byte string with an invalid/cut-off sequence");
}
