// C04: buffers and builders keep objects intact across growth, commit, rollback, purge.
// Generated operation histories on a Buffer, compared after every step with a model through the
// independent layout walker (walker.hpp).  Build with ASan, assertions enabled.
#include "gen.hpp"
#include "walker.hpp"

#include <osmium/memory/callback_buffer.hpp>

using model::Obj;
using osmium::memory::Buffer;

struct MItem {
    Obj obj;
    bool removed = false;
};

struct Probe {  // detects growth/move of the buffer memory while a builder is open
    const Buffer& buf;
    const unsigned char* data;
    size_t cap;
    bool nested;
    bool moved = false;
    std::string where;
    explicit Probe(const Buffer& b) : buf(b), data(b.data()), cap(b.capacity()), nested(b.has_nested_buffers()) {}
    void at(const char* site) {
        if (buf.data() != data || buf.capacity() != cap) {
            moved = true;
            if (where.empty()) where = site;
            vp::count(std::string{"growth_in_"} + site);
            data = buf.data();
            cap = buf.capacity();
        }
    }
};

struct Variant {  // which overloads of the builder API to use
    int user = 0, tag = 0, ref = 0, member = 0, comment = 0, sub_ctor = 0;
};

template <typename B>
static void build_tags(Buffer& buf, B& parent, const Obj& o, const Variant& v, Probe& pr) {
    if (o.tags.empty()) return;
    if (v.tag == 5) {
        // copy an existing tag list in (Builder::add_item)
        Buffer tmp{256, Buffer::auto_grow::yes};
        {
            osmium::builder::TagListBuilder tb{tmp};
            for (const auto& t : o.tags) tb.add_tag(t.k, t.v);
        }
        tmp.commit();
        parent.add_item(tmp.get<osmium::TagList>(0));
        pr.at("add_item_taglist");
        return;
    }
    auto fill = [&](osmium::builder::TagListBuilder& tb) {
        for (const auto& t : o.tags) {
            switch (v.tag) {
                case 0: tb.add_tag(t.k.c_str(), t.v.c_str()); break;
                case 1: tb.add_tag(t.k.data(), t.k.size(), t.v.data(), t.v.size()); break;
                case 2: tb.add_tag(t.k, t.v); break;
                case 3: tb.add_tag(std::pair<const char*, const char*>{t.k.c_str(), t.v.c_str()}); break;
                default: {
                    Buffer tmp{256, Buffer::auto_grow::yes};
                    {
                        osmium::builder::TagListBuilder t2{tmp};
                        t2.add_tag(t.k, t.v);
                    }
                    tmp.commit();
                    tb.add_tag(*tmp.get<osmium::TagList>(0).begin());
                    break;
                }
            }
            pr.at("add_tag");
        }
    };
    if (v.sub_ctor == 0) {
        osmium::builder::TagListBuilder tb{buf, &parent};
        pr.at("taglist_ctor");
        fill(tb);
    } else {
        osmium::builder::TagListBuilder tb{parent};
        pr.at("taglist_ctor");
        fill(tb);
    }
    pr.at("taglist_dtor");
}

template <typename B>
static void build_user(B& b, const Obj& o, const Variant& v, Probe& pr) {
    switch (v.user) {
        case 0: b.set_user(o.user.c_str()); break;
        case 1: b.set_user(o.user.data(), static_cast<osmium::string_size_type>(o.user.size())); break;
        default: b.set_user(o.user); break;
    }
    pr.at("set_user");
}

template <typename RB>
static void fill_refs(RB& rb, const std::vector<model::NodeRef>& refs, const Variant& v, Probe& pr) {
    for (const auto& n : refs) {
        if (v.ref == 0) rb.add_node_ref(osmium::NodeRef{n.ref, model::to_location(n.loc)});
        else rb.add_node_ref(n.ref, model::to_location(n.loc));
        pr.at("add_node_ref");
    }
}

static void build_into(Buffer& buf, const Obj& o, const Variant& v, Probe& pr);

static void build_into(Buffer& buf, const Obj& o, const Variant& v, Probe& pr) {
    using namespace osmium::builder;
    switch (o.type) {
        case model::NODE: {
            NodeBuilder b{buf};
            pr.at("object_ctor");
            b.set_id(o.id).set_version(o.version).set_visible(o.visible).set_timestamp(osmium::Timestamp{o.ts}).set_changeset(o.cs).set_uid(o.uid);
            b.set_location(model::to_location(o.loc));
            build_user(b, o, v, pr);
            build_tags(buf, b, o, v, pr);
            break;
        }
        case model::WAY: {
            WayBuilder b{buf};
            pr.at("object_ctor");
            b.set_id(o.id).set_version(o.version).set_visible(o.visible).set_timestamp(osmium::Timestamp{o.ts}).set_changeset(o.cs).set_uid(o.uid);
            build_user(b, o, v, pr);
            if (v.tag % 2 == 0) build_tags(buf, b, o, v, pr);
            if (!o.refs.empty()) {
                if (v.ref == 2) {
                    Buffer tmp{256, Buffer::auto_grow::yes};
                    {
                        WayNodeListBuilder w{tmp};
                        for (const auto& n : o.refs) w.add_node_ref(n.ref, model::to_location(n.loc));
                    }
                    tmp.commit();
                    b.add_item(tmp.get<osmium::WayNodeList>(0));
                    pr.at("add_item_nodelist");
                } else if (v.sub_ctor == 0) {
                    WayNodeListBuilder w{buf, &b};
                    pr.at("nodelist_ctor");
                    fill_refs(w, o.refs, v, pr);
                } else {
                    WayNodeListBuilder w{b};
                    pr.at("nodelist_ctor");
                    fill_refs(w, o.refs, v, pr);
                }
                pr.at("nodelist_dtor");
            }
            if (v.tag % 2 == 1) build_tags(buf, b, o, v, pr);
            break;
        }
        case model::RELATION: {
            RelationBuilder b{buf};
            pr.at("object_ctor");
            b.set_id(o.id).set_version(o.version).set_visible(o.visible).set_timestamp(osmium::Timestamp{o.ts}).set_changeset(o.cs).set_uid(o.uid);
            build_user(b, o, v, pr);
            if (!o.members.empty()) {
                RelationMemberListBuilder m{buf, &b};
                pr.at("memberlist_ctor");
                for (const auto& x : o.members) {
                    Buffer tmp{256, Buffer::auto_grow::yes};
                    const osmium::OSMObject* full = nullptr;
                    if (!x.full.empty()) {
                        Probe p2{tmp};
                        build_into(tmp, x.full[0], Variant{}, p2);
                        tmp.commit();
                        full = &tmp.get<osmium::OSMObject>(0);
                    }
                    switch (v.member) {
                        case 0: m.add_member(model::member_type(x.type), x.ref, x.role.c_str(), full); break;
                        case 1: m.add_member(model::member_type(x.type), x.ref, x.role.data(), x.role.size(), full); break;
                        default: m.add_member(model::member_type(x.type), x.ref, x.role, full); break;
                    }
                    pr.at(full ? "add_member_full" : "add_member");
                }
            }
            pr.at("memberlist_dtor");
            build_tags(buf, b, o, v, pr);
            break;
        }
        case model::AREA: {
            AreaBuilder b{buf};
            pr.at("object_ctor");
            b.set_id(o.id).set_version(o.version).set_visible(o.visible).set_timestamp(osmium::Timestamp{o.ts}).set_changeset(o.cs).set_uid(o.uid);
            build_user(b, o, v, pr);
            build_tags(buf, b, o, v, pr);
            for (const auto& r : o.rings) {
                if (r.outer) {
                    OuterRingBuilder rb{buf, &b};
                    pr.at("ring_ctor");
                    fill_refs(rb, r.refs, v, pr);
                } else {
                    InnerRingBuilder rb{buf, &b};
                    pr.at("ring_ctor");
                    fill_refs(rb, r.refs, v, pr);
                }
                pr.at("ring_dtor");
            }
            break;
        }
        default: {
            ChangesetBuilder b{buf};
            pr.at("object_ctor");
            b.set_id(static_cast<osmium::changeset_id_type>(o.id)).set_uid(o.uid).set_created_at(osmium::Timestamp{o.created}).set_closed_at(osmium::Timestamp{o.closed});
            b.set_num_changes(o.num_changes).set_num_comments(o.num_comments);
            b.set_bounds(osmium::Box{model::to_location(o.bl), model::to_location(o.tr)});
            build_user(b, o, v, pr);
            if (v.comment < 2) build_tags(buf, b, o, v, pr);
            if (!o.comments.empty()) {
                ChangesetDiscussionBuilder d{buf, &b};
                pr.at("discussion_ctor");
                for (const auto& c : o.comments) {
                    d.add_comment(osmium::Timestamp{c.date}, c.uid, c.user.c_str());
                    pr.at("add_comment");
                    if (v.comment % 2 == 0) d.add_comment_text(c.text.c_str());
                    else d.add_comment_text(c.text);
                    pr.at("add_comment_text");
                }
            }
            pr.at("discussion_dtor");
            if (v.comment >= 2) build_tags(buf, b, o, v, pr);
            break;
        }
    }
    pr.at("object_dtor");
}

// ---------------------------------------------------------------- generation

static Obj gen_obj(vp::Src& s, bool allow_full_members = true) {
    gen::ObjOpts go;
    go.max_list = s.chance(1, 8) ? 60 : 6;
    go.max_str = s.chance(1, 6) ? 1024 : 40;
    go.allow_discussions = true;
    go.ref_locations = true;
    int type = static_cast<int>(s.weighted({3, 3, 3, 2, 2}));
    if (type == 3) return gen::object(s, model::CHANGESET, go);
    if (type == 4) {
        Obj a = gen::object(s, model::NODE, go);
        a.type = model::AREA;
        a.loc = model::Loc{};
        size_t nr = s.draw(5);
        bool have_outer = false;
        for (size_t i = 0; i < nr; ++i) {
            model::Ring r;
            r.outer = !have_outer || s.chance(1, 2);
            have_outer = true;
            size_t n = s.size(12);
            for (size_t k = 0; k < n; ++k) r.refs.push_back(model::NodeRef{static_cast<int64_t>(s.draw(1000)), gen::location(s, true, true)});
            a.rings.push_back(r);
        }
        return a;
    }
    Obj o = gen::object(s, type, go);
    // user names of 0..300 bytes
    if (s.chance(1, 4)) o.user = std::string(s.draw(301), 'u');
    if (type == model::RELATION && allow_full_members) {
        for (auto& m : o.members) {
            if (s.chance(1, 3)) {
                int ft = static_cast<int>(s.draw(3));
                gen::ObjOpts fo = go;
                fo.max_list = 4;
                m.full.push_back(gen::object(s, ft, fo));
                m.type = ft;
            }
        }
    }
    return o;
}

static Variant gen_variant(vp::Src& s) {
    Variant v;
    v.user = static_cast<int>(s.draw(3));
    v.tag = static_cast<int>(s.draw(6));
    v.ref = static_cast<int>(s.draw(3));
    v.member = static_cast<int>(s.draw(3));
    v.comment = static_cast<int>(s.draw(4));
    v.sub_ctor = static_cast<int>(s.draw(2));
    return v;
}

// ---------------------------------------------------------------- the system under test + model

struct Sut {
    Buffer buf;
    int mode = 0;  // 0 no, 1 yes, 2 internal
    std::vector<MItem> committed;  // whole logical committed sequence (archived nested + current)
    std::vector<Obj> archived;     // content of nested buffers already drained (oldest first)
    std::vector<Obj> pending;
    unsigned drain_period = 1;  // nested buffers are taken out every n-th step only, so that chains of several nested buffers build up
    unsigned steps = 0;
};

static Buffer::auto_grow mode_of(int m) { return m == 0 ? Buffer::auto_grow::no : m == 1 ? Buffer::auto_grow::yes : Buffer::auto_grow::internal; }

static void drain_nested(Sut& t) {
    size_t chain = 0;
    while (t.buf.has_nested_buffers()) {
        if (++chain == 2) vp::count("chains_of_two_or_more_nested_buffers");
        std::unique_ptr<Buffer> nb = t.buf.get_last_nested();
        std::vector<model::Obj> objs;
        try {
            objs = walker::walk(nb->data(), nb->committed());
        } catch (const walker::Error& e) {
            vp::fail("layout-nested", std::string{"nested buffer is not well-formed: "} + e.what());
        }
        VP_CHECK(nb->written() == nb->committed(), "nested-uncommitted", "nested buffer carries uncommitted data");
        for (auto& o : objs) t.archived.push_back(std::move(o));
        vp::count("nested_buffers_drained");
    }
}

static void check_state(Sut& t, const std::string& after, bool force_drain = false) {
    if (force_drain || t.drain_period <= 1 || ++t.steps % t.drain_period == 0) drain_nested(t);
    const Buffer& b = t.buf;
    VP_CHECK(b.committed() <= b.written() && b.written() <= b.capacity(), "buffer-invariant", "committed<=written<=capacity violated after " << after);
    VP_CHECK(b.committed() % 8 == 0, "buffer-alignment", "committed not aligned after " << after);
    std::vector<walker::ItemInfo> infos;
    std::vector<model::Obj> cur;
    try {
        cur = walker::walk(b.data(), b.committed(), &infos);
    } catch (const walker::Error& e) {
        vp::fail("layout", "committed area is not a well-formed item sequence after " + after + ": " + e.what());
    }
    std::vector<model::Obj> pend;
    try {
        if (b.written() % 8 == 0) pend = walker::walk(b.data() + b.committed(), b.written() - b.committed());
        else vp::fail("buffer-alignment", "written not aligned after " + after);
    } catch (const walker::Error& e) {
        vp::fail("layout-pending", "uncommitted area is not a well-formed item sequence after " + after + ": " + e.what());
    }
    // archived + (nested buffers not yet taken out) + current == model committed
    const bool nested = b.has_nested_buffers();
    VP_CHECK(nested ? t.archived.size() + cur.size() <= t.committed.size() : t.archived.size() + cur.size() == t.committed.size(), "content-count",
             "after " << after << ": buffer holds " << t.archived.size() << "+" << cur.size() << " committed items" << (nested ? " plus nested buffers" : "") << ", model has " << t.committed.size());
    const size_t base = t.committed.size() - cur.size();  // index of the current buffer's first item in the model
    for (size_t i = 0; i < t.committed.size(); ++i) {
        if (i >= t.archived.size() && i < base) continue;  // inside a nested buffer: compared when it is taken out
        const model::Obj& got = i < t.archived.size() ? t.archived[i] : cur[i - base];
        if (got != t.committed[i].obj) {
            vp::fail("content", "after " + after + ": committed item #" + std::to_string(i) + " differs (" + model::diff(t.committed[i].obj, got) + ")\n  model: " + model::show(t.committed[i].obj) + "\n  buffer: " + model::show(got));
        }
        if (i >= base) {
            VP_CHECK(infos[i - base].removed == t.committed[i].removed, "removed-flag", "after " << after << ": removed flag of item #" << i << " differs");
        }
    }
    VP_CHECK(pend.size() == t.pending.size(), "pending-count", "after " << after << ": buffer holds " << pend.size() << " uncommitted items, model has " << t.pending.size());
    for (size_t i = 0; i < pend.size(); ++i) {
        if (pend[i] != t.pending[i]) vp::fail("content-pending", "after " + after + ": uncommitted item #" + std::to_string(i) + " differs (" + model::diff(t.pending[i], pend[i]) + ")");
    }
    // libosmium's own traversal must agree with the walker (and ASan watches it)
    size_t k = 0;
    for (const auto& e : b) {
        VP_CHECK(base + k < t.committed.size(), "iteration", "library iterator yields more entities than the model after " << after);
        model::Obj viaapi = model::from_entity(e);
        if (viaapi != t.committed[base + k].obj) vp::fail("content-api", "after " + after + ": item #" + std::to_string(k) + " read through the library API differs (" + model::diff(t.committed[base + k].obj, viaapi) + ")");
        ++k;
    }
    VP_CHECK(k == cur.size(), "iteration", "library iterator yields " << k << " of " << cur.size() << " items after " << after);
}

struct PurgeLog {
    std::vector<std::pair<size_t, size_t>> moves;
    void moving_in_buffer(size_t old_offset, size_t new_offset) { moves.emplace_back(old_offset, new_offset); }
};

static size_t exact_size(const Obj& o, const Variant& v) {
    Buffer tmp{1024, Buffer::auto_grow::yes};
    Probe p{tmp};
    build_into(tmp, o, v, p);
    return tmp.written();
}

// ---------------------------------------------------------------- CallbackBuffer (memory/callback_buffer.hpp)
// Objects are built into buffer() and committed; flush(), possibly_flush(), read() and set_callback() in a generated order. Model: the
// items not yet handed out. Oracle: every buffer handed out (to the callback or by read()) is well-formed and holds exactly the items
// committed since the previous hand-out, in order; flush() hands out iff a callback is set and something is committed; possibly_flush()
// only when more than max_buffer_size bytes are committed; nothing is delivered twice or lost.
static void callback_buffer_history(vp::Src& s) {
    const size_t initial = 64 + 8 * s.draw(s.chance(1, 2) ? 40 : 2000);
    const size_t maxsize = s.chance(1, 3) ? 8 * s.draw(60) : 8 * s.draw(2500);
    std::vector<std::vector<Obj>> delivered;  // by the callback, one entry per call
    std::vector<std::string> problems;
    auto callback = [&](Buffer&& b) {
        try {
            delivered.push_back(walker::walk(b.data(), b.committed()));
        } catch (const walker::Error& e) {
            problems.push_back(std::string{"buffer given to the callback is not well-formed: "} + e.what());
        }
        if (b.written() != b.committed()) problems.push_back("buffer given to the callback carries uncommitted data");
    };
    const bool with_cb_at_start = s.boolean();
    osmium::memory::CallbackBuffer cb = with_cb_at_start ? osmium::memory::CallbackBuffer{callback, initial, maxsize} : osmium::memory::CallbackBuffer{initial, maxsize};
    bool has_cb = with_cb_at_start;
    std::vector<Obj> waiting;  // committed, not handed out yet
    std::string history = "CallbackBuffer initial=" + std::to_string(initial) + " max=" + std::to_string(maxsize) + (has_cb ? " callback" : "");
    size_t handouts = 0;
    auto expect_handout = [&](const std::vector<Obj>& got, const std::string& after) {
        VP_CHECK(got.size() == waiting.size(), "callback-buffer", "after " << after << ": the buffer handed out holds " << got.size() << " items, " << waiting.size() << " were committed since the last hand-out | " << history);
        for (size_t i = 0; i < got.size(); ++i)
            if (got[i] != waiting[i]) vp::fail("callback-buffer", "after " + after + ": item #" + std::to_string(i) + " of the buffer handed out differs (" + model::diff(waiting[i], got[i]) + ") | " + history);
        waiting.clear();
        ++handouts;
    };
    const size_t steps = 1 + s.draw(60);
    for (size_t step = 0; step < steps; ++step) {
        const size_t before = delivered.size();
        const size_t committed_before = cb.buffer().committed();
        std::string name;
        switch (s.weighted({8, 4, 3, 2, 2})) {
            case 0: {
                Obj o = gen_obj(s);
                Variant v = gen_variant(s);
                Probe pr{cb.buffer()};
                build_into(cb.buffer(), o, v, pr);
                cb.buffer().commit();
                waiting.push_back(o);
                name = "build+commit";
                history += " b";
                break;
            }
            case 1:
                cb.possibly_flush();
                name = "possibly_flush";
                history += " p";
                if (has_cb && committed_before > maxsize) {
                    VP_CHECK(delivered.size() == before + 1, "callback-buffer", "possibly_flush() with " << committed_before << " committed bytes (max " << maxsize << ") did not call the callback | " << history);
                    expect_handout(delivered.back(), name);
                    vp::count("callback_buffer_flush_by_size");
                } else {
                    VP_CHECK(delivered.size() == before, "callback-buffer", "possibly_flush() with " << committed_before << " committed bytes (max " << maxsize << ", callback " << (has_cb ? "set" : "not set") << ") called the callback | " << history);
                }
                break;
            case 2:
                cb.flush();
                name = "flush";
                history += " f";
                if (has_cb && committed_before > 0) {
                    VP_CHECK(delivered.size() == before + 1, "callback-buffer", "flush() with committed data and a callback did not call it exactly once (" << (delivered.size() - before) << " calls) | " << history);
                    expect_handout(delivered.back(), name);
                } else {
                    VP_CHECK(delivered.size() == before, "callback-buffer", "flush() called the callback although " << (has_cb ? "nothing was committed" : "no callback is set") << " | " << history);
                }
                break;
            case 3: {
                Buffer b = cb.read();
                name = "read";
                history += " r";
                std::vector<Obj> got;
                try {
                    got = walker::walk(b.data(), b.committed());
                } catch (const walker::Error& e) {
                    vp::fail("callback-buffer", std::string{"buffer returned by read() is not well-formed: "} + e.what() + " | " + history);
                }
                VP_CHECK(delivered.size() == before, "callback-buffer", "read() called the callback | " << history);
                expect_handout(got, name);
                break;
            }
            default:
                has_cb = !has_cb;
                if (has_cb) cb.set_callback(callback);
                else cb.set_callback();
                name = has_cb ? "set_callback" : "clear_callback";
                history += has_cb ? " C" : " c";
                break;
        }
        if (!problems.empty()) vp::fail("callback-buffer", problems[0] + " (after " + name + ") | " + history);
        // what is still inside is exactly what is waiting
        std::vector<Obj> inside;
        try {
            inside = walker::walk(cb.buffer().data(), cb.buffer().committed());
        } catch (const walker::Error& e) {
            vp::fail("callback-buffer", "after " + name + ": content of buffer() is not well-formed: " + e.what() + " | " + history);
        }
        VP_CHECK(inside == waiting, "callback-buffer", "after " << name << ": buffer() holds " << inside.size() << " items, " << waiting.size() << " are waiting | " << history);
    }
    if (vp::want_desc()) vp::describe(history);
    vp::count("callback_buffer_history");
    if (handouts >= 2) vp::nontrivial(vp::hash_str(history));
}

static void prop(vp::Src& s) {
    if (s.chance(1, 8)) {
        callback_buffer_history(s);
        return;
    }
    Sut t;
    t.mode = static_cast<int>(s.weighted({1, 2, 2}));
    {
        static const unsigned periods[] = {1, 3, 8, 1000};
        t.drain_period = periods[s.weighted({3, 2, 2, 1})];
    }
    size_t cap = 64 + 8 * s.draw(s.chance(1, 3) ? 505 : 40);
    if (t.mode == 0) cap = 256 + 8 * s.draw(1500);
    t.buf = Buffer{cap, mode_of(t.mode)};
    Sut other;  // second buffer for swap/move
    other.mode = static_cast<int>(s.weighted({1, 2, 2}));
    other.buf = Buffer{64 + 8 * s.draw(100), mode_of(other.mode)};
    std::string history = "cap=" + std::to_string(cap) + " mode=" + std::to_string(t.mode);
    bool moved_with_builder_open = false;
    bool purge_with_move = false;
    bool purge_pending_seen = false;
    size_t steps = 1 + s.draw(40);
    for (size_t step = 0; step < steps; ++step) {
        int cmd = static_cast<int>(s.weighted({10, 6, 2, 1, 2, 2, 1, 1, 3, 2, 1, 2, 1}));
        std::string name;
        switch (cmd) {
            case 0: {  // build an object through the builders (stays uncommitted)
                Obj o = gen_obj(s);
                Variant v = gen_variant(s);
                name = "build(" + std::string{model::show(o).substr(0, 60)} + ")";
                if (t.mode == 0) {
                    size_t need = exact_size(o, v);
                    if (need > t.buf.capacity() - t.buf.written()) {
                        // does not fit: only try the overflow when the exception can not be raised inside a sub-builder destructor
                        if (o.type == model::NODE && o.tags.empty()) {
                            bool threw = false;
                            try {
                                Probe pr{t.buf};
                                build_into(t.buf, o, v, pr);
                            } catch (const osmium::buffer_is_full&) {
                                threw = true;
                            }
                            VP_CHECK(threw, "buffer-full", "building an object that does not fit into a non-growing buffer did not throw buffer_is_full");
                            t.buf.rollback();
                            t.pending.clear();
                            name += "=buffer_is_full+rollback";
                            vp::count("buffer_full_reported");
                        } else {
                            name += "=skipped(no space)";
                        }
                        break;
                    }
                }
                Probe pr{t.buf};
                try {
                    build_into(t.buf, o, v, pr);
                } catch (const osmium::buffer_is_full&) {
                    vp::fail("buffer-full-unexpected", "buffer_is_full in growth mode " + std::to_string(t.mode) + " during " + name);
                }
                t.pending.push_back(o);
                if (pr.moved) {
                    moved_with_builder_open = true;
                    name += "[memory moved in " + pr.where + "]";
                }
                break;
            }
            case 1:
                name = "commit";
                t.buf.commit();
                for (auto& o : t.pending) t.committed.push_back(MItem{o, false});
                t.pending.clear();
                break;
            case 2:
                name = "rollback";
                t.buf.rollback();
                t.pending.clear();
                break;
            case 3: {
                name = "clear";
                drain_nested(t);
                size_t used = t.buf.clear();
                (void)used;
                // clear() empties this buffer; items already handed over in nested buffers are not affected
                t.committed.resize(t.archived.size());
                t.pending.clear();
                break;
            }
            case 4:
            case 5:
            case 6: {  // add_buffer / push_back / add_item from a scratch buffer
                Buffer scratch{64, Buffer::auto_grow::yes};
                std::vector<Obj> objs;
                size_t n = cmd == 4 ? s.draw(4) : 1;
                for (size_t i = 0; i < n; ++i) {
                    Obj o = gen_obj(s);
                    Probe p{scratch};
                    build_into(scratch, o, gen_variant(s), p);
                    scratch.commit();
                    objs.push_back(o);
                }
                if (t.mode == 0 && scratch.committed() > t.buf.capacity() - t.buf.written()) {
                    bool threw = false;
                    try {
                        if (cmd == 4) t.buf.add_buffer(scratch);
                        else if (cmd == 5) t.buf.push_back(scratch.get<osmium::memory::Item>(0));
                        else t.buf.add_item(scratch.get<osmium::memory::Item>(0));
                    } catch (const osmium::buffer_is_full&) {
                        threw = true;
                    }
                    VP_CHECK(threw, "buffer-full", "copying into a full non-growing buffer did not throw");
                    name = "copy=buffer_is_full";
                    vp::count("buffer_full_reported");
                    break;  // nothing was written (reserve_space throws before changing anything)
                }
                if (cmd == 4) {
                    name = "add_buffer(" + std::to_string(n) + ")";
                    if (scratch.committed() == 0) break;
                    t.buf.add_buffer(scratch);
                    for (auto& o : objs) t.pending.push_back(o);
                } else if (cmd == 5) {
                    name = "push_back";
                    t.buf.push_back(scratch.get<osmium::memory::Item>(0));
                    for (auto& o : t.pending) t.committed.push_back(MItem{o, false});
                    t.pending.clear();
                    t.committed.push_back(MItem{objs[0], false});
                } else {
                    name = "add_item";
                    t.buf.add_item(scratch.get<osmium::memory::Item>(0));
                    t.pending.push_back(objs[0]);
                }
                break;
            }
            case 7: {  // swap with the other buffer
                name = "swap";
                drain_nested(t);
                drain_nested(other);
                // items that were already archived stay with their logical owner; only swap when nothing is archived to keep the model simple
                if (!t.archived.empty() || !other.archived.empty()) {
                    name += "=skipped";
                    break;
                }
                if (s.boolean()) t.buf.swap(other.buf);
                else swap(t.buf, other.buf);
                std::swap(t.mode, other.mode);
                std::swap(t.committed, other.committed);
                std::swap(t.pending, other.pending);
                break;
            }
            case 8: {  // mark a committed item of the current buffer as removed
                name = "set_removed";
                drain_nested(t);
                size_t ncur = t.committed.size() - t.archived.size();
                if (ncur == 0) break;
                size_t k = s.draw(ncur);
                std::vector<walker::ItemInfo> infos;
                walker::walk(t.buf.data(), t.buf.committed(), &infos);
                t.buf.get<osmium::memory::Item>(infos[k].offset).set_removed(true);
                t.committed[t.archived.size() + k].removed = true;
                break;
            }
            case 9: {  // purge
                // Mostly on a fully committed buffer (what the library's own callers do). With uncommitted items behind the committed
                // ones the documentation promises nothing in particular for them; whatever the library does, the buffer must afterwards
                // hold the kept items followed by either none or all of the uncommitted items, never bytes that were not passed in.
                const bool purge_with_pending = !t.pending.empty() && s.chance(1, 3);
                if (!t.pending.empty() && !purge_with_pending) {
                    t.buf.commit();
                    for (auto& o : t.pending) t.committed.push_back(MItem{o, false});
                    t.pending.clear();
                }
                drain_nested(t);
                std::vector<walker::ItemInfo> infos;
                walker::walk(t.buf.data(), t.buf.committed(), &infos);
                std::vector<std::pair<size_t, size_t>> want_moves;
                size_t wpos = 0;
                for (size_t i = 0; i < infos.size(); ++i) {
                    if (!t.committed[t.archived.size() + i].removed) {
                        if (infos[i].offset != wpos) want_moves.emplace_back(infos[i].offset, wpos);
                        wpos += infos[i].padded_size;
                    }
                }
                bool with_cb = s.boolean();
                name = with_cb ? "purge_removed(callback)" : "purge_removed()";
                if (with_cb) {
                    PurgeLog log;
                    t.buf.purge_removed(&log);
                    VP_CHECK(log.moves == want_moves, "purge-callback", "purge reported " << log.moves.size() << " moves, expected " << want_moves.size()
                                                                                             << (want_moves.empty() ? "" : " first expected " + std::to_string(want_moves[0].first) + "->" + std::to_string(want_moves[0].second))
                                                                                             << (log.moves.empty() ? "" : " first reported " + std::to_string(log.moves[0].first) + "->" + std::to_string(log.moves[0].second)));
                } else {
                    t.buf.purge_removed();
                }
                if (!want_moves.empty()) purge_with_move = true;
                std::vector<MItem> kept(t.committed.begin(), t.committed.begin() + static_cast<std::ptrdiff_t>(t.archived.size()));
                for (size_t i = t.archived.size(); i < t.committed.size(); ++i)
                    if (!t.committed[i].removed) kept.push_back(t.committed[i]);
                t.committed = kept;
                if (purge_with_pending) {
                    name += " with " + std::to_string(t.pending.size()) + " uncommitted items";
                    VP_CHECK(t.buf.committed() == wpos, "purge-size", "after purge committed=" << t.buf.committed() << " expected " << wpos);
                    if (t.buf.written() == t.buf.committed()) {
                        t.pending.clear();  // dropped, like a rollback
                        vp::count("purge_dropped_uncommitted_items");
                    } else {
                        vp::count("purge_kept_uncommitted_items");  // must be exactly the model's pending items: compared by the step check
                    }
                    purge_pending_seen = true;
                    break;
                }
                VP_CHECK(t.buf.committed() == wpos && t.buf.written() == wpos, "purge-size", "after purge committed=" << t.buf.committed() << " expected " << wpos);
                break;
            }
            case 10: {  // explicit grow
                size_t n = t.buf.capacity() + 8 * s.draw(200);
                name = "grow(" + std::to_string(n) + ")";
                t.buf.grow(n);
                VP_CHECK(t.buf.capacity() >= n, "grow", "capacity after grow too small");
                break;
            }
            case 11: {  // move construct + move assign round trip
                name = "move";
                drain_nested(t);
                Buffer tmp{std::move(t.buf)};
                VP_CHECK(!t.buf, "move", "moved-from buffer still valid");
                if (s.boolean()) {
                    t.buf = std::move(tmp);
                } else {
                    Buffer tmp2;
                    tmp2 = std::move(tmp);
                    t.buf = std::move(tmp2);
                }
                break;
            }
            default: {  // commit and read the offset it returns
                name = "commit+offset";
                size_t before = t.buf.committed();
                size_t off = t.buf.commit();
                VP_CHECK(off == before, "commit-offset", "commit() returned " << off << " expected " << before);
                for (auto& o : t.pending) t.committed.push_back(MItem{o, false});
                t.pending.clear();
                break;
            }
        }
        history += " | " + name;
        if (vp::want_desc()) vp::describe(history);
        check_state(t, name + " (step " + std::to_string(step) + ")");
    }
    check_state(t, "the last step, all nested buffers taken out", true);
    if (vp::want_desc()) vp::describe(history);
    if (moved_with_builder_open) {
        vp::nontrivial(vp::hash_str(history));
        vp::count("history_with_growth_while_builder_open");
    }
    if (purge_with_move) vp::count("history_with_purge_moves");
    if (purge_pending_seen) vp::count("history_with_purge_over_uncommitted_items");
    vp::count(std::string{"mode_"} + (t.mode == 0 ? "no" : t.mode == 1 ? "yes" : "internal"));
}

// ---------------------------------------------------------------- regression scenarios

VP_BUILTIN(F08_discussion_builder_growth) {
    // changeset with comments built into buffers of every small capacity, so that the memory moves between add_comment and add_comment_text
    for (size_t cap = 64; cap <= 512; cap += 8) {
        for (int mode = 1; mode <= 2; ++mode) {
            Sut t;
            t.mode = mode;
            t.buf = Buffer{cap, mode_of(mode)};
            Obj cs;
            cs.type = model::CHANGESET;
            cs.id = 7;
            cs.uid = 3;
            cs.user = "someone";
            for (int i = 0; i < 3; ++i) cs.comments.push_back(model::Comment{static_cast<uint32_t>(100 + i), 5, std::string(static_cast<size_t>(10 + 7 * i), 'u'), std::string(static_cast<size_t>(30 + 13 * i), 't')});
            cs.num_comments = 3;
            Probe pr{t.buf};
            build_into(t.buf, cs, Variant{}, pr);
            t.pending.push_back(cs);
            t.buf.commit();
            t.committed.push_back(MItem{cs, false});
            t.pending.clear();
            check_state(t, "F08 scenario cap=" + std::to_string(cap));
        }
    }
}

VP_MAIN(prop, "generated operation histories (1..40 steps) on a Buffer of capacity 64..4096 and growth mode no/yes/internal: build node/way/relation(with full members)/area/changeset(with "
              "discussion) through every builder overload, commit, rollback, clear, add_buffer, push_back, add_item, swap, move, set_removed, purge_removed with/without callback (1/3 of them with uncommitted items behind the committed ones), grow; "
              "after every step the independent layout walker decodes committed and uncommitted area (plus nested buffers) and must equal the model; ASan + assertions. "
              "non-trivial = history in which the buffer memory moved or grew while a builder was open; distinct by hash of the history text")
