#include "filegen.hpp"
#include <sys/stat.h>
#include <zlib.h>
#include <bzlib.h>
static std::string gz(const std::string& in) {
    z_stream zs{}; deflateInit2(&zs, 6, Z_DEFLATED, 15 + 16, 8, Z_DEFAULT_STRATEGY);
    std::string out(deflateBound(&zs, in.size()) + 64, '\0');
    zs.next_in = reinterpret_cast<Bytef*>(const_cast<char*>(in.data())); zs.avail_in = in.size();
    zs.next_out = reinterpret_cast<Bytef*>(&out[0]); zs.avail_out = out.size();
    deflate(&zs, Z_FINISH); out.resize(zs.total_out); deflateEnd(&zs); return out;
}
static std::string bz(const std::string& in) {
    unsigned int n = in.size() + in.size() / 50 + 1000; std::string out(n, '\0');
    BZ2_bzBuffToBuffCompress(&out[0], &n, const_cast<char*>(in.data()), in.size(), 9, 0, 0); out.resize(n); return out;
}
int main(int argc, char** argv) {
    std::string root = argv[1];
    const char* units[] = {"c03_fuzz_pbf", "c03_fuzz_o5m", "c03_fuzz_xml", "c03_fuzz_opl"};
    for (int fmt = 0; fmt < 4; ++fmt) {
        std::string dir = root + "/" + units[fmt];
        mkdir(dir.c_str(), 0755);
        int written = 0;
        for (uint64_t seed = 1; written < 40; ++seed) {
            vp::Src s{seed * 7919 + fmt};
            filegen::Made m = filegen::small_file(s, fmt, 5);
            if (m.bytes.size() > 1500 || m.bytes.empty()) continue;
            std::ofstream f(dir + "/gen" + std::to_string(written), std::ios::binary);
            f.write(m.bytes.data(), m.bytes.size());
            ++written;
            if (fmt == 2 && written <= 15) { mkdir((root + "/c03_fuzz_xml_gz").c_str(), 0755); std::string z = gz(m.bytes); std::ofstream g(root + "/c03_fuzz_xml_gz/gen" + std::to_string(written), std::ios::binary); g.write(z.data(), z.size()); }
            if (fmt == 3 && written <= 15) { mkdir((root + "/c03_fuzz_opl_bz2").c_str(), 0755); std::string z = bz(m.bytes); std::ofstream g(root + "/c03_fuzz_opl_bz2/gen" + std::to_string(written), std::ios::binary); g.write(z.data(), z.size()); }
        }
    }
    return 0;
}
